#!/usr/bin/env python3
"""manifest_add.py Cxx "<level text>" "<level note>" "<technique>" [design_ref] : claim a property in MANIFEST.json"""
import json, sys
pid, text, note, tech = sys.argv[1:5]
ref = sys.argv[5] if len(sys.argv) > 5 else "DESIGN.md section 3, " + pid
m = json.load(open("MANIFEST.json"))
m["checks"] = [c for c in m["checks"] if c["property_id"] != pid]
m["checks"].append({
    "property_id": pid,
    "quick_cmd": f"./check {pid} --tier quick",
    "thorough_cmd": f"./check {pid} --tier thorough",
    "evidence_file": f"evidence/{pid}.json",
    "replay_cmd_template": f"./check {pid} --replay {{path}}",
    "engine": "hgxv",
    "level_claimed": {"category": "proof", "text": text, "design_ref": ref},
    "level_note": note,
    "technique": tech,
})
m["checks"].sort(key=lambda c: c["property_id"])
m["not_applicable"] = [n for n in m.get("not_applicable", []) if n["property_id"] != pid]
m["engines"][0]["serves_properties"] = [c["property_id"] for c in m["checks"]]
json.dump(m, open("MANIFEST.json", "w"), indent=1)
