#!/bin/bash
# tools/pick.sh <commit>... : cherry-pick fix commits from agent branches into /repo main, run the test-suite
set -e
cd /repo
test -z "$(git status --porcelain --untracked-files=no)" || { echo "/repo dirty"; exit 2; }
for c in "$@"; do
  git cherry-pick "$c" >/dev/null || { echo "CONFLICT on $c"; git cherry-pick --abort; exit 1; }
  git log --oneline -1
done
/venv/bin/python -m pytest -q -p no:cacheprovider --timeout=900 2>&1 | tail -2
