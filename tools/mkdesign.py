#!/usr/bin/env python3
"""assemble DESIGN.md from design/00-head.md, known_findings.json, notes/Cxx.md, seeded/RESULTS.md, design/90-tail.md"""
import json, os, re, glob
V = os.path.dirname(os.path.dirname(os.path.abspath(__file__)))
out = [open(f"{V}/design/00-head.md").read()]
k = json.load(open(f"{V}/known_findings.json"))
out.append("\n---------------------------------------------------------------------------------------------------------------------\n\n"
           "## 2. Genuine defects of the unchanged tree\n\n"
           "Every entry was reproduced on the real code by the check of its property (replay file) before it was repaired or recorded.\n"
           "`DESIGN-plan.md` §2 has the original probe table (D1–D35); D36–D61 were found while building (by the correspondence, by the thorough tier, or by a strengthening round after a blind mutation round).\n\n"
           "### 2.1 Repaired (`fix:` commits in /repo; `fixed:` lines of known_findings.json)\n\n| property | commit | what failed |\n|---|---|---|\n")
for line in sorted(k["fixed"]):
    m = re.match(r"fixed: property=(C\d+) ([0-9a-f]{7}) (.*)", line)
    out.append(f"| {m.group(1)} | `{m.group(2)}` | {m.group(3).replace('|', '/')} |\n")
out.append("\n### 2.2 Recorded, not repaired (known findings: the check prints KNOWN-FINDING and still fails on any other violation)\n\n")
for f in k["findings"]:
    out.append(f"* **{f['id']}** ({f['property']}): {f.get('what') or f.get('class')}. Observed: {f.get('observed')}. "
               f"Why recorded: {f.get('why_recorded')}. Identified by the call-site class `{f.get('class')}` with the committed witness "
               f"`{json.dumps(f.get('witness') or f.get('input'))}`" + (f"; Lean witness `{f['lean_witness']}`" if f.get('lean_witness') else "") + ".\n")
out.append("\n---------------------------------------------------------------------------------------------------------------------\n\n"
           "## 3. Per-property design (as built; one section per property, from notes/Cxx.md)\n\n"
           "Overview:\n\n| prop | theorems | status | lake targets | quick |\n|---|---|---|---|---|\n")
man = {c["property_id"]: c for c in json.load(open(f"{V}/MANIFEST.json"))["checks"]}
for p in sorted(man):
    n = len(re.findall(r"^theorem\s+" + p + "_", open(f"{V}/lean/Hgxv/Props/{p}.lean").read(), flags=re.M))
    ev = {}
    try:
        ev = json.load(open(f"{V}/evidence/{p}.json"))
    except Exception:
        pass
    st = "partial (parameters)" if p in ("C17", "C20") else "full"
    kf = [f["id"] for f in k["findings"] if f["property"] == p]
    if kf:
        st += " + known finding(s) " + ", ".join(kf)
    out.append(f"| {p} | {n} | {st} | `Hgxv.Props.{p}`, `driver_{p.lower()}` | {ev.get('wall_s', '?')} s, {ev.get('coverage', {}).get('evaluations', '?')} cases |\n")
out.append("\n")
for p in sorted(man):
    f = f"{V}/notes/{p}.md"
    if os.path.exists(f):
        txt = open(f).read()
        txt = re.sub(r"^(#+) ", lambda m: "##" + m.group(1) + " ", txt, flags=re.M)   # demote headings by two levels
        out.append(txt.rstrip() + "\n\n")
    else:
        out.append(f"### {p}\n\n(see `lean/Hgxv/Props/{p}.lean`, `harness/{p.lower()}.py`, and `DESIGN-plan.md` §3 {p})\n\n")
out.append("---------------------------------------------------------------------------------------------------------------------\n\n"
           "## 5. Which checks catch which seeded changes\n\n"
           "`seeded/<id>/` holds every change kept from the blind mutation rounds (sub-agents that saw only the text of one property and a scratch\n"
           "worktree; each change confirmed by `tools/adopt.sh`: demo passes on the clean tree, fails with the change, the 430 tests still pass) and\n"
           "`seeded/rev-Cxx-<commit>/`, the reverts of the genuine-defect repairs. `tools/seeded.py` applies each to /repo, runs the quick check of the\n"
           "property, undoes it. Changes that were first MISSED and the strengthening they caused are described in the notes of the property and in\n"
           "`AGENT_GUIDE.md` (lessons).\n\n"
           "Six blind rounds were run (a-f; three changes per property and round, each agent was told what earlier rounds had tried so that it looked\n"
           "elsewhere). Every change that the quick check of its property missed at first led to a strengthening round for the whole CLASS of\n"
           "input the change needs (never the patched lines), after which all kept changes of that property were re-run. Round e: 60 changes, 14 missed\n"
           "at first (C02, C03, C06, C07x2, C09x2, C10x2, C17, C18x2, C20x2); round f (the 11 properties whose model was extended): 33 changes, 5 missed at\n"
           "first (C12, C13, C16x2, C19). The table below is the final state, measured against /repo itself.\n\n")
r = f"{V}/seeded/RESULTS.md"
out.append(open(r).read() if os.path.exists(r) else "(run tools/seeded.py)\n")
out.append("\n" + open(f"{V}/design/90-tail.md").read())
open(f"{V}/DESIGN.md", "w").write("".join(out))
print("DESIGN.md", sum(len(x) for x in out), "bytes")
