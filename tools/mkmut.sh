#!/bin/bash
# tools/mkmut.sh <PROP> <suffix> : prepare /tmp/m/<PROP>-<suffix> (worktree of /repo HEAD, property text, TASK.md) for a blind mutation agent
P=$1; ID=$1-$2
mkdir -p /tmp/m/$ID/out && git -C /repo worktree add -q --detach /tmp/m/$ID/repo HEAD || exit 1
python3 - <<PY
import json
for l in open('/verif/properties.jsonl'):
    p=json.loads(l)
    if p['id']=="$P":
        open("/tmp/m/$ID/property.txt",'w').write(f"{p['title']}\n\n{p['statement']}\n\nQuantifier: {p['quantifier']['text']}\n\nCode anchors: {', '.join(p['anchors']['files'])}\n")
PY
sed "s/@ID@/$ID/g; s/@PROP@/$P/g" /verif/tools/mutation_task.tmpl > /tmp/m/$ID/TASK.md
echo /tmp/m/$ID/TASK.md
