#!/usr/bin/env python3
"""tools/matrix.py [--jobs N] [--seeds 0] : the full detection matrix, in parallel.
Splits all seeded/<id>/ round-robin over N scratch worktrees of /repo HEAD (tools/seeded.py --wt: the patch is applied
to the worktree, the check imports the code from it through HGX_REPO, the worktree is removed afterwards; /repo itself is
never modified), re-runs every MISSED / crashed row once alone (a budget-limited check can run short under load), and
writes seeded/RESULTS.md."""
import glob, os, subprocess, sys, re
V = os.path.dirname(os.path.dirname(os.path.abspath(__file__)))
jobs = int(sys.argv[sys.argv.index("--jobs") + 1]) if "--jobs" in sys.argv else 6
seeds = sys.argv[sys.argv.index("--seeds") + 1] if "--seeds" in sys.argv else "0"
ids = sorted(os.path.basename(os.path.dirname(p)) for p in glob.glob(f"{V}/seeded/*/patch.diff"))
props = sys.argv[sys.argv.index("--props") + 1].split(",") if "--props" in sys.argv else None   # only the changes of these properties; other rows kept
old = {}
if props:
    import json
    for l in open(f"{V}/seeded/RESULTS.md"):
        if l.startswith("| ") and not l.startswith("| seeded change"):
            old[l.split("|")[1].strip()] = l.rstrip("\n")
    ids = [i for i in ids if json.load(open(f"{V}/seeded/{i}/meta.json"))["property"] in props]
# keep the changes of one property in different chunks so that parallel runs of one check are rare
chunks = [ids[i::jobs] for i in range(jobs)]
procs = [subprocess.Popen([f"{V}/tools/seeded.py", "--wt", "--seeds", seeds] + c, stdout=subprocess.PIPE, stderr=subprocess.STDOUT, text=True, cwd=V)
         for c in chunks if c]
rows = {}
head = None
for p in procs:
    out = p.communicate()[0]
    for l in out.splitlines():
        if l.startswith("| seeded change"):
            head = l
        elif l.startswith("| ") and not l.startswith("|---"):
            rows[l.split("|")[1].strip()] = l
again = [i for i, l in rows.items() if "MISSED" in l or "does not apply" in l] + [i for i in ids if i not in rows]
for i in again:
    out = subprocess.run([f"{V}/tools/seeded.py", "--wt", "--seeds", seeds, i], stdout=subprocess.PIPE, stderr=subprocess.STDOUT, text=True, cwd=V).stdout
    for l in out.splitlines():
        if l.startswith("| " + i + " "):
            rows[i] = l + " (re-run alone)"
for i, l in old.items():
    rows.setdefault(i, l)
n = len(rows); c = sum("CAUGHT" in l for l in rows.values()); o = sum("obsolete" in l for l in rows.values())
hdr = (f"{n} seeded changes; {c} caught, {o} obsolete, {n - c - o} not caught. Quick tier, seed(s) {seeds}; run by `tools/matrix.py` "
       f"({jobs} scratch worktrees of /repo HEAD in parallel, rows first missed re-run alone).\n\n")
open(f"{V}/seeded/RESULTS.md", "w").write(hdr + (head or "") + "\n|---|---|---|---|---|\n" + "\n".join(rows[i] for i in sorted(rows)) + "\n")
print(hdr); print("\n".join(l for l in rows.values() if "CAUGHT" not in l))
