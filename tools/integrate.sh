#!/bin/bash
# tools/integrate.sh Cxx [seeds...] : rebuild lakefile + Lean targets of a delivered property and run its quick check
P=$1; shift; SEEDS=${@:-0 1 2}
p=$(echo $P | tr A-Z a-z)
cd /verif
python3 lean/genlake.py
( cd lean && lake build Hgxv.Props.$P driver_$p 2>&1 | grep -v "^✔" | tail -15 )
rc=0
for s in $SEEDS; do
  VERIF_SEED=$s ./check $P | tail -4 || rc=1
done
python3-vt - <<PY
import json, jsonschema
jsonschema.validate(json.load(open('/verif/evidence/$P.json')), json.load(open('/root/.vp/EVIDENCE.schema.json')))
e=json.load(open('/verif/evidence/$P.json'))
print("evidence valid; obligations", e['coverage']['obligations'], "discharged", e['coverage']['discharged'], "wall", e['wall_s'])
PY
exit $rc
