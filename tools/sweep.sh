#!/bin/bash
# tools/sweep.sh <tier> <seed> [jobs] : build, then run every claimed check once (jobs in parallel); summary at the end
TIER=${1:-quick}; SEED=${2:-0}; JOBS=${3:-4}
( cd lean && python3 genlake.py && lake build 2>&1 | tail -2 )
mkdir -p /tmp/sweep.$$
python3 -c "import json; print(' '.join(c['property_id'] for c in json.load(open('MANIFEST.json'))['checks']))" | tr ' ' '\n' | \
  xargs -P $JOBS -I{} sh -c "VERIF_SEED=$SEED ./check {} --tier $TIER > /tmp/sweep.$$/{}.log 2>&1; echo {} rc=\$? \$(tail -1 /tmp/sweep.$$/{}.log)"
grep -l "VIOLATION" /tmp/sweep.$$/*.log | while read f; do echo "== $f"; grep -B1 VIOLATION $f | head -6; done
