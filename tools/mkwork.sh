#!/bin/bash
# tools/mkwork.sh Cxx : private copies for a builder/strengthening agent
P=$1
rm -rf /tmp/w/$P/verif; git -C /repo worktree remove --force /tmp/w/$P/repo 2>/dev/null; git -C /repo branch -D s$P 2>/dev/null
mkdir -p /tmp/w/$P && git -C /repo worktree add -q -b s$P /tmp/w/$P/repo HEAD && cp -r /verif /tmp/w/$P/verif && echo /tmp/w/$P
