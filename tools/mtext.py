#!/usr/bin/env python3
"""tools/mtext.py Cxx "sentence" : set the theorem count in MANIFEST level text to the current number of theorems in
Props/Cxx.lean and append a sentence (if given and not yet present)."""
import json, re, sys
p = sys.argv[1]; add = sys.argv[2] if len(sys.argv) > 2 else ""
n = sum(1 for l in open(f"/verif/lean/Hgxv/Props/{p}.lean") if l.startswith(f"theorem {p}_"))
m = json.load(open("/verif/MANIFEST.json"))
for c in m["checks"]:
    if c["property_id"] == p:
        t = c["level_claimed"]["text"]
        t, k = re.subn(r"\b\d+ Lean theorems", f"{n} Lean theorems", t, count=1)
        if not k: t = f"{n} Lean theorems. " + t
        if add and add not in t: t = t.rstrip() + " " + add
        c["level_claimed"]["text"] = t
json.dump(m, open("/verif/MANIFEST.json", "w"), indent=1, ensure_ascii=False); print(p, n)
