#!/usr/bin/env python3
"""tools/seeded.py [ids...] [--tier quick|thorough] [--seeds 0,1]
Apply every seeded change under /verif/seeded/<id>/patch.diff to /repo, run the check of the property it
breaks, undo it, and print the detection matrix (also written to seeded/RESULTS.md).
Never leaves /repo modified: refuses to start on a dirty tree and always runs `git checkout -- .`."""
import json, os, subprocess, sys, glob, time

VERIF = os.path.dirname(os.path.dirname(os.path.abspath(__file__)))
REPO = "/repo"


def sh(cmd, **kw):
    return subprocess.run(cmd, stdout=subprocess.PIPE, stderr=subprocess.STDOUT, text=True, **kw)


def main():
    args = [a for a in sys.argv[1:] if not a.startswith("--")]  # ids; options: --tier T --seeds 0,1 --wt
    tier = "quick"
    seeds = [0]
    for i, a in enumerate(sys.argv):
        if a == "--tier":
            tier = sys.argv[i + 1]; args = [x for x in args if x != tier]
        if a == "--seeds":
            seeds = [int(x) for x in sys.argv[i + 1].split(",")]; args = [x for x in args if x != sys.argv[i + 1]]
    global REPO
    use_wt = "--wt" in sys.argv
    env_extra = {}
    if use_wt:
        # scratch worktree of /repo HEAD (outside /repo and /verif); the check imports the code from $HGX_REPO
        wt = "/tmp/seedwt-%d" % os.getpid()
        sh(["git", "-C", REPO, "worktree", "add", "--detach", wt, "HEAD"])
        main_repo, REPO = REPO, wt
        env_extra = {"HGX_REPO": wt}
    if sh(["git", "-C", REPO, "status", "--porcelain", "--untracked-files=no"]).stdout.strip():
        print("refusing: /repo has uncommitted changes"); sys.exit(2)
    ids = args or sorted(os.path.basename(os.path.dirname(p)) for p in glob.glob(os.path.join(VERIF, "seeded", "*", "patch.diff")))
    rows = []
    for sid in ids:
        d = os.path.join(VERIF, "seeded", sid)
        meta = json.load(open(os.path.join(d, "meta.json")))
        prop = meta["property"]
        if meta.get("obsolete"):
            rows.append((sid, prop, "obsolete (property-equivalent on the repaired tree)", meta["obsolete"][:120], 0)); continue
        ap = sh(["git", "-C", REPO, "apply", os.path.join(d, "patch.diff")])
        if ap.returncode != 0:
            rows.append((sid, prop, "patch does not apply", "", 0)); continue
        try:
            res = []
            for s in seeds:
                t0 = time.time()
                r = sh([os.path.join(VERIF, "check"), prop, "--tier", tier], cwd=VERIF, env={**os.environ, **env_extra, "VERIF_SEED": str(s)})
                vio = [l for l in r.stdout.splitlines() if l.startswith("VIOLATION")]
                why = [l for l in r.stdout.splitlines() if l.startswith("# ")]
                res.append((r.returncode, vio[:1], why[:1], time.time() - t0))
            caught = all(rc == 1 for rc, *_ in res)
            kind = "no-failing-input-found" if any("no-failing-input-found" in (v[0] if v else "") for _, v, _, _ in res) else "failing input"
            rows.append((sid, prop, "CAUGHT (" + kind + ")" if caught else "MISSED rc=" + ",".join(str(x[0]) for x in res),
                         (res[0][2][0] if res[0][2] else "")[:160], sum(x[3] for x in res)))
        finally:
            sh(["git", "-C", REPO, "checkout", "--", "."])
    if use_wt:
        sh(["git", "-C", main_repo, "worktree", "remove", "--force", REPO])
    out = ["| seeded change | property | " + tier + " check (seeds " + ",".join(map(str, seeds)) + ") | first reported reason | s |", "|---|---|---|---|---|"]
    for r in rows:
        out.append(f"| {r[0]} | {r[1]} | {r[2]} | {r[3]} | {r[4]:.0f} |")
    print("\n".join(out))
    if not args and not use_wt:
        open(os.path.join(VERIF, "seeded", "RESULTS.md"), "w").write("\n".join(out) + "\n")


if __name__ == "__main__":
    main()
