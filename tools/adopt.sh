#!/bin/bash
# tools/adopt.sh <src out dir e.g. /tmp/m/C12-a/out/m1> <seeded id> : confirm a proposed change in a scratch worktree and keep it
SRC=$1; ID=$2
W=/tmp/confirm-$ID
git -C /repo worktree add -q --detach $W HEAD || exit 2
ok=1
cd $W
PYTHONPATH=$W /venv/bin/python $SRC/demo.py >/tmp/confirm-$ID.log 2>&1 && echo "clean tree: demo passes" || { echo "clean tree: demo FAILS"; ok=0; }
git apply $SRC/patch.diff || { echo "patch does not apply"; ok=0; }
PYTHONPATH=$W /venv/bin/python $SRC/demo.py >>/tmp/confirm-$ID.log 2>&1 && { echo "changed tree: demo passes (BAD)"; ok=0; } || echo "changed tree: demo fails (good)"
T=$(/venv/bin/python -m pytest -q -p no:cacheprovider --timeout=900 2>&1 | tail -1); echo "tests with change: $T"
echo "$T" | grep -q "failed\|error" && ok=0
cd /verif
git -C /repo worktree remove --force $W
if [ $ok = 1 ]; then
  mkdir -p seeded/$ID && cp $SRC/patch.diff $SRC/demo.py seeded/$ID/ 
  python3 - <<PY
import json
m=json.load(open("$SRC/meta.json"))
m["confirmed"]={"by":"tools/adopt.sh in a scratch worktree of /repo HEAD","clean_demo":"passes","changed_demo":"fails","tests_with_change":"$T"}
json.dump(m,open("seeded/$ID/meta.json","w"),indent=1)
PY
  echo "ADOPTED seeded/$ID"
else echo "REJECTED $ID"; fi
