"""C12 - directed measures: correspondence of lean/Hgxv/Model/C12.lean with
hypergraphx.measures.directed.* and independent property oracles on the implementation."""
from fractions import Fraction

import hgxv

RULE = ("random DirectedHypergraph instances (3-9 nodes from a sparse integer or string universe, 1-12 hyperedges with "
        "disjoint non-empty sides, total size 2-6, reverse hyperedges and partial reversals injected), every bound "
        "m in 2..7, every node, size filters none/2..6 and the equivalent order filters; a case is distinct by its "
        "canonical hyperedge list; instances are reached through four kinds of histories (plain insertion, detours with removed temporary hyperedges and re-insertions, the original of a mutated copy, the copy of a mutated original); non-trivial when exact, strong and weak reciprocity are pairwise different for some size")
ASSUMPTIONS = ["hyperedges have disjoint non-empty source and target sets (the property's quantifier)",
               "labels are mapped to their rank in sorted order before they reach the model"]
TRUSTED = ["float division c/t of two ints is the correctly rounded quotient (compared with float(Fraction(c, t)))"]


def gen(rng):
    n = rng.randint(3, 9)
    if rng.random() < 0.3:
        labels = sorted(rng.sample([chr(97 + i) * rng.randint(1, 2) for i in range(20)] + ["E1", "N0"], n))
    else:
        labels = sorted(rng.sample(range(0, 40), n))
        if rng.random() < 0.5:
            labels = [x * 1009 + 300 for x in labels]   # ints that CPython does not share: equality is not identity
    edges = []
    for _ in range(rng.randint(1, 12)):
        size = min(n, rng.choice([2, 2, 2, 3, 3, 4, 5, 6]))
        nodes = rng.sample(labels, size)
        k = rng.randint(1, size - 1)
        e = (tuple(nodes[:k]), tuple(nodes[k:]))
        edges.append(e)
        r = rng.random()
        if r < 0.25:
            edges.append((e[1], e[0]))
        elif r < 0.5:
            # partial reversal: one target -> one source (+ maybe a third node)
            t, s = rng.choice(e[1]), rng.choice(e[0])
            extra = [x for x in labels if x not in (t, s)]
            tgt = (s,) + ((rng.choice(extra),) if extra and rng.random() < 0.4 else ())
            edges.append(((t,), tgt))
        elif r < 0.6 and len(e[1]) >= 1:
            # reach all sources from the targets through several hyperedges
            for s in e[0]:
                edges.append(((rng.choice(e[1]),), (s,)))
    iso = [x for x in labels if rng.random() < 0.15]
    return labels, edges, iso


def fresh(x):
    """an equal but freshly constructed label object (labels are values, not objects)"""
    if isinstance(x, bool):
        return x
    if isinstance(x, int):
        return int(str(x))
    if isinstance(x, str):
        return ''.join(list(x))
    return x


def fresh_edge(e):
    return (tuple(fresh(x) for x in e[0]), tuple(fresh(x) for x in e[1]))


def canon(e):
    return (tuple(sorted(e[0])), tuple(sorted(e[1])))


def oracle_tables(E, m):
    """the three reciprocities straight from the property's words, as exact fractions"""
    B = [e for e in E if 2 <= len(e[0]) + len(e[1]) <= m]
    Bs = set(B)
    out = {}
    for name in ("exact", "strong", "weak"):
        tab = {}
        for k in range(2, m + 1):
            Ek = [e for e in B if len(e[0]) + len(e[1]) == k]
            c = 0
            for (S, T) in Ek:
                if name == "exact":
                    ok = (T, S) in Bs
                elif name == "strong":
                    ok = all(any(t in f[0] and s in f[1] for f in B for t in T) for s in S)
                else:
                    ok = any(j in f[0] and i in f[1] for f in B for i in S for j in T)
                c += ok
            tab[k] = Fraction(c, len(Ek)) if Ek else Fraction(0)
        out[name] = tab
    return out


def check_one(ctx, drv, labels, edges, iso, route="plain"):
    from hypergraphx import DirectedHypergraph
    from hypergraphx.measures.directed import (exact_reciprocity, strong_reciprocity, weak_reciprocity,
                                               hyperedge_signature_vector, in_degree, out_degree,
                                               in_degree_sequence, out_degree_sequence)
    case = {"labels": labels, "edges": edges, "isolated": iso, "route": route}
    h = DirectedHypergraph()
    for x in iso:
        h.add_node(x)
    # the instance is reached through one of several histories: every DirectedHypergraph a user can hold is in the
    # property's quantifier, not only freshly built ones
    seen_c, uniq = set(), []
    for e in edges:   # the generator may propose the same hyperedge twice (in another node order): removals use each once
        if canon(e) not in seen_c:
            seen_c.add(canon(e))
            uniq.append(e)
    try:
        if route == "plain" or len(uniq) < 2:
            for e in edges:
                h.add_edge(fresh_edge(e))
        elif route == "detour":
            # temporary hyperedges of another size inserted first and removed again (internal ids get gaps), the first
            # half removed and re-inserted after the rest (listing order changes, ids are not dense)
            temps = [e for e in [((labels[0],), (labels[1],)), ((labels[0],), tuple(labels[1:3]))]
                     if len(set(e[0]) | set(e[1])) == len(e[0]) + len(e[1]) and canon(e) not in {canon(f) for f in edges}]
            for t in temps:
                h.add_edge(t)
            half = uniq[: len(uniq) // 2]
            for e in half:
                h.add_edge(e)
            for t in temps:
                h.remove_edge(t)
            for e in edges:
                if canon(e) not in {canon(f) for f in half}:
                    h.add_edge(e)
            for e in half[:2]:
                h.remove_edge(fresh_edge(e))
            for e in half[:2]:
                h.add_edge(fresh_edge(e))
        elif route == "copy":
            # the instance is the ORIGINAL of a copy that was mutated afterwards (and must not notice)
            for e in edges:
                h.add_edge(e)
            c = h.copy()
            for e in uniq[:2]:
                c.remove_edge(e)
            c.add_edge(((labels[-1],), (labels[0],)))
            c.add_node("zz-copy-only")
        elif route == "copied":
            # the instance is a COPY whose original was mutated afterwards
            o = DirectedHypergraph()
            for x in iso:
                o.add_node(x)
            for e in edges:
                o.add_edge(e)
            h = o.copy()
            for e in uniq[:2]:
                o.remove_edge(e)
            o.add_edge(((labels[-1],), (labels[0],)))
    except Exception as ex:
        ctx.violation(case, f"building the hypergraph through the '{route}' history raised {type(ex).__name__}: {ex}")
        return
    E = [canon(e) for e in h.get_edges()]
    if sorted(E) != sorted({canon(e) for e in edges}):
        ctx.violation(case, f"after the '{route}' history get_edges() lists {sorted(E)}, expected the inserted hyperedges")
        return
    nodes = list(h.get_nodes())
    rank = {x: i for i, x in enumerate(sorted(set(labels)))}
    key = repr((sorted(E), sorted(nodes, key=repr)))
    lines = ["load " + hgxv.enc_lists([[rank[x] for x in e[0]] for e in E]) + " "
             + hgxv.enc_lists([[rank[x] for x in e[1]] for e in E]) + " " + hgxv.enc_list([rank[x] for x in nodes])]
    expect = ["ok"]
    nontrivial = False
    for m in range(2, 8):
        orc = oracle_tables(E, m)
        got = {"exact": exact_reciprocity(h, m), "strong": strong_reciprocity(h, m), "weak": weak_reciprocity(h, m)}
        for name in ("exact", "strong", "weak"):
            tab = got[name]
            if sorted(tab) != list(range(2, m + 1)):
                ctx.violation({**case, "m": m}, f"{name}_reciprocity keys {sorted(tab)} != sizes 2..{m}")
                continue
            for k in tab:
                v = tab[k]
                if not (0 <= v <= 1):
                    ctx.violation({**case, "m": m, "size": k}, f"{name}_reciprocity[{k}] = {v} outside [0,1]")
                if float(v) != float(orc[name][k]):
                    ctx.violation({**case, "m": m, "size": k},
                                  f"{name}_reciprocity[{k}] = {v}, definition gives {orc[name][k]}")
            lines.append(f"{name} {m}")
            # implementation answer rendered exactly when it is the rounded quotient of the oracle's fraction
            expect.append(("tab", name, m, tab))
        for k in range(2, m + 1):
            ex, st, wk = got["exact"].get(k, 0), got["strong"].get(k, 0), got["weak"].get(k, 0)
            if not (ex <= st <= wk):
                ctx.violation({**case, "m": m, "size": k}, f"exact <= strong <= weak fails at size {k}: {ex}, {st}, {wk}")
            if ex < st < wk:
                nontrivial = True
        sig = hyperedge_signature_vector(h, m)
        want = [0] * ((m - 1) * (m - 1))
        for (S, T) in E:
            if len(S) + len(T) <= m:
                want[(len(S) - 1) * (m - 1) + len(T) - 1] += 1
        if [int(x) for x in sig] != want or any(float(x) != int(x) for x in sig):
            ctx.violation({**case, "m": m}, f"signature {list(sig)} != per-shape counts {want}")
        if int(sum(sig)) != sum(1 for e in E if len(e[0]) + len(e[1]) <= m):
            ctx.violation({**case, "m": m}, "signature cells do not sum to the number of hyperedges within the bound")
        lines.append(f"sig {m}")
        expect.append(("plain", hgxv.enc_list([int(x) for x in sig])))
    # every filter value on its own: size=k and order=k-1 must both mean "total size k" (order=0 included)
    filters = [(None, {})] + [(k, {"size": k}) for k in range(1, 8)] + [(k + 1, {"order": k}) for k in range(0, 7)]
    for size, kw in filters:
        for which, seqf, onef, side in (("indeg", in_degree_sequence, in_degree, 0), ("outdeg", out_degree_sequence, out_degree, 1)):
            try:
                seq = seqf(h, **kw)
                ones = {x: onef(h, fresh(x), **kw) for x in nodes}
            except Exception as ex:  # the property says these calls return counts
                ctx.violation({**case, "filter": kw}, f"{which} with filter {kw} raised {type(ex).__name__}: {ex}")
                continue
            if sorted(seq, key=repr) != sorted(nodes, key=repr) or len(seq) != len(nodes):
                ctx.violation({**case, "filter": kw}, f"{which} sequence does not list every node once")
            for x in nodes:
                d = sum(1 for e in E if x in e[side] and (size is None or len(e[0]) + len(e[1]) == size))
                if seq.get(x) != d or ones[x] != d:
                    ctx.violation({**case, "filter": kw, "node": x},
                                  f"{which}({x!r}, {kw}) = {seq.get(x)} / {ones[x]}, definition gives {d}")
            lines.append(f"{which} {-1 if size is None else size}")
            expect.append(("plain", ",".join(f"{rank[x]}:{seq.get(x)}" for x in nodes) if nodes else "-"))
    ctx.case(key, nontrivial, sample=case)
    if drv is None:
        return
    ans = drv.batch(lines)
    for ln, a, ex in zip(lines, ans, expect):
        if ex == "ok":
            ok = a == "ok"
        elif ex[0] == "plain":
            ok = a == ex[1]
        else:
            _, name, m, tab = ex
            mt = {}
            if a != "-":
                for item in a.split(","):
                    k, v = item.split(":")
                    mt[int(k)] = hgxv.dec_num(v)
            ok = sorted(mt) == sorted(tab) and all(float(Fraction(mt[k])) == float(tab[k]) for k in tab)
        if not ok:
            ctx.disagree({**case, "line": ln}, f"model answers {a!r} to {ln!r}, implementation gives {ex!r}")


def run(ctx):
    drv = ctx.driver() if ctx.model_available else None
    n = ctx.scale(150, 3000)
    for _ in range(n):
        labels, edges, iso = gen(ctx.rng)
        check_one(ctx, drv, labels, edges, iso, ctx.rng.choice(["plain", "plain", "detour", "detour", "copy", "copied"]))
        if ctx.too_many() or (ctx.time_left() is not None and ctx.time_left() < 5):
            break


def replay(ctx, case):
    drv = ctx.driver() if ctx.model_available else None
    labels = case["labels"]
    edges = [(tuple(e[0]), tuple(e[1])) for e in case["edges"]]
    check_one(ctx, drv, labels, edges, case.get("isolated", []), case.get("route", "plain"))
