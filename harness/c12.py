"""C12 - directed measures: correspondence of lean/Hgxv/Model/C12.lean (+ C12Hist.lean: the full container model run
through the same history) with hypergraphx.measures.directed.* and independent property oracles on the implementation."""
from fractions import Fraction

import hgxv

RULE = ("random DirectedHypergraph instances (3-9 nodes, 1-12 proposed hyperedges with disjoint non-empty sides, total size "
        "2-6, reverse hyperedges, partial reversals, NEAR-MISS reversals (one label replaced, preferably by a label with the "
        "same hash) and multi-hyperedge reachability injected) over nine label universes (small ints with 0, unshared "
        "ints, strings with '', strings / ints whose concatenations coincide, signed ints, ints equal mod 2**61-1, floats "
        "mixed with ints of equal hash, tuples); every "
        "hundredth instance with 20-36 nodes and 40-90 proposed hyperedges; every instance is reached through a HISTORY of public calls that is also run by the Lean container model: plain "
        "insertion, detours with removed temporary hyperedges and re-insertions, the original of a mutated copy, the copy "
        "of a mutated original, and random scripts (constructor with edge list, weighted / unweighted, clear, REJECTED "
        "calls - wrong weight, absent hyperedge / node, partly failing batches - followed by the retry, remove_node with "
        "both keep_edges values where shrunk hyperedges coincide with stored ones, copies mid-way); after every call the "
        "listings are compared with a reference object and the degrees with the definition, at marked points and at the "
        "end (for half of the instances once more after one hyperedge was replaced by its reverse in place) every bound m in 2..7 (end) or one bound (mid-way), every node, size filters none/1..7 and the order "
        "filters 0..6; extension round: the routines run loop by loop by the model (tot / edge_set / node_reach / bin_edges / rec, "
        "2-d signature accumulation, default bound), the degree calls under 8 option combinations (order, size, both = refused, "
        "none; unknown nodes), degree sums against side sizes (handshake), weighted cells and anti-diagonals of the signature, and "
        "the reversed hypergraph built by the library (degrees exchanged, signature transposed, exact / weak unchanged); "
        "round f (size / magnitude): before the small instances three LARGE ones per quick run (15 in thorough, every third up to "
        "200 000 hyperedges), determined by a sub-seed - a star whose hub is in more than 2**16 hyperedges of one shape (70 000 "
        "nodes when the shape is (1,1)), a hypergraph of 4-7 shapes with a hub on the opposite side in more than 2**16 hyperedges, a "
        "directed graph with more than 2**16 arcs on 300-620 nodes plus other shapes; the counts of the other shapes / of the hub's "
        "other degree are drawn from 127..129, 255..257, 2047..2049, 32767..32769, 65535..65537; the main shape GROWS through "
        "these counts (constructor / add_edges / add_edge, node order inside a side arbitrary, fresh label objects, four label "
        "universes, a quarter weighted with weights up to 2**31) with signature (default, largest, random bound) and hub "
        "degrees checked at every stage, then 200 present hyperedges re-added in another node order, the full check "
        "(listings, both degree sequences under 5-9 filters + single calls, handshake sums, the three reciprocity tables for "
        "2-3 bounds incl. a bound of 64 / 257 / 300, [0,1], order, exact float quotient, signature cells / sum / weighted sum) "
        "against numpy references on node ranks, and for about half of them removal back down through 65536 and 65535 and a copy; "
        "the Lean model is not run at that size, every fourth small instance cross-checks the numpy reference against the plain "
        "oracle; a case is distinct by its final canonical hyperedge list and node list (large: by its sub-seed); non-trivial when exact, "
        "strong and weak reciprocity are pairwise different for some size")
ASSUMPTIONS = ["hyperedges have disjoint non-empty source and target sets (the property's quantifier)",
               "labels of one hypergraph are mutually comparable and pairwise unequal (1 / 1.0 / True never together, no "
               "nan, no -0.0 next to 0); they are mapped to their rank in sorted order before they reach the model",
               "weights are multiples of 1/4 (the container model counts quanta)"]
TRUSTED = ["float division c/t of two ints is the correctly rounded quotient (compared with float(Fraction(c, t)))"]

P61 = (1 << 61) - 1
WRONG_W = [2, 0.5, 2.5, 0, 3, -1]          # rejected by a hypergraph that is not weighted
GOOD_W = [None, 1, 2, 0.5, 3, 1.5, 1.0]
ROUTES = ["plain", "detour", "copy", "copied", "script", "script", "script", "script"]


# ---------------------------------------------------------------------------------------------------------------
# labels

def universe(rng):
    r = rng.random()
    if r < 0.08:
        return "str", [chr(97 + i) * k for i in range(20) for k in (1, 2)] + ["E1", "N0", ""]
    if r < 0.18:     # labels whose concatenations through a usual separator coincide: keys built from text
        c = rng.choice("___,,-- :|/;.")
        return "strkeys", ["", "a", c, "a" + c, c + "a", c + c, "aa", "a" + c + "a", c + "a" + c, "a" + c + c]
    if r < 0.25:
        return "concat", [1, 2, 11, 12, 21, 22, 111, 112, 121, 122, 211, 212]
    if r < 0.33:
        return "small", list(range(0, 40))
    if r < 0.42:
        return "sparse", [x * 1009 + 300 for x in range(40)]    # ints CPython does not share: equality is not identity
    if r < 0.60:
        return "signed", list(range(-9, 10))                     # hash(-1) == hash(-2)
    if r < 0.78:                                                 # hash(x + k * (2**61 - 1)) == hash(x)
        return "modp", [b + j * P61 for b in (0, 1, 2, 3) for j in (0, 1, 2)] + \
                       [-(b + j * P61) for b in (1, 2, 3) for j in (0, 1, 2)]
    if r < 0.9:                                                  # hash(0.5) == hash(2**60), hash(1.5) == hash(2**60 + 1)
        return "float", [0.5, 1.5, -0.5, 2.25, -3.75, 7.0, -8.0, 1e300, -1e300, 2.0 ** 70, 1 << 60, (1 << 60) + 1,
                         -(1 << 60), 3, 4, -1, -2, 10, 1e-5, 6.5]
    return "tuple", [(a, b) for a in (-2, -1, 0, 1) for b in (-2, -1, 5)]   # tuple hashes depend on item hashes only


def twins(x, among):
    return [y for y in among if y != x and hash(y) == hash(x)]


def text_twins(j, i, labels):
    """pairs (a, b) != (j, i) of labels that read like (j, i) when joined by some character occurring in the labels"""
    seps = {""} | {ch for x in labels if isinstance(x, str) for ch in x}
    return [(a, b) for a in labels for b in labels if a != b and (a, b) != (j, i)
            and any(str(a) + c + str(b) == str(j) + c + str(i) for c in seps)]


def pick(rng, kind, pool, n):
    """n labels; in the universes with (deterministic) hash collisions colliding labels tend to come together"""
    cand = list(pool)
    rng.shuffle(cand)
    if kind in ("str", "strkeys"):   # string hashes change from process to process: no use of them in the generator
        return cand[:n]
    out = []
    for x in cand:
        if len(out) >= n:
            break
        if x in out:
            continue
        out.append(x)
        for y in twins(x, pool):
            if y not in out and len(out) < n and rng.random() < 0.7:
                out.append(y)
    return out


def other(rng, kind, x, labels, avoid):
    """another label than x outside `avoid` - a hash twin when there is one"""
    free = [y for y in labels if y != x and y not in avoid]
    tw = twins(x, free) if kind not in ("str", "strkeys") else []
    if tw and rng.random() < 0.8:
        return rng.choice(tw)
    return rng.choice(free) if free else None


def gen(rng, big=False):
    kind, pool = universe(rng)
    n = rng.randint(3, 9) if kind != "strkeys" else rng.randint(6, 9)
    if big:                      # size is a dimension: a few instances with many nodes and hyperedges
        n = max(n, min(len(pool) - 4, rng.randint(20, 36)))
    chosen = pick(rng, kind, pool, min(len(pool), n + 4))
    labels, extra = sorted(chosen[:n]), chosen[n:]
    n = len(labels)
    edges = []
    for _ in range(rng.randint(1, 12) if not big else rng.randint(40, 90)):
        size = min(n, rng.choice([2, 2, 2, 3, 3, 4, 5, 6]))
        nodes = rng.sample(labels, size)
        k = rng.randint(1, size - 1)
        e = (tuple(nodes[:k]), tuple(nodes[k:]))
        edges.append(e)
        r = rng.random()
        if r < 0.22:
            edges.append((e[1], e[0]))
        elif r < 0.42:
            # partial reversal: one target -> one source (+ maybe a third node)
            t, s = rng.choice(e[1]), rng.choice(e[0])
            more = [x for x in labels if x not in (t, s)]
            tgt = (s,) + ((rng.choice(more),) if more and rng.random() < 0.4 else ())
            edges.append(((t,), tgt))
        elif r < 0.52 and len(e[1]) >= 1:
            # reach all sources from the targets through several hyperedges
            for s in e[0]:
                edges.append(((rng.choice(e[1]),), (s,)))
        elif r < 0.72:
            # near miss: the reverse (of the hyperedge or of one pair) with ONE label replaced by another label
            tw = text_twins(rng.choice(e[1]), rng.choice(e[0]), labels) if kind in ("strkeys", "concat") else []
            if tw and rng.random() < 0.6:
                a, b = rng.choice(tw)          # ... or a pair that READS like the reversed pair
                edges.append(((a,), (b,)))
                continue
            if rng.random() < 0.5:
                S, T = list(e[1]), list(e[0])
            else:
                S, T = [rng.choice(e[1])], [rng.choice(e[0])]
            side = S if rng.random() < 0.5 else T
            i = rng.randrange(len(side))
            y = other(rng, kind, side[i], labels, S + T)
            if y is not None:
                side[i] = y
                edges.append((tuple(S), tuple(T)))
    iso = [x for x in labels if rng.random() < 0.15]
    return kind, labels, extra, edges, iso


def fresh(x):
    """an equal but freshly constructed label object (labels are values, not objects)"""
    if isinstance(x, bool):
        return x
    if isinstance(x, int):
        return int(str(x))
    if isinstance(x, float):
        return float(repr(x))
    if isinstance(x, str):
        return ''.join(list(x))
    if isinstance(x, tuple):
        return tuple(fresh(y) for y in x)
    return x


def thaw(x):
    """labels of a stored case: JSON turned tuples into lists"""
    return tuple(thaw(y) for y in x) if isinstance(x, (list, tuple)) else x


def canon(e):
    return (tuple(sorted(e[0])), tuple(sorted(e[1])))


def esize(e):
    return len(e[0]) + len(e[1])


# ---------------------------------------------------------------------------------------------------------------
# the property's words

def oracle_tables(E, m):
    """the three reciprocities straight from the property's words, as exact fractions"""
    B = [e for e in E if 2 <= esize(e) <= m]
    out = {}
    for name in ("exact", "strong", "weak"):
        tab = {}
        for k in range(2, m + 1):
            Ek = [e for e in B if esize(e) == k]
            c = 0
            for (S, T) in Ek:
                if name == "exact":
                    ok = any(f[0] == T and f[1] == S for f in B)
                elif name == "strong":
                    ok = all(any(any(t == a for a in f[0]) and any(s == b for b in f[1]) for f in B for t in T) for s in S)
                else:
                    ok = any(any(j == a for a in f[0]) and any(i == b for b in f[1]) for f in B for i in S for j in T)
                c += ok
            tab[k] = Fraction(c, len(Ek)) if Ek else Fraction(0)
        out[name] = tab
    return out


def has(x, side):
    return any(x == y for y in side)     # equality only: no hashing in the oracles


def degree_def(E, x, side, size):
    return sum(1 for e in E if has(x, e[side]) and (size is None or esize(e) == size))


# ---------------------------------------------------------------------------------------------------------------
# reference object: what a history of public calls leaves behind (lists and equality only)

class Ref:
    def __init__(self, weighted):
        self.weighted, self.nodes, self.edges, self.w = weighted, [], [], []

    def copy(self):
        r = Ref(self.weighted)
        r.nodes, r.edges, r.w = list(self.nodes), list(self.edges), list(self.w)
        return r

    def add_node(self, x):
        if not has(x, self.nodes):
            self.nodes.append(x)

    def add_edge(self, e, w):
        if not self.weighted and w is not None and w != 1:
            return False
        k = canon(e)
        if k in self.edges:
            if self.weighted:
                self.w[self.edges.index(k)] += 1 if w is None else w
        else:
            self.edges.append(k)
            self.w.append((1 if w is None else w) if self.weighted else 1)
            for x in k[0] + k[1]:
                self.add_node(x)
        return True

    def remove_edge(self, e):
        k = canon(e)
        if k not in self.edges:
            return False
        i = self.edges.index(k)
        del self.edges[i], self.w[i]
        return True

    def remove_node(self, x, keep):
        if not has(x, self.nodes):
            return False
        inc = [k for k in self.edges if has(x, k[0])] + [k for k in self.edges if has(x, k[1])]
        if keep:
            for k in inc:
                s, t = tuple(y for y in k[0] if y != x), tuple(y for y in k[1] if y != x)
                if s and t:
                    self.add_edge((s, t), self.w[self.edges.index(k)])
        for k in inc:
            self.remove_edge(k)
        self.nodes = [y for y in self.nodes if y != x]
        return True

    def apply(self, op):
        kind, a = op[1], op[2:]
        if kind == "node":
            self.add_node(a[0])
        elif kind == "nodes":
            for x in a[0]:
                self.add_node(x)
        elif kind == "add":
            return self.add_edge((a[0], a[1]), a[2])
        elif kind == "adds":
            if a[1] is not None and len(a[1]) != len(a[0]):
                return False
            for i, e in enumerate(a[0]):
                if not self.add_edge(e, a[1][i] if a[1] else None):
                    return False
        elif kind == "rm":
            return self.remove_edge((a[0], a[1]))
        elif kind == "rms":
            return all(self.remove_edge(e) for e in a[0])        # stops at the first absent one
        elif kind == "rmnode":
            return self.remove_node(a[0], a[1])
        elif kind == "rmnodes":
            return all(self.remove_node(x, a[1]) for x in a[0])
        elif kind == "setw":
            if not self.weighted and a[2] != 1:
                return False
            k = canon((a[0], a[1]))
            if k not in self.edges:
                return False
            self.w[self.edges.index(k)] = a[2]
        elif kind == "clear":
            self.nodes, self.edges, self.w = [], [], []
        return True


# ---------------------------------------------------------------------------------------------------------------
# histories

def pairs(es):
    return [[list(e[0]), list(e[1])] for e in es]


def legacy_script(route, labels, extra, edges, iso):
    """the four fixed histories of the first rounds, as operation lists; returns (ops, slot of the instance)"""
    seen, uniq = set(), []
    for e in edges:   # the generator may propose the same hyperedge twice (in another node order): removals use each once
        if canon(e) not in seen:
            seen.add(canon(e))
            uniq.append(e)
    ops = [[0, "new", None, None]] + [[0, "node", x] for x in iso]
    add = lambda s, e: ops.append([s, "add", list(e[0]), list(e[1]), None])
    rm = lambda s, e: ops.append([s, "rm", list(e[0]), list(e[1])])
    if route == "plain" or len(uniq) < 2:
        for e in edges:
            add(0, e)
        return ops, 0
    if route == "detour":
        # temporary hyperedges of another size inserted first and removed again (internal ids get gaps), the first
        # half removed and re-inserted after the rest (listing order changes, ids are not dense)
        temps = [e for e in [((labels[0],), (labels[1],)), ((labels[0],), tuple(labels[1:3]))]
                 if len(set(e[0]) | set(e[1])) == esize(e) and canon(e) not in seen]
        half = uniq[: len(uniq) // 2]
        for t in temps:
            add(0, t)
        for e in half:
            add(0, e)
        for t in temps:
            rm(0, t)
        for e in edges:
            if canon(e) not in {canon(f) for f in half}:
                add(0, e)
        for e in half[:2]:
            rm(0, e)
        for e in half[:2]:
            add(0, e)
        return ops, 0
    for e in edges:
        add(0, e)
    ops.append(["copy", 0, 1])
    # "copy": the instance is the ORIGINAL (slot 0) of a copy that is mutated afterwards;
    # "copied": the instance is the COPY (slot 1) whose original is mutated afterwards
    other_slot, mine = (1, 0) if route == "copy" else (0, 1)
    for e in uniq[:2]:
        rm(other_slot, e)
    add(other_slot, ((labels[-1],), (labels[0],)))
    if extra:
        ops.append([other_slot, "node", extra[-1]])
    return ops, mine


def gen_script(rng, labels, extra, edges, iso, weighted):
    """a random history whose successful calls insert the proposed hyperedges - directly, or as a larger hyperedge
    through a temporary node that remove_node(keep_edges=True) takes out again (so that shrunk hyperedges coincide
    with stored ones) - interleaved with calls that must be rejected and their retries, removals, copies"""
    temps, absent = extra[:2], extra[2:] or extra[:1] or [labels[0]]
    ops, s, used = [], 0, []
    goodw = lambda: rng.choice(GOOD_W) if weighted else rng.choice([None, None, None, 1, 1.0])

    def add(e, w="good"):
        ops.append([s, "add", list(e[0]), list(e[1]), goodw() if w == "good" else w])

    def rm(e):
        ops.append([s, "rm", list(e[0]), list(e[1])])

    rest = list(edges)
    if rng.random() < 0.25:
        k = rng.randint(1, len(edges))
        ws = [rng.choice(GOOD_W[1:]) for _ in range(k)] if weighted and rng.random() < 0.7 else None
        ops.append([0, "new", pairs(edges[:k]), ws])
        rest = edges[k:]
    else:
        ops.append([0, "new", None, None])
    if iso:
        if rng.random() < 0.5:
            ops.append([0, "nodes", list(iso)])
        else:
            ops.extend([0, "node", x] for x in iso)
    if rng.random() < 0.1 and len(labels) >= 3:
        add((tuple(labels[:2]), (labels[2],)))
        ops.append([0, "clear"])
    for e in rest:
        r = rng.random()
        if r < 0.4:
            add(e)
        elif r < 0.62 and temps and esize(e) <= 5:
            z = rng.choice(temps)
            big = (e[0] + (z,), e[1]) if rng.random() < 0.5 else (e[0], e[1] + (z,))
            q = rng.random()
            if q < 0.3:
                add(e), add(big)
            elif q < 0.6:
                add(big), add(e)
            else:
                add(big)
            if z not in used:
                used.append(z)
        elif r < 0.8:
            if not weighted and rng.random() < 0.7:
                add(e, rng.choice(WRONG_W))                      # rejected: wrong weight
            else:
                rm(e)                                            # rejected when absent
            if rng.random() < 0.3:
                ops.append([s, "obs", rng.randint(2, 7), rng.choice([None, 2, 3])])
            if rng.random() < 0.8:
                add(e)                                           # the retry
        elif r < 0.9:
            add(e), rm(e)
            if rng.random() < 0.6:
                add(e)
        else:
            add(e)
            ops.append([s, "setw", list(e[0]), list(e[1]), rng.choice(GOOD_W[1:] if weighted else WRONG_W + [1])])
        q = rng.random()
        if q < 0.05:
            ops.append([s, "rmnode", rng.choice(absent), rng.random() < 0.5])
        elif q < 0.10:
            ops.append([s, "probe", rng.choice(absent + labels)])
        elif q < 0.15:
            a, b = rng.choice(edges), rng.choice(edges)
            ops.append([s, "rms", pairs([a, ((absent[0],), (labels[0],)), b])])
        elif q < 0.19:
            ops.append([s, "adds", pairs([rng.choice(edges), e]),
                        [rng.choice(GOOD_W[1:]) for _ in range(rng.choice([1, 2, 2]))] if weighted else None])
        elif q < 0.25:
            ops.append([s, "obs", rng.randint(2, 7), rng.choice([None, 2, 3, 4])])
        elif q < 0.29:
            ops.append(["copy", s, s + 1])
            stay = rng.random() < 0.5          # go on with the original, the copy is mutated - or the other way round
            scrap = s + 1 if stay else s
            ops.append([scrap, "rmnode", rng.choice(labels), rng.random() < 0.5])
            ops.append([scrap, "add", [labels[-1]], [labels[0]], None])
            s = s if stay else s + 1
        elif q < 0.32:
            ops.append([s, "rmnodes", [rng.choice(labels), rng.choice(absent), rng.choice(labels)], rng.random() < 0.5])
    rng.shuffle(used)
    for z in used:
        if rng.random() < 0.9:
            ops.append([s, "rmnode", z, rng.random() < 0.75])
    if rng.random() < 0.35:
        ops.append([s, "rmnode", rng.choice(labels), rng.random() < 0.6])
    return ops, s


def thaw_op(op):
    op = list(op)
    k = op[1] if op[0] != "copy" else "copy"
    E = lambda e: [[thaw(x) for x in e[0]], [thaw(x) for x in e[1]]]
    if k in ("node", "probe"):
        op[2] = thaw(op[2])
    elif k == "nodes":
        op[2] = [thaw(x) for x in op[2]]
    elif k in ("add", "rm", "setw"):
        op[2], op[3] = E((op[2], op[3]))
    elif k in ("adds", "rms", "new"):
        op[2] = None if op[2] is None else [E(e) for e in op[2]]
    elif k == "rmnode":
        op[2] = thaw(op[2])
    elif k == "rmnodes":
        op[2] = [thaw(x) for x in op[2]]
    return op


def quanta(w):
    if w is None:
        return "N"
    q = Fraction(w) * 4
    assert q.denominator == 1
    return str(q.numerator)


def model_line(op, rank):
    """the same call for the Lean container model"""
    R = lambda xs: hgxv.enc_list([rank[x] for x in xs])
    RS = lambda es, i: hgxv.enc_lists([[rank[x] for x in e[i]] for e in es])
    if op[0] == "copy":
        return f"hcopy {op[1]} {op[2]}"
    s, k, a = op[0], op[1], op[2:]
    if k == "new":
        return f"hnew {s} {int(a[2])} " + ("N N" if a[0] is None else f"{RS(a[0], 0)} {RS(a[0], 1)}") + " " + \
            ("N" if a[1] is None else ",".join(quanta(w) for w in a[1]) or "-")
    if k == "node":
        return f"hnode {s} {rank[a[0]]}"
    if k == "nodes":
        return f"hnodes {s} {R(a[0])}"
    if k == "add":
        return f"hadd {s} {R(a[0])} {R(a[1])} {quanta(a[2])}"
    if k == "adds":
        return f"hadds {s} {RS(a[0], 0)} {RS(a[0], 1)} " + ("N" if a[1] is None else ",".join(quanta(w) for w in a[1]) or "-")
    if k == "rm":
        return f"hrm {s} {R(a[0])} {R(a[1])}"
    if k == "rms":
        return f"hrms {s} {RS(a[0], 0)} {RS(a[0], 1)}"
    if k == "rmnode":
        return f"hrmnode {s} {rank[a[0]]} {int(bool(a[1]))}"
    if k == "rmnodes":
        return f"hrmnodes {s} {R(a[0])} {int(bool(a[1]))}"
    if k == "setw":
        return f"hsetw {s} {R(a[0])} {R(a[1])} {quanta(a[2])}"
    if k == "clear":
        return f"hclear {s}"
    return None


def impl_call(H, op, weighted):
    """the call on the implementation, every label a fresh object; True = returned, False = raised"""
    from hypergraphx import DirectedHypergraph
    from hypergraphx.measures.directed import in_degree, out_degree, in_degree_sequence
    F = lambda xs: tuple(fresh(x) for x in xs)
    FE = lambda e: (F(e[0]), F(e[1]))
    try:
        if op[0] == "copy":
            H[op[2]] = H[op[1]].copy()
            return True
        s, k, a = op[0], op[1], op[2:]
        if k == "new":
            if a[0] is None:
                H[s] = DirectedHypergraph(weighted=weighted)
            else:
                H[s] = DirectedHypergraph(edge_list=[FE(e) for e in a[0]], weighted=weighted,
                                          weights=None if a[1] is None else list(a[1]))
            return True
        h = H[s]
        if k == "node":
            h.add_node(fresh(a[0]))
        elif k == "nodes":
            h.add_nodes([fresh(x) for x in a[0]])
        elif k == "add":
            if a[2] is None:
                h.add_edge(FE(a))
            else:
                h.add_edge(FE(a), weight=a[2])
        elif k == "adds":
            h.add_edges([FE(e) for e in a[0]], weights=None if a[1] is None else list(a[1]))
        elif k == "rm":
            h.remove_edge(FE(a))
        elif k == "rms":
            h.remove_edges([FE(e) for e in a[0]])
        elif k == "rmnode":
            h.remove_node(fresh(a[0]), keep_edges=bool(a[1]))
        elif k == "rmnodes":
            h.remove_nodes([fresh(x) for x in a[0]], keep_edges=bool(a[1]))
        elif k == "setw":
            h.set_weight(FE(a), a[2])
        elif k == "clear":
            h.clear()
        elif k == "probe":
            # queries that may be refused (node not there, order and size together): whatever they answer,
            # the hypergraph stays what it was
            for q in (lambda: in_degree(h, fresh(a[0])), lambda: out_degree(h, fresh(a[0]), size=2),
                      lambda: h.get_source_edges(fresh(a[0]), order=1, size=2),
                      lambda: h.get_target_edges(fresh(a[0])), lambda: in_degree_sequence(h, order=1, size=2)):
                try:
                    q()
                except Exception:
                    pass
        return True
    except Exception:
        return False


def state_check(h, ref):
    """after a call: listings = those of the reference object, unfiltered degrees = the definition; None = fine"""
    from hypergraphx.measures.directed import in_degree_sequence, out_degree_sequence
    try:
        E = [canon(e) for e in h.get_edges()]
        nodes = list(h.get_nodes())
        if sorted(E, key=repr) != sorted(ref.edges, key=repr) or len(E) != len(ref.edges):
            return f"get_edges() lists {E}, the calls made so far leave {ref.edges}"
        if sorted(nodes, key=repr) != sorted(ref.nodes, key=repr):
            return f"get_nodes() lists {nodes}, the calls made so far leave {ref.nodes}"
        for which, seqf, side in (("in", in_degree_sequence, 0), ("out", out_degree_sequence, 1)):
            seq = seqf(h)
            for x in nodes:
                if seq.get(x) != degree_def(E, x, side, None) or len(seq) != len(nodes):
                    return (f"{which}_degree_sequence gives {seq.get(x)} for node {x!r}, get_edges() has "
                            f"{degree_def(E, x, side, None)} hyperedges with it on that side")
    except Exception as ex:
        return f"the listings / degree sequences raised {type(ex).__name__}: {ex}"
    return None


# ---------------------------------------------------------------------------------------------------------------
# observation of one object: the property's oracles + the lines for the model

def show_seq(seq, nodes, rank):
    return ",".join(f"{rank[x]}:{seq.get(x)}" for x in nodes) if nodes else "-"


def observe(ctx, case, h, ref, slot, rank, lines, expect, bounds, filters, full):
    """returns (E, nodes, nontrivial) or None when the object is unusable"""
    from hypergraphx.measures.directed import (exact_reciprocity, strong_reciprocity, weak_reciprocity,
                                               hyperedge_signature_vector, in_degree, out_degree,
                                               in_degree_sequence, out_degree_sequence)
    try:
        raw, raw_nodes = h.get_edges(), h.get_nodes()
        E = [canon(e) for e in raw]
        nodes = list(raw_nodes)
    except Exception as ex:
        ctx.violation(case, f"get_edges() / get_nodes() raised {type(ex).__name__}: {ex}")
        return None
    bad = state_check(h, ref)
    if bad:
        ctx.violation(case, bad)
        return None
    if any(x not in rank for e in E for x in e[0] + e[1]) or any(x not in rank for x in nodes):
        ctx.violation(case, f"labels that were never inserted are listed: {E} / {nodes}")
        return None
    lines.append(f"hload {slot}")
    expect.append(("plain", hgxv.enc_lists([[rank[x] for x in e[0]] for e in E]) + " "
                   + hgxv.enc_lists([[rank[x] for x in e[1]] for e in E]) + " " + hgxv.enc_list([rank[x] for x in nodes])))
    nontrivial = False
    again = []
    for m in bounds:
        orc = oracle_tables(E, m)
        got = {}
        for name, f in (("exact", exact_reciprocity), ("strong", strong_reciprocity), ("weak", weak_reciprocity)):
            try:
                got[name] = f(h, m)
            except Exception as ex:
                ctx.violation({**case, "m": m}, f"{name}_reciprocity raised {type(ex).__name__}: {ex}")
                got[name] = {}
        for name in ("exact", "strong", "weak"):
            tab = got[name]
            if sorted(tab) != list(range(2, m + 1)):
                ctx.violation({**case, "m": m}, f"{name}_reciprocity keys {sorted(tab)} != sizes 2..{m}")
                continue
            for k in tab:
                v = tab[k]
                if not (0 <= v <= 1):
                    ctx.violation({**case, "m": m, "size": k}, f"{name}_reciprocity[{k}] = {v} outside [0,1]")
                if float(v) != float(orc[name][k]):
                    ctx.violation({**case, "m": m, "size": k},
                                  f"{name}_reciprocity[{k}] = {v}, definition gives {orc[name][k]}")
            lines.append(f"{name} {m}")
            # implementation answer rendered exactly when it is the rounded quotient of the oracle's fraction
            expect.append(("tab", name, m, dict(tab)))
            lines.append(f"l{name} {m}")      # the same routine run loop by loop (Model/C12Ext.lean)
            expect.append(("tab", name, m, dict(tab)))
            again.append((lambda name=name, m=m, f={"exact": exact_reciprocity, "strong": strong_reciprocity,
                                                    "weak": weak_reciprocity}[name]: f(h, m), dict(tab), tab))
        if all(sorted(got[name]) == list(range(2, m + 1)) for name in ("exact", "strong", "weak")):
            # the integer tables behind the ratios: tot[k], rec[k] = ratio * tot[k]; exact pairs up e and its reverse
            nk = {k: sum(1 for e in E if esize(e) == k) for k in range(2, m + 1)}
            recs, exactly = {}, True
            for name in ("exact", "strong", "weak"):
                recs[name] = [0, 0]
                for k in range(2, m + 1):
                    try:
                        c = got[name][k] * nk[k]
                        exactly = exactly and abs(c - round(c)) < 1e-6
                        recs[name].append(int(round(c)))
                    except Exception:
                        exactly = False
                        recs[name].append(0)
            if exactly:
                lines.append(f"ltabs {m}")
                expect.append(("plain", hgxv.enc_lists([[0, 0] + [nk[k] for k in range(2, m + 1)], recs["exact"],
                                                        recs["strong"], recs["weak"]])))
                for k in range(2, m + 1):
                    if recs["exact"][k] % 2:
                        ctx.violation({**case, "m": m, "size": k},
                                      f"exact_reciprocity[{k}] = {got['exact'][k]}: {recs['exact'][k]} of {nk[k]} hyperedges "
                                      f"have their reverse present - they come in pairs, the number must be even")
        for k in range(2, m + 1):
            ex, st, wk = got["exact"].get(k, 0), got["strong"].get(k, 0), got["weak"].get(k, 0)
            if not (ex <= st <= wk):
                ctx.violation({**case, "m": m, "size": k}, f"exact <= strong <= weak fails at size {k}: {ex}, {st}, {wk}")
            if ex < st < wk:
                nontrivial = True
        sigs = [(m, (m,))]
        if full and E and m == max(esize(e) for e in E):
            sigs.append((m, ()))               # the documented default bound: the largest size
        for mm, args in sigs:
            try:
                sig = hyperedge_signature_vector(h, *args)
            except Exception as ex:
                ctx.violation({**case, "m": mm}, f"hyperedge_signature_vector{args} raised {type(ex).__name__}: {ex}")
                continue
            want = [0] * ((mm - 1) * (mm - 1))
            for (S, T) in E:
                if len(S) + len(T) <= mm:
                    want[(len(S) - 1) * (mm - 1) + len(T) - 1] += 1
            if len(sig) != len(want) or [int(x) for x in sig] != want or any(float(x) != int(x) for x in sig):
                ctx.violation({**case, "m": mm, "default_bound": not args}, f"signature {list(sig)} != per-shape counts {want}")
            if int(sum(sig)) != sum(1 for e in E if esize(e) <= mm):
                ctx.violation({**case, "m": mm}, "signature cells do not sum to the number of hyperedges within the bound")
            if len(sig) == len(want):
                ext_signature(ctx, {**case, "m": mm}, h, E, sig, mm, lines, expect, bool(args))
            if args:
                lines.append(f"sig {mm}")
                expect.append(("plain", hgxv.enc_list([int(x) for x in sig])))
                again.append((lambda mm=mm: [int(x) for x in hyperedge_signature_vector(h, mm)], [int(x) for x in sig], sig))
    degsum = {}
    # every filter value on its own: size=k and order=k-1 must both mean "total size k" (order=0 included)
    for size, kw in filters:
        for which, seqf, onef, side in (("indeg", in_degree_sequence, in_degree, 0), ("outdeg", out_degree_sequence, out_degree, 1)):
            try:
                seq = seqf(h, **kw)
                ones = {x: onef(h, fresh(x), **kw) for x in nodes}
            except Exception as ex:  # the property says these calls return counts
                ctx.violation({**case, "filter": kw}, f"{which} with filter {kw} raised {type(ex).__name__}: {ex}")
                continue
            if sorted(seq, key=repr) != sorted(nodes, key=repr) or len(seq) != len(nodes):
                ctx.violation({**case, "filter": kw}, f"{which} sequence does not list every node once")
            for x in nodes:
                d = degree_def(E, x, side, size)
                if seq.get(x) != d or ones[x] != d:
                    ctx.violation({**case, "filter": kw, "node": x},
                                  f"{which}({x!r}, {kw}) = {seq.get(x)} / {ones[x]}, definition gives {d}")
            lines.append(f"{which} {-1 if size is None else size}")
            expect.append(("plain", show_seq(seq, nodes, rank)))
            if "order" not in kw:
                try:
                    degsum[(side, size)] = sum(seq[x] for x in nodes)
                except Exception:
                    pass
            if not kw:
                again.append((lambda seqf=seqf: dict(seqf(h)), dict(seq), seq))
    # what is counted: the incident listings are the hyperedges of get_edges() with the node on that side
    for size, kw in filters[:3] if full else filters[:1]:
        for x in nodes:
            try:
                src = [canon(e) for e in h.get_source_edges(fresh(x), **kw)]
                tgt = [canon(e) for e in h.get_target_edges(fresh(x), **kw)]
                inc = [canon(e) for e in h.get_incident_edges(fresh(x), **kw)]
            except Exception as ex:
                ctx.violation({**case, "filter": kw, "node": x}, f"incident listings raised {type(ex).__name__}: {ex}")
                break
            ws = [e for e in E if has(x, e[0]) and (size is None or esize(e) == size)]
            wt = [e for e in E if has(x, e[1]) and (size is None or esize(e) == size)]
            if sorted(src, key=repr) != sorted(ws, key=repr) or sorted(tgt, key=repr) != sorted(wt, key=repr) \
                    or sorted(inc, key=repr) != sorted(ws + wt, key=repr):
                ctx.violation({**case, "filter": kw, "node": x},
                              f"hyperedges listed for node {x!r} ({src} / {tgt} / {inc}) are not those of get_edges() "
                              f"having it as a source / target ({ws} / {wt})")
                break
    ext_degrees(ctx, case, h, E, nodes, rank, lines, expect, degsum, full)
    if full and not E:
        try:
            sig = hyperedge_signature_vector(h)
            if len(sig) != 0:
                ctx.violation(case, f"hyperedge_signature_vector of a hypergraph without hyperedges = {list(sig)}")
            lines.append("sigdef")
            expect.append(("plain", hgxv.enc_list([int(x) for x in sig])))
        except Exception as ex:
            ctx.violation(case, f"hyperedge_signature_vector() raised {type(ex).__name__}: {ex}")
    if full and len(E) <= 40:
        ext_reverse(ctx, case, h, E, nodes, rank, lines, expect)     # LAST model lines of this object (`rev` changes it)
    # answers are values: spoil every returned object, ask again - same answers, same hypergraph
    for ask, val, obj in again:
        try:
            if isinstance(obj, dict):
                obj.clear()
                obj["spoilt"] = -1
            else:
                obj[...] = 99
        except Exception:
            pass
    try:
        raw.append("spoilt"), raw_nodes.append("spoilt")
    except Exception:
        pass
    for ask, val, obj in again[:: 1 if full else 2]:
        try:
            now = ask()
        except Exception as ex:
            now = f"{type(ex).__name__}: {ex}"
        if now != val:
            ctx.violation(case, f"the same query on the unchanged hypergraph answers {now} after {val}")
            break
    bad = state_check(h, ref)
    if bad:
        ctx.violation(case, "after the measures were evaluated: " + bad)
    return E, nodes, nontrivial


# ---------------------------------------------------------------------------------------------------------------
# extension round: the routines as the code runs them (Model/C12Ext.lean) and the identities between the measures

def ext_signature(ctx, case, h, E, sig, m, lines, expect, explicit):
    """flattened 2-d accumulation, default bound, row / column weighted sums and anti-diagonals of the vector"""
    cells = [int(x) for x in sig]
    w = m - 1
    lines.append(f"lsig {m}" if explicit else "sigdef")
    expect.append(("plain", hgxv.enc_list(cells)))
    if not explicit:
        return
    sw = sum((i // w + 1) * c for i, c in enumerate(cells))
    tw = sum((i % w + 1) * c for i, c in enumerate(cells))
    diag = [sum(cells[(a - 1) * w + (k - a - 1)] for a in range(1, k)) for k in range(2, m + 1)]
    lines.append(f"sigagg {m}")
    expect.append(("plain", hgxv.enc_list([sw, tw] + diag)))
    # consequences of the property's words: cells weighted by their source (target) size give the number of sources
    # (targets) of the hyperedges within the bound; the anti-diagonal a + b = k holds the hyperedges of size k
    inb = [e for e in E if esize(e) <= m]
    if sw != sum(len(e[0]) for e in inb) or tw != sum(len(e[1]) for e in inb):
        ctx.violation(case, f"signature {cells}: cells weighted by source / target size give {sw} / {tw}, the hyperedges "
                            f"within the bound have {sum(len(e[0]) for e in inb)} sources / {sum(len(e[1]) for e in inb)} targets")
    for k, d in zip(range(2, m + 1), diag):
        if d != sum(1 for e in E if esize(e) == k):
            ctx.violation({**case, "size": k}, f"signature {cells}: the cells of total size {k} sum to {d}, "
                                               f"{sum(1 for e in E if esize(e) == k)} hyperedges have that size")


def opt(v):
    return "N" if v is None else str(v)


def ext_degrees(ctx, case, h, E, nodes, rank, lines, expect, degsum, full):
    """handshake sums and the option handling of the four degree routines (order / size / both / unknown node)"""
    from hypergraphx.measures.directed import in_degree, out_degree, in_degree_sequence, out_degree_sequence
    for size in sorted({k for (_, k) in degsum}, key=lambda k: -1 if k is None else k):
        if (0, size) not in degsum or (1, size) not in degsum:
            continue
        sel = [e for e in E if size is None or esize(e) == size]
        ss, st = sum(len(e[0]) for e in sel), sum(len(e[1]) for e in sel)
        si, so = degsum[(0, size)], degsum[(1, size)]
        lines.append(f"sums {-1 if size is None else size}")
        expect.append(("plain", hgxv.enc_list([si, so, ss, st, ss + st])))
        if si != ss or so != st:
            ctx.violation({**case, "filter": {"size": size}},
                          f"in / out degrees sum to {si} / {so}, the selected hyperedges have {ss} sources / {st} targets")
    def call(f, *a, **kw):
        try:
            return f(*a, **kw)
        except Exception:
            return "rej"
    combos = [(0, None), (None, 1), (1, None), (None, 2), (1, 2), (0, 3), (2, 3), (None, None)]
    if not full:
        combos = [(1, 2), (2, None)]
    for o, k in combos:
        kw = {}
        if o is not None:
            kw["order"] = o
        if k is not None:
            kw["size"] = k
        both = o is not None and k is not None
        for which, seqf in (("seqin", in_degree_sequence), ("seqout", out_degree_sequence)):
            seq = call(seqf, h, **kw)
            if both and nodes and seq != "rej":
                ctx.violation({**case, "filter": kw}, f"{seqf.__name__} with order AND size returned {seq}, the call must be refused")
            if (not both or not nodes) and seq == "rej":
                ctx.violation({**case, "filter": kw}, f"{seqf.__name__}({kw}) raised")
            lines.append(f"{which} {opt(o)} {opt(k)}")
            expect.append(("plain", seq if seq == "rej" else show_seq(seq, nodes, rank)))
        for x in (nodes if len(nodes) <= 9 else nodes[:4] + nodes[-2:]) if full else nodes[:1]:
            for which, onef, side in (("callin", in_degree, 0), ("callout", out_degree, 1)):
                d = call(onef, h, fresh(x), **kw)
                want = "rej" if both else degree_def(E, x, side, k if k is not None else (o + 1 if o is not None else None))
                if d != want:
                    ctx.violation({**case, "filter": kw, "node": x}, f"{onef.__name__}({x!r}, {kw}) = {d}, expected {want}")
                lines.append(f"{which} {opt(o)} {opt(k)} {rank[x]}")
                expect.append(("plain", str(d)))
    absent = [x for x in rank if not has(x, nodes)][:2]
    for x in absent:
        for which, onef in (("callin", in_degree), ("callout", out_degree)):
            d = call(onef, h, fresh(x))
            if d != "rej":
                ctx.violation({**case, "node": x}, f"{onef.__name__} of the unknown node {x!r} returned {d}")
            lines.append(f"{which} N N {rank[x]}")
            expect.append(("plain", str(d)))


def ext_reverse(ctx, case, h, E, nodes, rank, lines, expect):
    """the hypergraph with every hyperedge reversed, built by the library: in and out degrees are exchanged, the
    signature is transposed, exact and weak reciprocity keep their values; the model follows with `rev`"""
    from hypergraphx import DirectedHypergraph
    from hypergraphx.measures.directed import (exact_reciprocity, strong_reciprocity, weak_reciprocity,
                                               hyperedge_signature_vector, in_degree_sequence, out_degree_sequence)
    m = max([esize(e) for e in E] + [2])
    try:
        hr = DirectedHypergraph()
        hr.add_nodes([fresh(x) for x in nodes])
        for (S, T) in E:
            hr.add_edge((tuple(fresh(x) for x in T), tuple(fresh(x) for x in S)))
        ER = [canon(e) for e in hr.get_edges()]
        NR = list(hr.get_nodes())
    except Exception as ex:
        ctx.violation(case, f"building the reversed hypergraph raised {type(ex).__name__}: {ex}")
        return
    if len(ER) != len(E) or any(not (has(r[0], [e[1]]) and has(r[1], [e[0]])) for r, e in zip(ER, E)) \
            or len(NR) != len(nodes) or any(not has(x, nodes) for x in NR):
        ctx.violation(case, f"the reversed hypergraph lists {ER} / {NR}")
        return
    lines.append("rev")
    expect.append(("plain", hgxv.enc_lists([[rank[x] for x in e[1]] for e in E]) + " "
                   + hgxv.enc_lists([[rank[x] for x in e[0]] for e in E])))
    try:
        tabs = {"exact": exact_reciprocity(hr, m), "strong": strong_reciprocity(hr, m), "weak": weak_reciprocity(hr, m)}
        here = {"exact": exact_reciprocity(h, m), "weak": weak_reciprocity(h, m)}
        sig, sig0 = hyperedge_signature_vector(hr, m), hyperedge_signature_vector(h, m)
        seqs = {(w, k): f(hr, **({} if k is None else {"size": k}))
                for w, f in (("indeg", in_degree_sequence), ("outdeg", out_degree_sequence)) for k in (None, m)}
        mine = {(w, k): f(h, **({} if k is None else {"size": k}))
                for w, f in (("outdeg", in_degree_sequence), ("indeg", out_degree_sequence)) for k in (None, m)}
    except Exception as ex:
        ctx.violation(case, f"a measure of the reversed hypergraph raised {type(ex).__name__}: {ex}")
        return
    for name in ("exact", "strong", "weak"):
        if sorted(tabs[name]) == list(range(2, m + 1)):
            for ln in (name, "l" + name):
                lines.append(f"{ln} {m}")
                expect.append(("tab", name, m, dict(tabs[name])))
        if name in here and dict(tabs[name]) != dict(here[name]):
            ctx.violation({**case, "m": m}, f"{name}_reciprocity of the reversed hypergraph {dict(tabs[name])} != {dict(here[name])}")
    w = m - 1
    if len(sig) == w * w == len(sig0):
        for ln in ("sig", "lsig"):
            lines.append(f"{ln} {m}")
            expect.append(("plain", hgxv.enc_list([int(x) for x in sig])))
        if any(int(sig[a * w + b]) != int(sig0[b * w + a]) for a in range(w) for b in range(w)):
            ctx.violation({**case, "m": m}, f"signature of the reversed hypergraph {list(sig)} is not the transpose of {list(sig0)}")
    for (wh, k), seq in seqs.items():
        if sorted(seq, key=repr) == sorted(nodes, key=repr) and len(seq) == len(nodes):
            lines.append(f"{wh} {-1 if k is None else k}")
            expect.append(("plain", show_seq(seq, nodes, rank)))
            if any(seq[x] != mine[(wh, k)].get(x) for x in nodes):
                ctx.violation({**case, "filter": {"size": k}}, f"{wh} sequence of the reversed hypergraph {seq} != the opposite "
                                                               f"sequence of the hypergraph {mine[(wh, k)]}")
        else:
            ctx.violation(case, f"{wh} sequence of the reversed hypergraph does not list every node once")


# ---------------------------------------------------------------------------------------------------------------
# round f: SIZE / MAGNITUDE as a dimension. A few large instances per run (one shape with more than 2**16 hyperedges, a hub
# whose degree passes 2**16, the other shapes / the hub's other degree with counts ON the boundaries of narrow number types),
# grown through the boundaries, judged by the property's own words with vectorised references on node ranks (numpy, int64 /
# Python ints only). The Lean model does not run at that size (its theorems are about every size).

COUNTS_AT = [127, 128, 129, 255, 256, 257, 2047, 2048, 2049, 32767, 32768, 32769, 65535, 65536, 65537]
#            int8           uint8          float16 (2**11)    int16                uint16
L_SHAPES = [(1, 1), (1, 2), (2, 1), (2, 2), (1, 3), (3, 1), (2, 3), (3, 2), (1, 4), (4, 1), (3, 3), (2, 4), (1, 5), (5, 1)]
L_WEIGHTS = [1, 2, 65536, 0.5, 2 ** 31, 70000, 0.25]


def L_labels(kind, n):
    if kind == "small":
        return list(range(n))
    if kind == "sparse":
        return [x * 1009 + 300 for x in range(n)]
    if kind == "signed":
        return [x - n // 2 for x in range(n)]
    return ["n%d" % x for x in range(n)]


def L_rows(nr, N, a, b, c, hub, hubside, seen):
    """up to c hyperedges of shape (a, b) on the ranks 0..N-1 that are not in `seen` (a set of row tuples, updated): an
    int64 array with a + b columns, each side sorted, all nodes of a row different; with a hub the hub rank is in every
    source (hubside 0) or target (hubside 1) set"""
    import numpy as np
    out, have = [], 0
    if hub is not None and a + b == 2 and c > N - 1:
        hub = None
    for _ in range(60):
        if have >= c:
            break
        k = int((c - have) * 1.25) + 32
        if hub is not None and a + b == 2:
            M = np.empty((min(k, N), 2), dtype=np.int64)
            M[:, hubside] = hub
            M[:, 1 - hubside] = nr.permutation(N)[: len(M)]
        else:
            M = nr.randint(0, N, size=(k, a + b)).astype(np.int64)
            if hub is not None:
                M[:, 0 if hubside == 0 else a] = hub
        M = M[(np.diff(np.sort(M, axis=1), axis=1) != 0).all(axis=1)]
        M = np.hstack([np.sort(M[:, :a], axis=1), np.sort(M[:, a:], axis=1)])
        for row in M.tolist():
            t = (a,) + tuple(row)
            if t not in seen and have < c:
                seen.add(t)
                out.append(row)
                have += 1
    return np.array(out, dtype=np.int64).reshape(len(out), a + b)


def L_plan(sub, family, huge, hubside=None, variant=None):
    """the large instance of sub-seed `sub`: labels, blocks of hyperedges (shape, rows, check points), hubs"""
    import random
    import numpy as np
    rng, nr = random.Random(sub), np.random.RandomState(sub % (2 ** 32))
    top = rng.choice([65537 + rng.randint(0, 2500), 70001 + rng.randint(0, 9000)])
    if huge:
        top = rng.choice([top, 131071 + rng.randint(0, 3), 140000 + rng.randint(0, 60000)])
    seen, blocks, hubs = set(), [], []
    grow = lambda c: [x for x in COUNTS_AT if x < c and rng.random() < 0.8] + [c]
    if family == "star":
        # one hub in more than 2**16 hyperedges of one shape; the hub's degree on the other side sits on a boundary
        extra_nodes = rng.randint(3, 60)
        hs = rng.randint(0, 1)
        hs = hs if hubside is None else hubside
        # (strong_reciprocity copies the set of nodes reached from a source for every hyperedge of that source: quadratic in
        # the number of DIFFERENT nodes a hub reaches - the hub of 2**16 arcs is their target, a hub that is a source reaches
        # its > 2**16 hyperedges' targets among a few hundred nodes)
        shape = rng.choice([(1, 1), (1, 1), (1, 2), (2, 1)]) if hs == 1 else rng.choice([(1, 2), (2, 1), (1, 3)])
        N = top + extra_nodes if shape == (1, 1) else max(rng.randint(520, 800), int((4.4 * top) ** 0.5) + 3)
        hub = rng.randrange(N)
        hubs.append(hub)
        main = L_rows(nr, N, shape[0], shape[1], top, hub, hs, seen)
        blocks.append([shape, main, grow(len(main)), "main"])
        back = rng.choice(COUNTS_AT[:6] if shape == (1, 1) else COUNTS_AT[:12])
        sh2 = (shape[1], shape[0])
        # reversed hyperedges of the main block first (exact reciprocity), the rest fresh
        take = main[nr.permutation(len(main))[: rng.randint(0, back)]]
        rev = np.hstack([take[:, shape[0]:], take[:, :shape[0]]])
        for row in rev.tolist():
            seen.add((sh2[0],) + tuple(row))
        fill = L_rows(nr, N, sh2[0], sh2[1], back - len(rev), hub, 1 - hs, seen)
        blocks.append([sh2, np.vstack([rev, fill]), [len(rev) + len(fill)], "back"])
        for _ in range(rng.randint(1, 3)):
            a, b = rng.choice(L_SHAPES[1:8])
            c = rng.choice(COUNTS_AT[:9])
            side = rng.randint(0, 1)
            blocks.append([(a, b), L_rows(nr, min(N, 3000), a, b, c, hub if rng.random() < 0.6 else None, side, seen), None, "side"])
    else:
        # several shapes; one holds more than 2**16 hyperedges, the others sit on boundaries; total kept moderate
        N = rng.randint(300, 620)
        shapes = rng.sample(L_SHAPES, rng.randint(3, 6))
        mainshape = rng.choice([(1, 1), (1, 2), (2, 1), (2, 2), (1, 3), shapes[0]])
        if variant == "hub":          # the hub of this instance is in more than 2**16 hyperedges, on the requested side
            mainshape = rng.choice([(1, 2), (2, 1), (2, 2), (1, 3), (3, 1)])
        elif variant == "pairs":      # a directed graph with more than 2**16 arcs
            mainshape = (1, 1)
        if mainshape in shapes:
            shapes.remove(mainshape)
        mainhub = (rng.random() < 0.35 or variant == "hub") and mainshape != (1, 1)
        mainside = rng.randint(0, 1)
        mainside = mainside if hubside is None or variant != "hub" else hubside
        if mainshape == (1, 1):
            N = max(N, int((2.2 * top) ** 0.5) + 2)
        elif mainhub and sum(mainshape) == 3:
            N = max(N, int((4.4 * top) ** 0.5) + 3)
        hub = rng.randrange(N)
        hubs.append(hub)
        budget = (36000 if variant != 'hub' and rng.random() < 0.5 else 6000) if not huge else 200000
        blocks.append([mainshape, L_rows(nr, N, mainshape[0], mainshape[1], top, hub if mainhub else None, mainside, seen),
                       None, "main"])
        blocks[0][2] = grow(len(blocks[0][1]))
        for (a, b) in shapes:
            c = rng.choice([x for x in COUNTS_AT if x <= max(budget, 300)] or COUNTS_AT[:3])
            if (a, b) == (1, 1):
                c = min(c, N * (N - 1) // 3)
            budget -= c
            rows = np.zeros((0, a + b), dtype=np.int64)
            src = [blk for blk in blocks if blk[0] == (b, a)]
            if src and rng.random() < 0.7:       # partly the reverses of the block of the transposed shape
                base = src[0][1]
                take = base[nr.permutation(len(base))[: rng.randint(0, min(c, len(base)))]]
                rows = np.hstack([take[:, b:], take[:, :b]])
                keep = [i for i, row in enumerate(rows.tolist()) if ((a,) + tuple(row)) not in seen]
                rows = rows[keep]
                for row in rows.tolist():
                    seen.add((a,) + tuple(row))
            fill = L_rows(nr, N, a, b, c - len(rows), hub if rng.random() < 0.3 else None, rng.randint(0, 1), seen)
            blocks.append([(a, b), np.vstack([rows, fill]), None, "side"])
    for blk in blocks:
        if blk[2] is None:
            blk[2] = [len(blk[1])]
        blk[2] = sorted({x for x in blk[2] if 0 < x <= len(blk[1])} | ({len(blk[1])} if len(blk[1]) else set()))
    blocks = [blk for blk in blocks if len(blk[1])]
    order = list(range(len(blocks)))
    if rng.random() < 0.5:
        rng.shuffle(order)
    blocks = [blocks[i] for i in order]
    kind = rng.choice(["small", "sparse", "signed", "str"])
    iso = rng.randint(0, 3)
    return rng, nr, kind, N + iso, [N + i for i in range(iso)], blocks, hubs


class LRef:
    """what the calls made so far leave behind: per shape (a, b) the list of row blocks (ranks)"""
    def __init__(self, N):
        self.N, self.parts, self.nodes = N, {}, set()

    def add(self, a, b, rows):
        self.parts.setdefault((a, b), []).append(rows)
        self.nodes.update(rows.ravel().tolist())

    def rows(self, a, b):
        import numpy as np
        ps = self.parts.get((a, b), [])
        if len(ps) > 1:
            self.parts[(a, b)] = ps = [np.vstack(ps)]
        return ps[0] if ps else np.zeros((0, a + b), dtype=np.int64)

    def drop_tail(self, a, b, k):
        self.parts[(a, b)] = [self.rows(a, b)[: -k]]

    def shapes(self):
        return {sh: self.rows(*sh) for sh in list(self.parts) if len(self.rows(*sh))}


def L_tables(shapes, N, m):
    """the three reciprocities of the property's words for the bound m, counted on rank arrays: {name: {k: (c, tot)}}.
    A pair (t, s) is 'present' when some hyperedge within the bound has t among its sources and s among its targets;
    strong: every source s of e has a target t of e with (t, s) present; weak: some such pair; exact: the row (T, S) of
    the transposed shape is a hyperedge within the bound."""
    import numpy as np
    B = {sh: R for sh, R in shapes.items() if 2 <= sh[0] + sh[1] <= m and len(R)}
    keys = [np.zeros(0, dtype=np.int64)]
    for (a, b), R in B.items():
        for i in range(a):
            for j in range(b):
                keys.append(R[:, i] * N + R[:, a + j])
    P = np.unique(np.concatenate(keys))
    cnt = {name: {k: [0, 0] for k in range(2, m + 1)} for name in ("exact", "strong", "weak")}
    for (a, b), R in B.items():
        S, T = R[:, :a], R[:, a:]
        hit = np.isin(T[:, :, None] * N + S[:, None, :], P)          # [row, j, i]: target j -> source i is present
        back = B.get((b, a))
        if back is None:
            ex = 0
        else:
            have = set(map(tuple, back.tolist()))
            ex = sum(1 for row in np.hstack([T, S]).tolist() if tuple(row) in have)
        for name, c in (("exact", ex), ("strong", int(hit.any(axis=1).all(axis=1).sum())), ("weak", int(hit.any(axis=(1, 2)).sum()))):
            cnt[name][a + b][0] += c
            cnt[name][a + b][1] += len(R)
    return cnt


def L_selftest(E, rank):
    """the vectorised reference used on the large instances agrees with the plain reading of the property's words"""
    shapes = L_arrays(E, rank)
    for m in (2, 3, 5, 7):
        cnt, orc = L_tables(shapes, len(rank), m), oracle_tables(E, m)
        for name in cnt:
            for k, (c, t) in cnt[name].items():
                if (Fraction(c, t) if t else 0) != orc[name][k]:
                    raise AssertionError(f"harness self-test: vectorised {name} reference {c}/{t} != {orc[name][k]} for size {k}, bound {m}, {E}")


def L_arrays(E, rank):
    """get_edges() output as rank arrays per shape"""
    import numpy as np
    acc = {}
    for e in E:
        s, t = sorted(rank[x] for x in e[0]), sorted(rank[x] for x in e[1])
        acc.setdefault((len(s), len(t)), []).append(s + t)
    return {sh: np.array(rows, dtype=np.int64) for sh, rows in acc.items()}


def L_same_rows(A, B):
    import numpy as np
    if A.shape != B.shape:
        return False
    if not len(A):
        return True
    return bool(np.array_equal(A[np.lexsort(A.T[::-1])], B[np.lexsort(B.T[::-1])]))


def L_light(ctx, case, h, ref, labels, hubs, rng):
    """signature (explicit bounds and the default bound) and the hubs' degrees against the counts of the calls made"""
    from hypergraphx.measures.directed import hyperedge_signature_vector, in_degree, out_degree
    import numpy as np
    shapes = ref.shapes()
    if not shapes:
        return
    n_by = {sh: len(R) for sh, R in shapes.items()}
    mmax = max(a + b for (a, b) in n_by)
    try:
        nE = len(h.get_edges())
    except Exception as ex:
        ctx.violation(case, f"get_edges() raised {type(ex).__name__}: {ex}")
        return
    if nE != sum(n_by.values()):
        ctx.violation(case, f"get_edges() lists {nE} hyperedges, the calls made so far leave {sum(n_by.values())}")
        return
    asks = [(), (mmax,), (rng.randint(2, 7),)]
    if nE > 20000:
        asks.pop(rng.randrange(3))
    for args in asks:
        mm = args[0] if args else mmax
        try:
            sig = hyperedge_signature_vector(h, *args)
            cells = [x for x in np.asarray(sig).tolist()]
        except Exception as ex:
            ctx.violation({**case, "m": mm}, f"hyperedge_signature_vector{args} raised {type(ex).__name__}: {ex}")
            continue
        want = [0] * ((mm - 1) * (mm - 1))
        for (a, b), c in n_by.items():
            if a + b <= mm:
                want[(a - 1) * (mm - 1) + b - 1] = c
        if len(cells) != len(want) or any(x != w for x, w in zip(cells, want)):
            bad = [((i // (mm - 1) + 1, i % (mm - 1) + 1), x, w) for i, (x, w) in enumerate(zip(cells, want)) if x != w][:3]
            ctx.violation({**case, "m": mm, "default_bound": not args},
                          f"signature with bound {mm}: (shape, cell, number of hyperedges of that shape) differ at {bad}"
                          if len(cells) == len(want) else f"signature with bound {mm} has {len(cells)} cells")
        elif sum(int(x) for x in cells) != sum(c for (a, b), c in n_by.items() if a + b <= mm):
            ctx.violation({**case, "m": mm}, "signature cells do not sum to the number of hyperedges within the bound")
    k = rng.choice(sorted({a + b for (a, b) in n_by}))
    for hub in hubs:
        if hub not in ref.nodes:
            continue
        for kw, size in (({}, None), ({"size": k}, k), ({"order": k - 1}, k)):
            for f, side in ((in_degree, 0), (out_degree, 1)):
                want = sum(int((R[:, :a] == hub).any(axis=1).sum()) if side == 0 else int((R[:, a:] == hub).any(axis=1).sum())
                           for (a, b), R in shapes.items() if size is None or a + b == size)
                try:
                    d = f(h, fresh(labels[hub]), **kw)
                except Exception as ex:
                    d = f"{type(ex).__name__}: {ex}"
                if isinstance(d, bool) or not isinstance(d, (int, np.integer)) or int(d) != want or d != want:
                    ctx.violation({**case, "node": labels[hub], "filter": kw},
                                  f"{f.__name__}({labels[hub]!r}, {kw}) = {d!r}, the node is a {'source' if side == 0 else 'target'} "
                                  f"of {want} such hyperedges")


L_FILTERS = [(None, {}), (1, {"size": 1}), (2, {"size": 2}), (3, {"size": 3}), (2, {"order": 1}), (1, {"order": 0})]


def L_full(ctx, case, h, ref, labels, rank, hubs, rng):
    """everything the property says, on the large object; returns non-triviality"""
    from hypergraphx.measures.directed import (exact_reciprocity, strong_reciprocity, weak_reciprocity, in_degree, out_degree,
                                               in_degree_sequence, out_degree_sequence, hyperedge_signature_vector)
    import numpy as np
    N = ref.N
    shapes = ref.shapes()
    try:
        E, nodes = h.get_edges(), list(h.get_nodes())
        got = L_arrays(E, rank)
    except Exception as ex:
        ctx.violation(case, f"get_edges() / get_nodes() unusable: {type(ex).__name__}: {ex}")
        return False
    if sorted(got) != sorted(shapes) or any(not L_same_rows(got[sh], shapes[sh]) for sh in shapes):
        ctx.violation(case, "get_edges() does not list the hyperedges the calls made so far leave (shape -> number listed: "
                            f"{ {sh: len(R) for sh, R in got.items()} }, expected { {sh: len(R) for sh, R in shapes.items()} })")
        return False
    if len(nodes) != len(ref.nodes) or {rank.get(x) for x in nodes} != ref.nodes:
        ctx.violation(case, f"get_nodes() lists {len(nodes)} nodes, the calls made so far leave {len(ref.nodes)}")
        return False
    sizes = sorted({a + b for (a, b) in shapes})
    mmax = sizes[-1] if sizes else 2
    # degrees: definition = occurrences of the node on that side among the hyperedges passing the filter
    occ = {}
    for (a, b), R in shapes.items():
        for side, part in ((0, R[:, :a]), (1, R[:, a:])):
            v = np.bincount(part.ravel(), minlength=N)
            occ[(side, a + b)] = occ.get((side, a + b), 0) + v
    filt = L_FILTERS + [(mmax, {"size": mmax}), (mmax, {"order": mmax - 1}), (7, {"size": 7})]
    if len(nodes) > 5000 or len(E) > 30000:          # every node is asked: keep the number of passes moderate
        big = max(shapes, key=lambda sh: len(shapes[sh]))
        filt = [L_FILTERS[0], (sum(big), {"size": sum(big)}), (sum(big), {"order": sum(big) - 1}), rng.choice(L_FILTERS[1:]),
                rng.choice(filt[6:])]
    probe = list(dict.fromkeys([x for x in hubs if x in ref.nodes] + [rank[x] for x in rng.sample(nodes, min(len(nodes), 25))]))
    for size, kw in filt:
        for which, seqf, onef, side in (("in", in_degree_sequence, in_degree, 0), ("out", out_degree_sequence, out_degree, 1)):
            want = sum(occ[(s, k)] for (s, k) in occ if s == side and (size is None or k == size)) + np.zeros(N, dtype=np.int64)
            try:
                seq = seqf(h, **kw)
                ones = {x: onef(h, fresh(labels[x]), **kw) for x in probe}
            except Exception as ex:
                ctx.violation({**case, "filter": kw}, f"{which}_degree with filter {kw} raised {type(ex).__name__}: {ex}")
                continue
            if len(seq) != len(nodes) or any(x not in seq for x in nodes):
                ctx.violation({**case, "filter": kw}, f"{which}_degree_sequence does not list every node once")
                continue
            bad = [x for x in nodes if seq[x] != int(want[rank[x]])][:1] + [labels[x] for x in probe if ones[x] != int(want[x])][:1]
            if bad:
                x = bad[0]
                ctx.violation({**case, "filter": kw, "node": x},
                              f"{which}_degree({x!r}, {kw}) = {seq.get(x)} / {ones.get(rank[x], seq.get(x))}, the node is on that side of "
                              f"{int(want[rank[x]])} hyperedges passing the filter")
            tot = sum(len(R) * (sh[side]) for sh, R in shapes.items() if size is None or sh[0] + sh[1] == size)
            try:
                if sum(seq.values()) != tot:
                    ctx.violation({**case, "filter": kw}, f"{which}-degrees sum to {sum(seq.values())}, the hyperedges passing the "
                                                          f"filter have {tot} nodes on that side")
            except Exception as ex:
                ctx.violation({**case, "filter": kw}, f"{which}_degree_sequence values unusable: {type(ex).__name__}: {ex}")
    # reciprocities
    nontrivial = False
    # bounds: the largest size, one below / far below it, and a bound far beyond every size (a table of some hundred sizes)
    far = rng.choice([64, 257, 300])
    bounds = list(dict.fromkeys([mmax, 2, max(2, mmax - 1), 7, rng.randint(2, 7)]))
    bounds = ([mmax, rng.choice(bounds[1:])] if len(E) > 30000 else bounds) + [far]
    for m in bounds:
        cnt = L_tables(shapes, N, m)
        got = {}
        within = sum(len(R) for sh, R in shapes.items() if sh[0] + sh[1] <= m)
        for name, f in (("exact", exact_reciprocity), ("strong", strong_reciprocity), ("weak", weak_reciprocity)):
            if name == "strong" and m != bounds[0] and within > 30000:
                continue            # the slowest routine: on the large object once, with the largest bound
            try:
                tab = f(h, m)
                if sorted(tab) != list(range(2, m + 1)):
                    ctx.violation({**case, "m": m}, f"{name}_reciprocity keys {sorted(tab)} != sizes 2..{m}")
                    continue
            except Exception as ex:
                ctx.violation({**case, "m": m}, f"{name}_reciprocity raised {type(ex).__name__}: {ex}")
                continue
            got[name] = tab
            for k in range(2, m + 1):
                c, t = cnt[name][k]
                v = tab[k]
                if not (0 <= v <= 1):
                    ctx.violation({**case, "m": m, "size": k}, f"{name}_reciprocity[{k}] = {v} outside [0,1]")
                elif float(v) != (float(Fraction(c, t)) if t else 0.0):
                    ctx.violation({**case, "m": m, "size": k},
                                  f"{name}_reciprocity[{k}] = {v}, by definition {c} of the {t} hyperedges of that size: {Fraction(c, t) if t else 0}")
        if len(got) == 3:
            for k in range(2, m + 1):
                ex, st, wk = got["exact"][k], got["strong"][k], got["weak"][k]
                if not (ex <= st <= wk):
                    ctx.violation({**case, "m": m, "size": k}, f"exact <= strong <= weak fails at size {k}: {ex}, {st}, {wk}")
                if ex < st < wk:
                    nontrivial = True
    # the signature once more with all cell identities
    for mm in dict.fromkeys([mmax, 7, 2, far]):
        try:
            sig = hyperedge_signature_vector(h, mm)
            cells = np.asarray(sig).tolist()
        except Exception as ex:
            ctx.violation({**case, "m": mm}, f"hyperedge_signature_vector({mm}) raised {type(ex).__name__}: {ex}")
            continue
        w = mm - 1
        inb = {sh: len(R) for sh, R in shapes.items() if sh[0] + sh[1] <= mm}
        if len(cells) != w * w:
            ctx.violation({**case, "m": mm}, f"signature with bound {mm} has {len(cells)} cells")
            continue
        if any(cells[(a - 1) * w + b - 1] != inb.get((a, b), 0) or cells[(a - 1) * w + b - 1] != int(cells[(a - 1) * w + b - 1])
               for a in range(1, mm) for b in range(1, mm)):
            ctx.violation({**case, "m": mm}, f"signature with bound {mm} = {cells if mm < 9 else [(i, c) for i, c in enumerate(cells) if c]}"
                                             f", hyperedges per shape {inb}")
        if sum(int(x) for x in cells) != sum(inb.values()):
            ctx.violation({**case, "m": mm}, "signature cells do not sum to the number of hyperedges within the bound")
        if sum((i // w + 1) * int(c) for i, c in enumerate(cells)) != sum(a * c for (a, b), c in inb.items()):
            ctx.violation({**case, "m": mm}, "signature cells weighted by source size do not give the number of sources")
    return nontrivial


def L_insert(h_box, how, rows, a, labels, weighted, rng):
    """insert the hyperedges through public calls, every label a fresh object, the nodes of a side in any order"""
    from hypergraphx import DirectedHypergraph
    def edge(row):
        s, t = [fresh(labels[x]) for x in row[:a]], [fresh(labels[x]) for x in row[a:]]
        if len(s) > 1 and rng.random() < 0.5:
            s.reverse()
        if len(t) > 1 and rng.random() < 0.5:
            t.reverse()
        return (tuple(s), tuple(t)) if rng.random() < 0.9 else (list(s), list(t))
    es = [edge(r) for r in rows.tolist()]
    ws = [rng.choice(L_WEIGHTS) for _ in es] if weighted else None
    if h_box[0] is None:
        if how == "ctor":
            h_box[0] = DirectedHypergraph(edge_list=[(tuple(e[0]), tuple(e[1])) for e in es], weighted=weighted, weights=ws)
            return
        h_box[0] = DirectedHypergraph(weighted=weighted)
    h = h_box[0]
    if how == "add":
        for i, e in enumerate(es):
            if weighted:
                h.add_edge((tuple(e[0]), tuple(e[1])), weight=ws[i])
            else:
                h.add_edge((tuple(e[0]), tuple(e[1])))
    else:
        h.add_edges([(tuple(e[0]), tuple(e[1])) for e in es], weights=ws)


def large_one(ctx, spec):
    """one large instance; spec = {"family", "sub", "huge"} determines it completely"""
    import time as _t
    t0 = _t.time()
    family, sub, huge = spec["family"], int(spec["sub"]), bool(spec.get("huge"))
    rng, nr, kind, N, iso, blocks, hubs = L_plan(sub, family, huge, spec.get("hubside"), spec.get("variant"))
    labels = L_labels(kind, N)
    rank = {x: i for i, x in enumerate(labels)}
    weighted = rng.random() < 0.25
    case = {"large": spec, "universe": kind, "nodes": N, "weighted": weighted,
            "blocks": [[list(sh), len(rows), cuts, tag] for sh, rows, cuts, tag in blocks],
            "hubs": [labels[x] for x in hubs]}
    ref, box = LRef(N), [None]
    before = len(ctx.violations)
    nontrivial = False
    try:
        first = True
        for bi, (sh, rows, cuts, tag) in enumerate(blocks):
            prev = 0
            for cut in cuts:
                how = rng.choice(["ctor", "adds", "add"]) if first else rng.choice(["adds", "add", "adds"])
                L_insert(box, how, rows[prev:cut], sh[0], labels, weighted, rng)
                ref.add(sh[0], sh[1], rows[prev:cut])
                if first:
                    for x in iso:
                        box[0].add_node(fresh(labels[x]))
                        ref.nodes.add(x)
                first = False
                prev = cut
                L_light(ctx, {**case, "stage": [bi, cut]}, box[0], ref, labels, hubs, rng)
                if len(ctx.violations) > before:
                    return
        h = box[0]
        # hyperedges that are there already, written in another node order, added once more: nothing changes (not weighted)
        if not weighted:
            sh, rows = rng.choice([(blk[0], blk[1]) for blk in blocks])
            again = rows[nr.permutation(len(rows))[:200]]
            for r in again.tolist():
                s, t = [fresh(labels[x]) for x in r[:sh[0]]][::-1], [fresh(labels[x]) for x in r[sh[0]:]][::-1]
                h.add_edge((tuple(s), tuple(t)))
        nontrivial = L_full(ctx, {**case, "stage": "end"}, h, ref, labels, rank, hubs, rng)
        if len(ctx.violations) > before:
            return
        # back down through the boundary: the newest hyperedges of the main block removed again
        sh, rows, cuts, tag = [blk for blk in blocks if blk[3] == "main"][0]
        now = len(ref.rows(*sh))
        down = [c for c in (65536, 65535) if now - c <= (1300 if tag == 'main' and hubs else 2600) and c < now]
        if down and ref.rows(*sh)[-1].tolist() == rows[-1].tolist():
            for c in down:
                k = len(ref.rows(*sh)) - c
                tail = ref.rows(*sh)[-k:]
                es = [(tuple(fresh(labels[x]) for x in r[:sh[0]]), tuple(fresh(labels[x]) for x in r[sh[0]:])) for r in tail.tolist()]
                if rng.random() < 0.5:
                    h.remove_edges(es)
                else:
                    for e in es:
                        h.remove_edge(e)
                ref.drop_tail(sh[0], sh[1], k)
                L_light(ctx, {**case, "stage": ["down", c]}, h, ref, labels, hubs, rng)
                if len(ctx.violations) > before:
                    return
            if huge or rng.random() < 0.5:
                h2 = h.copy()
                L_light(ctx, {**case, "stage": "copy"}, h2, ref, labels, hubs, rng)
                nontrivial = L_full(ctx, {**case, "stage": "down-end"}, h2 if rng.random() < 0.5 else h, ref, labels, rank, hubs, rng) or nontrivial
    except Exception as ex:
        import traceback
        tb = traceback.extract_tb(ex.__traceback__)[-1]
        ctx.violation(case, f"a call on the large hypergraph raised {type(ex).__name__}: {ex} ({tb.filename.split('/')[-1]}:{tb.lineno})")
        return
    finally:
        ctx.count("large.seconds", round(_t.time() - t0, 1))
    ctx.case(repr(("large", family, sub, huge, spec.get("hubside"), spec.get("variant"))), nontrivial, sample=case)
    ctx.count("large." + family + ("." + spec["variant"] if spec.get("variant") else ""))
    ctx.count("large.hyperedges", sum(len(b[1]) for b in blocks))


def large_stream(ctx):
    # every run: a hub that is a SOURCE of more than 2**16 hyperedges, a hub that is a TARGET of as many (one of them in a
    # star, the other in a hypergraph of several shapes), and a directed graph with more than 2**16 arcs
    k = ctx.scale(3, 15)
    side = ctx.rng.randint(0, 1)
    kinds = [("star", None, side), ("mixed", "hub", 1 - side), ("mixed", "pairs", None)]
    ctx.rng.shuffle(kinds)
    kinds += [("star", None, None), ("mixed", None, None)]
    for i in range(k):
        if ctx.time_left() is not None and ctx.time_left() < ctx.scale(45, 120):
            ctx.count("large.skipped")
            break
        fam, variant, hs = kinds[i % len(kinds)]
        spec = {"family": fam, "variant": variant, "hubside": hs, "sub": ctx.rng.getrandbits(31),
                "huge": ctx.tier == "thorough" and i % 3 == 2}
        large_one(ctx, spec)
        if ctx.too_many():
            break


def ref_step(R, op, weighted):
    """one call on the reference objects; True = accepted"""
    if op[0] == "copy":
        R[op[2]] = R[op[1]].copy()
        return True
    if op[1] == "new":
        R[op[0]] = Ref(weighted)
        return R[op[0]].apply([op[0], "adds", op[2], op[3]]) if op[2] is not None else True
    return R[op[0]].apply(op)


def with_swap(rng, ops, slot, weighted):
    """after the full observation: replace one hyperedge IN PLACE so that the numbers of nodes and hyperedges (and the
    sizes) stay what they were, and ask the SAME object again - answers depend on the current content only"""
    R = {}
    for op in ops:
        if op[0] == "copy" or op[1] not in ("obs", "probe", "full"):
            ref_step(R, op, weighted)
    E = R[slot].edges
    cand = [e for e in E if (e[1], e[0]) not in E]
    tail = [[slot, "full"]]
    if cand:
        S, T = rng.choice(cand)
        tail += [[slot, "rm", list(S), list(T)], [slot, "add", list(T), list(S), None],
                 [slot, "obs", list(range(2, 8)), len(S) + len(T)]]
    return ops + tail


ALL_FILTERS = [(None, {})] + [(k, {"size": k}) for k in range(1, 8)] + [(k + 1, {"order": k}) for k in range(0, 7)]


def check_one(ctx, drv, kind, labels, extra, edges, iso, route="plain", weighted=False, ops=None, slot=0):
    case = {"universe": kind, "labels": labels, "extra": extra, "edges": edges, "isolated": iso, "route": route,
            "weighted": weighted, "ops": ops, "slot": slot}
    everything = list(labels) + [x for x in extra if x not in labels]
    try:
        rank = {x: i for i, x in enumerate(sorted(everything))}
    except TypeError:
        rank = {x: i for i, x in enumerate(everything)}
    if len(rank) != len(everything):
        return          # equal labels written differently: outside the assumptions
    H, R = {}, {}
    lines, expect = ["hreset"], ["ok"]
    seen_before = len(ctx.violations)
    failed = lambda: len(ctx.violations) > seen_before
    def full():
        res = observe(ctx, case, H[slot], R[slot], slot, rank, lines, expect, range(2, 8), ALL_FILTERS, True)
        if res is not None:
            E, nodes, nontrivial = res
            if E and ctx.evaluations % 4 == 0:
                L_selftest(E, rank)
            ctx.case(repr((sorted(E, key=repr), sorted(nodes, key=repr))), nontrivial, sample=case)
            ctx.count("route." + route)
            ctx.count("universe." + kind)
            ctx.count("weighted" if weighted else "unweighted")
            ctx.count("calls", len(ops))
            ctx.count("hyperedges.%s" % ("0" if not E else "1-9" if len(E) < 10 else "10-29" if len(E) < 30 else "30+"))

    done_full = False
    for i, op in enumerate(ops):
        where = {**case, "failing_call": i, "call": op}
        if op[0] != "copy" and op[1] == "full":
            full()
            done_full = True
            if failed():
                break
            continue
        if op[0] != "copy" and op[1] == "obs":
            if op[0] in H:
                observe(ctx, where, H[op[0]], R[op[0]], op[0], rank, lines, expect,
                        op[2] if isinstance(op[2], list) else [op[2]],
                        [(None, {})] + ([(op[3], {"size": op[3]}), (op[3], {"order": op[3] - 1})] if op[3] else []), False)
            if failed():
                break
            continue
        did = impl_call(H, op, weighted)
        want = ref_step(R, op, weighted)
        ml = model_line(op if op[0] == "copy" or op[1] != "new" else op[:4] + [weighted], rank)
        if ml is not None:
            lines.append(ml)
            expect.append("ok" if did else "rej")
        if did != want:
            ctx.violation(where, f"call {i} {op} " + ("raised, it is a valid call" if want else
                                                       "returned, it must be refused (and leave the hypergraph as it was)"))
            break
        for s in sorted(H):
            bad = state_check(H[s], R[s])
            if bad:
                ctx.violation(where, f"after call {i} {op}" + (f" (object {s})" if len(H) > 1 else "") + ": " + bad)
                break
        if failed():
            break
    else:
        if not done_full:
            full()
    if drv is None:
        return
    ans = drv.batch(lines)
    for ln, a, ex in zip(lines, ans, expect):
        if isinstance(ex, str):
            ok = a == ex
        elif ex[0] == "plain":
            ok = a == ex[1]
        else:
            _, name, m, tab = ex
            mt = {}
            try:
                if a != "-":
                    for item in a.split(","):
                        k, v = item.split(":")
                        mt[int(k)] = hgxv.dec_num(v)
                ok = sorted(mt) == sorted(tab) and all(float(Fraction(mt[k])) == float(tab[k]) for k in tab)
            except (ValueError, TypeError):
                ok = False
        if not ok:
            ctx.disagree({**case, "line": ln}, f"model answers {a!r} to {ln!r}, implementation gives {ex!r}")
            break


def run(ctx):
    drv = ctx.driver() if ctx.model_available else None
    large_stream(ctx)
    if ctx.too_many():
        return
    n = ctx.scale(300, 10000)
    for it in range(n):
        kind, labels, extra, edges, iso = gen(ctx.rng, big=it % 100 == 7)
        route = ctx.rng.choice(ROUTES)
        weighted = ctx.rng.random() < 0.3
        if route == "script":
            ops, slot = gen_script(ctx.rng, labels, extra, edges, iso, weighted)
        else:
            ops, slot = legacy_script(route, labels, extra, edges, iso)
        if ctx.rng.random() < 0.5:
            ops = with_swap(ctx.rng, ops, slot, weighted)
        check_one(ctx, drv, kind, labels, extra, edges, iso, route, weighted, ops, slot)
        if ctx.too_many() or (ctx.time_left() is not None and ctx.time_left() < 5):
            break


def replay(ctx, case):
    if case.get("large"):
        large_one(ctx, case["large"])
        return
    drv = ctx.driver() if ctx.model_available else None
    labels = [thaw(x) for x in case["labels"]]
    extra = [thaw(x) for x in case.get("extra", [])]
    edges = [(tuple(thaw(x) for x in e[0]), tuple(thaw(x) for x in e[1])) for e in case["edges"]]
    iso = [thaw(x) for x in case.get("isolated", [])]
    route = case.get("route", "plain")
    if case.get("ops"):
        ops, slot = [thaw_op(op) for op in case["ops"]], case.get("slot", 0)
    else:
        ops, slot = legacy_script(route if route != "script" else "plain", labels, extra, edges, iso)
    check_one(ctx, drv, case.get("universe", "small"), labels, extra, edges, iso, route, bool(case.get("weighted")), ops, slot)
