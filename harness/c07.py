"""C07 - hash_hypergraph is a canonical fingerprint.

Correspondence of lean/Hgxv/Model/C07.lean (tables, table-level operations incl. the batched calls, the constructor
with lists and the attribute-level setters, expose?/preimage?/canon/content) with
hypergraphx.readwrite.hashing.hash_hypergraph and the four container classes, and of lean/Hgxv/Model/C07Heap.lean
(metadata as objects that refer to each other: values / serialize results per object) with the real object graph of
the metadata slots, plus the property's own oracle on the implementation: equal observed content <=> equal hash -
whatever objects the metadata slots share -, hashing is pure and keeps nothing between calls."""
import contextlib
import copy
import hashlib
import io
import json
import math
import random
import signal
import struct
import warnings
import zlib

import hgxv

RULE = ("per case: a container class (H/D/T/M), int or string node labels, weighted or not, a target content (2-7 nodes with "
        "JSON metadata, 0-6 hyperedges with int/float weights k/4 and metadata, hypergraph metadata; 30% sparse: mostly empty "
        "metadata, isolated nodes) and 4 construction histories ending in it: one plain (single calls), one through the "
        "batched calls (add_nodes / add_edges with or WITHOUT metadata arguments, split and empty batches, remove_edges, "
        "remove_nodes) or the constructor with lists (node_metadata, edge_list + time_list / edge_layer or embedded, weights, "
        "edge_metadata or none), the metadata that was not passed completed by the attribute-level setters (set_attr_to_*, "
        "remove_attr_from_*) or the whole-dictionary setters; two with permuted insertion and node-listing order, split weights, "
        "set-then-overwrite metadata, metadata built field by field (overwritten and removed attributes), hyperedges built by "
        "shrinking (remove_node keep_edges=True), insert-then-remove detours of extra hyperedges/nodes, remove-and-rebuild of "
        "real nodes (after marks on the node and its hyperedges), clear-and-rebuild, calls that are rejected, continuation on "
        "obj.copy() (the original must not change); COLLIDING shrinks (remove_node / remove_nodes keep_edges=True whose shrunken "
        "hyperedges meet an existing hyperedge or each other: weights add up, last record counts; the merged hyperedge is used "
        "further and a member of it removed and rebuilt); every setter called 1-3 times for ONE key (set_node_metadata, "
        "set_edge_metadata, set_hypergraph_metadata, set_attr_to_*, Multiplex set_layer_metadata / set_dataset_metadata, add_node, "
        "add_edge, set_weight, add_nodes, an entry listed twice in a batch) with earlier records that have fields the last lacks; "
        "in 65% of the cases the SAME 1-5 attribute-level edits (nodes, hyperedges, hypergraph; some rejected) are appended "
        "to all four histories; plus 4-6 single-element edits of the resulting content (node, hyperedge, weight value, 1 vs 1.0, "
        "time, layer, direction, weightedness (constructor flag; flag alone with equal hypergraph metadata, also switched on "
        "by add_edges(weights=[1..]) on an unweighted object), one node / hyperedge / hypergraph metadata atom incl. ints "
        "beyond 2**53, the order of a list inside a metadata value; a whole record replaced by another record that other slots "
        "hold already). Numbers of every magnitude as weights and metadata atoms (ints around 2**24 / 2**53 / 2**63 / 10**20 / "
        "2**1024, floats off the 1/4 grid, tiny, huge), weight edits go to the neighbouring integer / double. OBJECT IDENTITY: "
        "45% of the targets draw their metadata from a pool of 2-5 records built from 1-4 nested parts; every history and every "
        "edit hands its values over fresh (deep copies) or sharing (equal values = ONE dict / list object at every depth, with "
        "p = 100 / 70 / 40 %; mostly one fresh and one fully sharing history per case) - same content, same hash demanded; 25-60% "
        "of the cases run 1-2 histories again with dictionaries shared freely plus whole-entry / attribute edits (an edit through "
        "one holder shows in all), probed after EVERY call (hash moves iff the content the getters show moves) and compared "
        "with a twin built from fresh objects out of the observed content; 30% of the cases probe one ordinary history after "
        "every call; all objects of a case are hashed again at the end in another order. Every history must show "
        "(getters) the content its calls describe, all four the same content and the same hash. Fixed alias probes (8: class x "
        "weighted) and identity probes (8) run first. Distinct = kind + target content + histories; non-trivial = some history "
        "took a removal detour and the target has at least one hyperedge and one non-empty metadata. Before the cases (own "
        "PRNGs, not counted as cases): a zoo of JSON values (fixed + 400 / 6000 random: escapes, astral characters, keys that "
        "need sorting, ints of any size, quarter floats) written by json.dumps and - as metadata of a small object of each "
        "class - by hash_hypergraph, against the modelled writer; 60 / 1500 short histories with set_incidence_metadata / "
        "add_empty_edge calls inside (side tables as stored + hashed text against Model/C07Side.lean)")
ASSUMPTIONS = [
    "node labels are all ints or all strings (mutually comparable, JSON-representable); metadata are JSON values with "
    "string keys and no cycles; numbers are ints of any size and finite floats (-0.0, nan, inf never occur); the model "
    "holds floats on the 1/4 grid below 2**200 exactly and all other floats as injective codes - weights are only added up "
    "where Python's + is exact (ints among themselves, small numbers on the 1/4 grid)",
    "which metadata slots hold one and the same dictionary / list object is the caller's choice (the containers store by "
    "reference); in `share` presentations no dictionary that a later call edits in place is shared, in `free` ones nothing "
    "is expected of the content: it is read through the getters",
    "hyperedges are duplicate-free node tuples; directed hyperedges have disjoint non-empty sides",
    "labels/layers are mapped to their rank before they reach the model (the code uses them only through ==, hash, <)",
    "C07_differ / C07_hash_iff_content assume SHA-256 injective on the strings at hand (hypothesis of the theorems, not an "
    "axiom); injectivity of json.dumps(sort_keys=True) is a theorem about the modelled writer (`dumpsJ pyFmt`, "
    "C07_json_text_injective + C07_pyFmt_laws), whose text is compared with the text hash_hypergraph hands to SHA-256 at "
    "every full probe and on a zoo of JSON values (escapes, astral characters, keys to be sorted, ints of any size, quarter "
    "floats below 2**48); floats off that range reach the model as injective stand-ins and their text is not compared",
]
TRUSTED = [
    "hashlib.sha256 (the parameter H of the model) and float.__repr__ outside the quarter grid below 2**48; json.dumps is "
    "modelled (Model/C07Dumps.lean) and compared text by text; the run also re-computes sha256(json.dumps(model tree)) "
    "and sha256(text json.dumps returned) and compares them with hash_hypergraph",
    "the serialized pre-image is observed by wrapping the `json` name inside hypergraphx.readwrite.hashing for the "
    "duration of one call (no change under /repo)",
]
BUDGET_S = {"quick": 40, "thorough": 800}

KINDS = ["H", "D", "T", "M"]
TAG = {"H": "Hypergraph", "D": "DirectedHypergraph", "T": "TemporalHypergraph", "M": "MultiplexHypergraph"}
WORDS = ["a", "b", "k1", "name", "Z", "_x", "weight", "type", "nodes", "x9"]
SVALS = ["red", "blue", "A1", "", "None", "true", "x_y"]


def note_disagree(ctx, case, what):
    """keep the first few correspondence failures; the search for a failing input goes on"""
    ctx.count("disagreements_seen")
    if len(ctx.disagreements) < 5:
        ctx.disagree(case, what)


def stop(ctx):
    return len(ctx.violations) >= 5 or (ctx.extra.get("disagreements_seen", 0) >= 200) or \
        (ctx.time_left() is not None and ctx.time_left() < 5)


class Timeout(Exception):
    pass


def _alarm(signum, frame):
    raise Timeout()


# ------------------------------------------------------------------------------------------ JSON values

def gen_value(rng, depth=0):
    r = rng.random()
    if depth >= 2 or r < 0.55:
        c = rng.randrange(6)
        if c == 0:
            if rng.random() < 0.1:
                return rng.choice(BIG_INTS)                                            # not exact as floats
            return rng.randint(-3, 9)
        if c == 1:
            if rng.random() < 0.12:
                return rng.choice(ODD_FLOATS) * rng.choice([1, 1, -1])     # off the 1/4 grid, huge, tiny
            return rng.randint(-8, 20) / 4
        if c == 2:
            return rng.choice(SVALS)
        if c == 3:
            return rng.random() < 0.5
        if c == 4:
            return None
        return rng.randint(0, 2)
    if r < 0.75:
        return [gen_value(rng, depth + 1) for _ in range(rng.randint(0, 3))]
    return gen_dict(rng, depth + 1)


def gen_dict(rng, depth=0, p_empty=0.3):
    if rng.random() < p_empty:
        return {}
    ks = rng.sample(WORDS, rng.randint(1, 3))
    return {k: gen_value(rng, depth + 1) for k in ks}


# floats that are no small multiple of 1/4: every bit of the double matters (json.dumps writes repr, which is injective)
ODD_FLOATS = [0.1, 0.30000000000000004, 0.3, 1 / 3, 1e-300, 5e-324, 1.0000000000000002, 123456789.12345679, 2.0 ** 53,
              2.0 ** 53 + 2, 2.0 ** 63, 1e22, 1e300, 1.7976931348623157e308, 16777217.0, 0.1 + 2 ** 20]
BIG_INTS = [2 ** 53, 2 ** 53 + 1, 2 ** 53 + 2, 2 ** 63 - 1, 2 ** 63, 2 ** 64 + 3, 10 ** 20, 10 ** 20 + 1, 16777217,
            2 ** 31, -(2 ** 53) - 1, -(2 ** 63), 2 ** 1024 + 1]
CODE = 2 ** 210          # above every on-grid number of quarters (< 2**202)


def on_grid(v):
    """float that the model holds exactly as a number of quarters"""
    return abs(v) < 2.0 ** 200 and v * 4 == int(v * 4)


def float_code(v):
    """injective integer code of a float off the grid (the model only stores and prints such numbers)"""
    a = CODE + int.from_bytes(struct.pack(">d", abs(v)), "big")
    return -a if v < 0 else a


def float_decode(n):
    v = struct.unpack(">d", (abs(n) - CODE).to_bytes(8, "big"))[0]
    return -v if n < 0 else v


def neighbour(v, rng):
    """the next double above / below"""
    w = math.nextafter(v, math.inf if rng.random() < 0.5 else -math.inf)
    if w in (math.inf, -math.inf):
        w = math.nextafter(v, v / 2)
    elif w == 0:
        # away from zero: below +-5e-324 there is only +-0.0, and -0.0 is a number the model cannot hold (it is the
        # grid number 0 there but "-0.0" in json.dumps; quick seed 2 after the junk-prefix fix)
        w = math.nextafter(v, 2 * v)
    return w


def wire(v):
    """JSON value -> wire text of lean/Driver/C07.lean (dict order kept)"""
    if v is None:
        return "n"
    if v is True:
        return "t"
    if v is False:
        return "f"
    if isinstance(v, int):
        return "i%d" % v
    if isinstance(v, float):
        if v != v or v in (math.inf, -math.inf):
            raise ValueError("not a finite float: %r" % (v,))
        if on_grid(v):
            return "q%d" % int(v * 4)
        return "q%d" % float_code(v)
    if isinstance(v, str):
        if not all(c.isalnum() and c.isascii() or c == "_" for c in v):
            raise ValueError("string outside the wire alphabet: %r" % (v,))
        return "s" + v
    if isinstance(v, (list, tuple)):
        return "[" + ",".join(wire(x) for x in v) + "]"
    if isinstance(v, dict):
        for k in v:
            if not isinstance(k, str):
                raise ValueError("non-string key %r" % (k,))
        return "{" + ",".join(k + ":" + wire(x) for k, x in v.items()) + "}"
    raise ValueError("not a JSON value: %r" % (v,))


def _hexs(t):
    return ".".join("%x" % ord(c) for c in t)


def text_grid(v):
    """every float in v is one whose repr the model writes (`pyFltText`): on the 1/4 grid, below 2**48 (beyond, the
    shortest round-trip digits are no longer the exact quarters: repr(-2.0**50 - 0.75) ends in .8), no -0.0"""
    if isinstance(v, float):
        return on_grid(v) and abs(v) < 2.0 ** 48 and not (v == 0 and math.copysign(1, v) < 0)
    if isinstance(v, (list, tuple)):
        return all(text_grid(x) for x in v)
    if isinstance(v, dict):
        return all(text_grid(x) for x in v.values())
    return True


def wire2(v):
    """like wire(), but strings and keys of any content (`u<hex>.<hex>`, `$<hex>.<hex>`; no lone surrogates)"""
    if isinstance(v, str):
        if any(0xD800 <= ord(c) <= 0xDFFF for c in v):
            raise ValueError("lone surrogate")
        if v and all(c.isalnum() and c.isascii() or c == "_" for c in v):
            return "s" + v
        return "u" + _hexs(v)
    if isinstance(v, (list, tuple)):
        return "[" + ",".join(wire2(x) for x in v) + "]"
    if isinstance(v, dict):
        out = []
        for k, x in v.items():
            if not isinstance(k, str) or any(0xD800 <= ord(c) <= 0xDFFF for c in k):
                raise ValueError("key %r" % (k,))
            kk = k if (k and all(c.isalnum() and c.isascii() or c == "_" for c in k)) else "$" + _hexs(k)
            out.append(kk + ":" + wire2(x))
        return "{" + ",".join(out) + "}"
    return wire(v)


def norm(v):
    """independent normal form: dict keys sorted recursively; types kept (1, 1.0, True stay different)"""
    if isinstance(v, dict):
        return {k: norm(v[k]) for k in sorted(v)}
    if isinstance(v, (list, tuple)):
        return [norm(x) for x in v]
    return v


def unwire(s):
    """wire text -> python value"""
    pos = 0

    def word():
        nonlocal pos
        a = pos
        while pos < len(s) and (s[pos].isalnum() or s[pos] == "_"):
            pos += 1
        return s[a:pos]

    def val():
        nonlocal pos
        c = s[pos]
        pos += 1
        if c == "n":
            return None
        if c == "t":
            return True
        if c == "f":
            return False
        if c in "iq":
            a = pos
            while pos < len(s) and (s[pos].isdigit() or s[pos] == "-"):
                pos += 1
            n = int(s[a:pos])
            if c == "q" and abs(n) >= CODE:
                return float_decode(n)
            return n if c == "i" else n / 4
        if c == "s":
            return word()
        if c == "[":
            out = []
            if s[pos] == "]":
                pos += 1
                return out
            while True:
                out.append(val())
                c2 = s[pos]
                pos += 1
                if c2 == "]":
                    return out
        if c == "{":
            out = {}
            if s[pos] == "}":
                pos += 1
                return out
            while True:
                k = word()
                pos += 1  # ':'
                out[k] = val()
                c2 = s[pos]
                pos += 1
                if c2 == "}":
                    return out
        raise ValueError("bad wire text")
    v = val()
    if pos != len(s):
        raise ValueError("trailing wire text")
    return v


# ------------------------------------------------------------------------------------------ keys per kind
# key (python, canonical): H (n..)   D ((s..),(t..))   T (time,(n..))   M ((n..),layer)
# op key (JSON-able): H [n..]  D [[s..],[t..]]  T [time,[n..]]  M [[n..],layer]

def key_nodes(kind, k):
    if kind == "H":
        return list(k)
    if kind == "D":
        return list(k[0]) + list(k[1])
    if kind == "T":
        return list(k[1])
    return list(k[0])


def canon_key(kind, k):
    if kind == "H":
        return tuple(sorted(k))
    if kind == "D":
        return (tuple(sorted(k[0])), tuple(sorted(k[1])))
    if kind == "T":
        return (k[0], tuple(sorted(k[1])))
    return (tuple(sorted(k[0])), k[1])


def perm_key(kind, k, rng):
    def sh(t):
        t = list(t)
        rng.shuffle(t)
        return t
    if kind == "H":
        return sh(k)
    if kind == "D":
        return [sh(k[0]), sh(k[1])]
    if kind == "T":
        return [k[0], sh(k[1])]
    return [sh(k[0]), k[1]]


def key_with(kind, k, v, rng):
    """key with the extra node v (directed: on a random side)"""
    if kind == "H":
        return canon_key(kind, list(k) + [v])
    if kind == "D":
        if rng.random() < 0.5:
            return canon_key(kind, (list(k[0]) + [v], k[1]))
        return canon_key(kind, (k[0], list(k[1]) + [v]))
    if kind == "T":
        return canon_key(kind, (k[0], list(k[1]) + [v]))
    return canon_key(kind, (list(k[0]) + [v], k[1]))


def key_without(kind, k, v):
    """the record that remove_node(v, keep_edges=True) leaves, None when it is dropped"""
    if kind == "H":
        return tuple(x for x in k if x != v)
    if kind == "D":
        s, t = tuple(x for x in k[0] if x != v), tuple(x for x in k[1] if x != v)
        return (s, t) if s and t else None
    if kind == "T":
        r = tuple(x for x in k[1] if x != v)
        return (k[0], r) if r else None
    r = tuple(x for x in k[0] if x != v)
    return (r, k[1]) if r else None


def wire_key(kind, k, rank, lrank):
    def nl(t):
        return ",".join(str(rank[x]) for x in t) if len(t) else "_"
    if kind == "H":
        return nl(k)
    if kind == "D":
        return nl(k[0]) + ";" + nl(k[1])
    if kind == "T":
        return str(k[0]) + ";" + nl(k[1])
    return nl(k[0]) + ";" + str(lrank[k[1]])


def tree_key(kind, k, rank, lrank):
    """the "nodes" entry of a hyperedge record with labels replaced by ranks"""
    if kind == "H":
        return [rank[x] for x in k]
    if kind == "D":
        return [[rank[x] for x in k[0]], [rank[x] for x in k[1]]]
    if kind == "T":
        return [k[0], [rank[x] for x in k[1]]]
    return [[rank[x] for x in k[0]], lrank[k[1]]]


def untree_key(kind, t, unrank, unlrank):
    if kind == "H":
        return [unrank[x] for x in t]
    if kind == "D":
        return [[unrank[x] for x in t[0]], [unrank[x] for x in t[1]]]
    if kind == "T":
        return [t[0], [unrank[x] for x in t[1]]]
    return [[unrank[x] for x in t[0]], unlrank[t[1]]]


# ------------------------------------------------------------------------------------------ implementation side

def omit(op):
    """an optional argument whose value is None is passed as None or left out (both are the same call by the
    signature; a mutable default argument is only visible when it is left out); fixed per operation so that a replay
    makes the same calls"""
    return zlib.crc32(json.dumps(op, sort_keys=True, default=repr).encode()) & 1 == 0


def opt_kw(op, **kw):
    if omit(op):
        return {k: v for k, v in kw.items() if v is not None}
    return kw


def covers(kind, big, small):
    """the hyperedge `small` can come out of `big` by remove_node(keep_edges=True) calls (or is `big`)"""
    if kind == "H":
        return set(small) <= set(big)
    if kind == "D":
        return set(small[0]) <= set(big[0]) and set(small[1]) <= set(big[1])
    if kind == "T":
        return small[0] == big[0] and set(small[1]) <= set(big[1])
    return small[1] == big[1] and set(small[0]) <= set(big[0])


def reaches(v, target):
    """is the object `target` the value v or inside it (by identity)"""
    if v is target:
        return True
    if isinstance(v, dict):
        return any(reaches(x, target) for x in v.values())
    if isinstance(v, list):
        return any(reaches(x, target) for x in v)
    return False


def held(getter, *a):
    """the dictionary object a slot holds at the moment (None when the slot is not there)"""
    try:
        d = getter(*a)
        return d if isinstance(d, dict) else None
    except Timeout:
        raise
    except Exception:
        return None


class Presenter:
    """How the metadata VALUES of a history's calls are handed over as Python OBJECTS.  The containers keep the
    dictionaries they are given (by reference), so a caller decides which slots hold one and the same object:
      fresh  every argument is a fresh deep copy (no object is passed twice);
      share  equal values are ONE object (dictionaries and lists, at every depth: a record handed to several nodes,
             hyperedges and the hypergraph; a nested list inside two different records; `[md] * n` lists), each with
             probability p/100 - except the top-level dictionary of a slot that some call of the history edits in
             place (set_attr_to_* / remove_attr_from_*, the constructor's and clear()'s in-place update of the hypergraph
             metadata): that one is always fresh, so that "each call applies to its own node / hyperedge" stays true
             and the value-based model / the expected content apply unchanged;
      free   like share, also for dictionaries that are edited in place afterwards: an edit through one holder shows
             in all holders.  Nothing is expected of the content then, it is read through the getters.
    The choice is a function of (spec, position in the history), so a replay hands over the same objects."""

    def __init__(self, spec, kind, ops):
        spec = spec or {"mode": "fresh"}
        self.mode = spec.get("mode", "fresh")
        self.p = spec.get("p", 100)
        self.salt = spec.get("salt", 0)
        self.kind = kind
        self.table = {}
        self.n = 0
        self.shared = 0
        self.tn, self.te, self.th = set(), [], False
        if self.mode == "share":
            for op in ops:
                if op[0] in ("setnattr", "delnattr"):
                    self.tn.add(op[1])
                elif op[0] in ("seteattr", "deleattr"):
                    self.te.append(canon_key(kind, canon_free(kind, op[1])))
                elif op[0] in ("sethattr", "setlayer", "setds", "clear"):
                    self.th = True

    def spec(self):
        return {"mode": self.mode, "p": self.p, "salt": self.salt}

    def edited_in_place(self, holder):
        if self.mode != "share" or holder is None:
            return False
        if holder[0] == "n":
            return holder[1] in self.tn
        if holder[0] == "e":
            return any(covers(self.kind, holder[1], t) for t in self.te)
        return self.th or holder[0] == "ctor"

    def pick(self):
        self.n += 1
        return zlib.crc32(("%d|%d" % (self.salt, self.n)).encode()) % 100 < self.p

    def val(self, v, holder=None, top=False):
        """the object to hand over for the value v (holder: the slot whose top-level dictionary it becomes)"""
        if self.mode == "fresh" or v is None:
            return copy.deepcopy(v)
        if isinstance(v, dict):
            out = {k: self.val(x) for k, x in v.items()}
        elif isinstance(v, list):
            out = [self.val(x) for x in v]
        else:
            return v
        if top and (holder == ("ctor",) or self.edited_in_place(holder)):
            return out
        key = tsig(v)
        if key in self.table and self.pick():
            self.shared += 1
            return self.table[key]
        self.table[key] = out
        return out

    def top(self, v, holder):
        return self.val(v, holder, top=True)

    def attr(self, v, getter, *a):
        """value for an in-place `d[field] = v`: never a structure that contains d itself (no JSON value does)"""
        out = self.val(v)
        if self.mode == "free":
            d = held(getter, *a)
            if d is not None and reaches(out, d):
                return copy.deepcopy(v)
        return out


FRESH = Presenter(None, "H", [])


def make(kind, weighted, user_hm, P=FRESH):
    from hypergraphx import Hypergraph, DirectedHypergraph, TemporalHypergraph, MultiplexHypergraph
    cls = {"H": Hypergraph, "D": DirectedHypergraph, "T": TemporalHypergraph, "M": MultiplexHypergraph}[kind]
    return cls(**opt_kw(["new", kind, weighted], weighted=weighted, hypergraph_metadata=P.top(user_hm, ("ctor",))))


def py_key(kind, k):
    """op key -> the tuple that the public API takes as `edge` (+ the second argument for Temporal/Multiplex)"""
    if kind == "H":
        return tuple(k)
    if kind == "D":
        return (tuple(k[0]), tuple(k[1]))
    if kind == "T":
        return tuple(k[1])
    return tuple(k[0])


def make_ctor(kind, op, P=FRESH):
    """constructor with lists: op = ["ctor", weighted, hypergraph_metadata, [[node, md]..]|None, keys|None,
    weights|None, edge_metadata|None, embedded]; every argument is a fresh copy (no object is passed twice)"""
    from hypergraphx import Hypergraph, DirectedHypergraph, TemporalHypergraph, MultiplexHypergraph
    cls = {"H": Hypergraph, "D": DirectedHypergraph, "T": TemporalHypergraph, "M": MultiplexHypergraph}[kind]
    _, weighted, hm, nitems, ks, ws, mds = op[:7]
    embedded = bool(op[7]) if len(op) > 7 else False
    kw = opt_kw(op, weighted=weighted, hypergraph_metadata=P.top(hm, ("ctor",)))
    if nitems is not None:
        kw["node_metadata"] = {n: P.top(md, ("n", n)) for n, md in nitems}
    if ks is not None:
        if kind in "HD":
            kw["edge_list"] = [py_key(kind, k) for k in ks]
        elif kind == "T":
            if embedded:
                kw["edge_list"] = [(k[0], tuple(k[1])) for k in ks]
            else:
                kw["edge_list"] = [tuple(k[1]) for k in ks]
                kw["time_list"] = [k[0] for k in ks]
        else:
            if embedded:
                kw["edge_list"] = [(tuple(k[0]), k[1]) for k in ks]
            else:
                kw["edge_list"] = [tuple(k[0]) for k in ks]
                kw["edge_layer"] = [k[1] for k in ks]
        if ws is not None:
            kw["weights"] = list(ws)
        if mds is not None:
            kw["edge_metadata"] = [P.top(m, ("e", canon_key(kind, canon_free(kind, k)))) for k, m in zip(ks, mds)]
    return cls(**kw)


def apply_op(kind, h, op, P=FRESH):
    """run one operation on the real object: 'ok' | 'rej' (any exception)"""
    if op[0] == "addedges" and op[2] is not None:
        # add_edges(weights=...) on an unweighted hypergraph prints / warns that it becomes weighted
        with contextlib.redirect_stdout(io.StringIO()), warnings.catch_warnings():
            warnings.simplefilter("ignore")
            return apply_op_(kind, h, op, P)
    return apply_op_(kind, h, op, P)


def apply_op_(kind, h, op, P=FRESH):
    name = op[0]

    def ek(k):
        return ("e", canon_key(kind, canon_free(kind, k)))
    try:
        if name == "addnode":
            if op[2] is None and omit(op):
                h.add_node(op[1])
            else:
                h.add_node(op[1], P.top(op[2], ("n", op[1])))
        elif name == "addedge":
            k = op[1]
            kw = opt_kw(op, weight=op[2], metadata=P.top(op[3], ek(k)))
            if kind == "H":
                h.add_edge(tuple(k), **kw)
            elif kind == "D":
                h.add_edge((tuple(k[0]), tuple(k[1])), **kw)
            elif kind == "T":
                h.add_edge(tuple(k[1]), k[0], **kw)
            else:
                h.add_edge(tuple(k[0]), k[1], **kw)
        elif name == "rmedge":
            k = op[1]
            if kind == "H":
                h.remove_edge(tuple(k))
            elif kind == "D":
                h.remove_edge((tuple(k[0]), tuple(k[1])))
            elif kind == "T":
                h.remove_edge(tuple(k[1]), k[0])
            else:
                h.remove_edge((tuple(k[0]), k[1]))
        elif name == "rmnode":
            h.remove_node(op[1], keep_edges=bool(op[2]))
        elif name == "setnm":
            h.set_node_metadata(op[1], P.top(op[2], ("n", op[1])))
        elif name == "setem":
            k, md = op[1], P.top(op[2], ek(op[1]))
            if kind == "H":
                h.set_edge_metadata(tuple(k), md)
            elif kind == "D":
                h.set_edge_metadata((tuple(k[0]), tuple(k[1])), md)
            elif kind == "T":
                h.set_edge_metadata(tuple(k[1]), k[0], md)
            else:
                raise NotImplementedError
        elif name == "sethm":
            h.set_hypergraph_metadata(P.top(op[1], ("h",)))
        elif name == "setw":
            k, w = op[1], op[2]
            if kind == "H":
                h.set_weight(tuple(k), w)
            elif kind == "D":
                h.set_weight((tuple(k[0]), tuple(k[1])), w)
            elif kind == "T":
                h.set_weight(tuple(k[1]), k[0], w)
            else:
                h.set_weight(tuple(k[0]), k[1], w)
        elif name == "clear":
            h.clear()
        elif name == "setnattr":
            h.set_attr_to_node_metadata(op[1], op[2], P.attr(op[3], lambda: (h.get_nodes(metadata=True)[op[1]] if kind == "M" else h.get_node_metadata(op[1]))))
        elif name == "delnattr":
            h.remove_attr_from_node_metadata(op[1], op[2])
        elif name == "seteattr":
            k, f = op[1], op[2]
            if kind in "HD":
                v = P.attr(op[3], lambda: h.get_edge_metadata(py_key(kind, k)))
                h.set_attr_to_edge_metadata(py_key(kind, k), f, v)
            elif kind == "T":
                v = P.attr(op[3], lambda: h.get_edge_metadata(tuple(k[1]), k[0]))
                h.set_attr_to_edge_metadata(tuple(k[1]), k[0], f, v)
            else:
                v = P.attr(op[3], lambda: h.get_edge_metadata(tuple(k[0]), k[1]))
                h.set_attr_to_edge_metadata(tuple(k[0]), k[1], f, v)
        elif name == "deleattr":
            k, f = op[1], op[2]
            if kind in "HD":
                h.remove_attr_from_edge_metadata(py_key(kind, k), f)
            elif kind == "T":
                h.remove_attr_from_edge_metadata(tuple(k[1]), k[0], f)
            else:
                h.remove_attr_from_edge_metadata(tuple(k[0]), k[1], f)
        elif name == "sethattr":
            h.set_attr_to_hypergraph_metadata(op[1], P.attr(op[2], lambda: h.get_hypergraph_metadata()))
        elif name == "setlayer":
            # MultiplexHypergraph: the record of a layer lives in the hypergraph metadata under the layer's name
            h.set_layer_metadata(op[1], P.attr(op[2], lambda: h.get_hypergraph_metadata()))
        elif name == "setds":
            h.set_dataset_metadata(P.attr(op[1], lambda: h.get_hypergraph_metadata()))
        elif name == "addnodes":
            # every metadata entry is its own fresh object: sharing can only come from the implementation
            ns, mds = op[1], (None if op[2] is None else [P.top(m, ("n", n)) for n, m in zip(op[1], op[2])])
            if kind == "D":
                h.add_nodes(list(ns))
            elif mds is None:
                h.add_nodes(list(ns))
            else:
                d = dict(zip(ns, mds))
                for x, md in (op[3] if len(op) > 3 else []):
                    d.setdefault(x, P.top(md, ("n", x)))       # entries for nodes that are not in the list: ignored
                h.add_nodes(list(ns), d)
        elif name == "addedges":
            ks, ws, mds = op[1], op[2], (None if op[3] is None else [P.top(m, ek(k)) for k, m in zip(op[1], op[3])])
            kw = opt_kw(op, weights=ws, metadata=mds)
            if kind == "H":
                h.add_edges([tuple(k) for k in ks], **kw)
            elif kind == "D":
                h.add_edges([(tuple(k[0]), tuple(k[1])) for k in ks], **kw)
            elif kind == "T":
                h.add_edges([tuple(k[1]) for k in ks], [k[0] for k in ks], **kw)
            else:
                h.add_edges([tuple(k[0]) for k in ks], [k[1] for k in ks], **kw)
        elif name == "rmedges":
            ks = op[1]
            if kind == "H":
                h.remove_edges([tuple(k) for k in ks])
            elif kind == "D":
                h.remove_edges([(tuple(k[0]), tuple(k[1])) for k in ks])
            elif kind == "T":
                h.remove_edges([(k[0], tuple(k[1])) for k in ks])
            else:
                raise NotImplementedError
        elif name == "rmnodes":
            h.remove_nodes(list(op[1]), keep_edges=bool(op[2]))
        else:
            raise AssertionError(name)
        return "ok"
    except Timeout:
        raise
    except AssertionError:
        raise
    except Exception:
        return "rej"


BATCHED = ("addnodes", "addedges", "rmedges", "rmnodes")


def wire_ops(kind, slot, op, rank, lrank):
    """add_nodes / add_edges are ONE model operation (`Op.addNodes`, `Op.addEdges`); the batched removals are the
    sequence of their single calls"""
    name = op[0]
    if name == "addnodes":
        mds = op[2] if (op[2] is not None and kind != "D") else None
        return ["addnodes %d %s %s" % (slot, ",".join(str(rank[n]) for n in op[1]) or "-",
                                       "~" if mds is None else wire(list(mds)))]
    if name == "addedges":
        return ["addedges %d %d %s %s %s" % (
            slot, 0 if op[2] is None else 1,
            "/".join(wire_key(kind, canon_free(kind, k), rank, lrank) for k in op[1]) or "-",
            "~" if op[2] is None else wire(list(op[2])), "~" if op[3] is None else wire(list(op[3])))]
    if name == "rmedges":
        return [wire_op(kind, slot, ["rmedge", k], rank, lrank) for k in op[1]]
    if name == "rmnodes":
        return [wire_op(kind, slot, ["rmnode", n, op[2]], rank, lrank) for n in op[1]]
    return [wire_op(kind, slot, op, rank, lrank)]


def wire_op(kind, slot, op, rank, lrank):
    name = op[0]

    def wk(k):
        return wire_key(kind, canon_free(kind, k), rank, lrank)

    def opt(v):
        return "~" if v is None else wire(v)
    if name == "addnode":
        return "addnode %d %d %s" % (slot, rank[op[1]], opt(op[2]))
    if name == "addedge":
        return "addedge %d %s %s %s" % (slot, wk(op[1]), opt(op[2]), opt(op[3]))
    if name == "rmedge":
        return "rmedge %d %s" % (slot, wk(op[1]))
    if name == "rmnode":
        return "rmnode %d %d %d" % (slot, rank[op[1]], 1 if op[2] else 0)
    if name == "setnm":
        return "setnm %d %d %s" % (slot, rank[op[1]], wire(op[2]))
    if name == "setem":
        return "setem %d %s %s" % (slot, wk(op[1]), wire(op[2]))
    if name == "sethm":
        return "sethm %d %s" % (slot, wire(op[1]))
    if name == "setw":
        return "setw %d %s %s" % (slot, wk(op[1]), wire(op[2]))
    if name == "clear":
        return "clear %d" % slot
    if name == "setnattr":
        return "setnattr %d %d %s %s" % (slot, rank[op[1]], op[2], wire(op[3]))
    if name == "delnattr":
        return "delnattr %d %d %s" % (slot, rank[op[1]], op[2])
    if name == "seteattr":
        return "seteattr %d %s %s %s" % (slot, wk(op[1]), op[2], wire(op[3]))
    if name == "deleattr":
        return "deleattr %d %s %s" % (slot, wk(op[1]), op[2])
    if name == "sethattr":
        return "sethattr %d %s %s" % (slot, op[1], wire(op[2]))
    if name == "setlayer":
        # documented effect: hypergraph_metadata[layer_name] = record (REPLACES what was there)
        return "sethattr %d %s %s" % (slot, op[1], wire(op[2]))
    if name == "setds":
        return "sethattr %d %s %s" % (slot, DS_KEY, wire(op[1]))
    raise AssertionError(name)


def wire_ctor(kind, slot, op, rank, lrank):
    _, weighted, hm, nitems, ks, ws, mds = op[:7]
    nitems = nitems or []
    return "build %d %s %d %s %s %s %d %s %s %s" % (
        slot, kind, 1 if weighted else 0, wire(hm or {}),
        ",".join(str(rank[n]) for n, _ in nitems) or "-", wire([md for _, md in nitems]),
        0 if (ks is None or ws is None) else 1,
        "/".join(wire_key(kind, canon_free(kind, k), rank, lrank) for k in (ks or [])) or "-",
        "~" if (ks is None or ws is None) else wire(list(ws)), "~" if (ks is None or mds is None) else wire(list(mds)))


def canon_free(kind, k):
    """op key (lists, any node order) -> tuple shape without sorting (the model canonicalises itself)"""
    if kind == "H":
        return tuple(k)
    if kind == "D":
        return (tuple(k[0]), tuple(k[1]))
    if kind == "T":
        return (k[0], tuple(k[1]))
    return (tuple(k[0]), k[1])


class JsonSpy:
    """stands in for the `json` module inside hashing.py during one call; records the argument of dumps"""

    def __init__(self):
        self.seen = []
        self.texts = []

    def dumps(self, obj, *a, **k):
        self.seen.append((copy.deepcopy(obj), a, dict(k)))
        text = json.dumps(obj, *a, **k)
        self.texts.append(text)
        return text

    def __getattr__(self, name):
        return getattr(json, name)


LAST_TEXT = [None]      # the text json.dumps returned inside the last hash_with_spy call


def hash_with_spy(h):
    """(digest, serialized pre-image or None)"""
    LAST_TEXT[0] = None
    import hypergraphx.readwrite.hashing as hashing
    spy = JsonSpy()
    real = hashing.json
    hashing.json = spy
    try:
        d = hashing.hash_hypergraph(h)
    finally:
        hashing.json = real
    LAST_TEXT[0] = spy.texts[-1] if spy.texts else None
    return d, (spy.seen[-1][0] if spy.seen else None)


def plain_hash(h):
    from hypergraphx.readwrite.hashing import hash_hypergraph
    return hash_hypergraph(h)


def observe(kind, h):
    """content through the public getters: (nodes{label:md}, edges{key:(w,md)}, weighted, hmeta)"""
    nodes = {}
    for n in list(h.get_nodes()):
        if kind == "M":
            nodes[n] = h.get_nodes(metadata=True)[n]
        else:
            nodes[n] = h.get_node_metadata(n)
    edges = {}
    for k in list(h.get_edges()):
        if kind == "H":
            w, md = h.get_weight(k), h.get_edge_metadata(k)
        elif kind == "D":
            w, md = h.get_weight(k), h.get_edge_metadata(k)
        elif kind == "T":
            w, md = h.get_weight(k[1], k[0]), h.get_edge_metadata(k[1], k[0])
        else:
            w, md = h.get_weight(k[0], k[1]), h.get_edge_metadata(k[0], k[1])
        edges[canon_key(kind, k)] = (w, md)
    return {"nodes": nodes, "edges": edges, "weighted": h.is_weighted(), "hmeta": h.get_hypergraph_metadata(),
            "cls": type(h).__name__}


def signature(kind, c):
    """canonical text of an observed content; types of numbers kept"""
    return repr((c["cls"], c["weighted"] is True, tsig(norm(c["hmeta"])),
                 sorted(((repr(n), tsig(norm(md))) for n, md in c["nodes"].items())),
                 sorted(((repr(k), tsig(w), tsig(norm(md))) for k, (w, md) in c["edges"].items()))))


def tsig(v):
    """typed repr: distinguishes 1, 1.0, True"""
    if isinstance(v, dict):
        return "{" + ",".join(repr(k) + ":" + tsig(x) for k, x in v.items()) + "}"
    if isinstance(v, (list, tuple)):
        return "[" + ",".join(tsig(x) for x in v) + "]"
    return type(v).__name__ + ":" + repr(v)


def map_exposed(kind, ex, rank, lrank):
    """replace labels by ranks in an expose_attributes_for_hashing() dict (dict orders kept)"""
    out = {}
    for k, v in ex.items():
        if k == "edges":
            out[k] = [{a: (tree_key(kind, b, rank, lrank) if a == "nodes" else b) for a, b in e.items()} for e in v]
        elif k == "nodes":
            out[k] = [{a: (rank[b] if a == "node" else b) for a, b in e.items()} for e in v]
        else:
            out[k] = v
    return out


def unmap_tree(kind, tree, unrank, unlrank):
    out = {}
    for k, v in tree.items():
        if k == "edges":
            out[k] = [{a: (untree_key(kind, b, unrank, unlrank) if a == "nodes" else b) for a, b in e.items()} for e in v]
        elif k == "nodes":
            out[k] = [{a: (unrank[b] if a == "node" else b) for a, b in e.items()} for e in v]
        else:
            out[k] = v
    return out


def wf_real(kind, h):
    """the model's `WF` evaluated on the real tables (public `expose_data_structures()`); list of failed clauses"""
    d = h.expose_data_structures()
    adj = d["_adj_source"] if kind == "D" else d["_adj"]
    nm, el, ws, em = d["node_metadata"], d["_edge_list"], d["_weights"], d["edge_metadata"]
    bad = []
    if set(adj) != set(nm):
        bad.append("node tables differ: adjacency %r, _node_metadata %r" % (sorted(adj, key=repr), sorted(nm, key=repr)))
    ids = list(el.values())
    if len(set(ids)) != len(ids):
        bad.append("an id is used by two keys")
    if any(i not in ws for i in ids):
        bad.append("a hyperedge without weight entry")
    if any(i not in em for i in ids):
        bad.append("a hyperedge without metadata entry")
    if any(not (i < d["next_edge_id"]) for i in ids):
        bad.append("an id not below next_edge_id")
    if any(canon_key(kind, k) != k for k in el):
        bad.append("a non-canonical key")
    return bad


def state_digest(h):
    return repr(sorted((k, repr(v)) for k, v in vars(h).items()))


# ------------------------------------------------------------------------------------------ generation

def gen_universe(rng):
    if rng.random() < 0.3:
        pool = [chr(97 + i) * rng.randint(1, 2) for i in range(20)] + ["E1", "N0", "Zz", ""]
        pool = sorted(set(pool))
        falsy = ""
    else:
        pool = list(range(0, 40))
        falsy = 0
    uni = rng.sample(pool, 14)
    if rng.random() < 0.35:
        # a falsy label (0, '') among the nodes of the target
        uni = [x for x in uni if x != falsy]
        uni.insert(rng.randint(0, 1), falsy)
        uni = uni[:14]
    return uni


LAYERS = ["L0", "K", "beta", "A"]
DS_KEY = "multiplex_metadata"          # where MultiplexHypergraph.set_dataset_metadata keeps its record


def gen_weight(rng, weighted, kind):
    if not weighted:
        return None
    r = rng.random()
    if r < 0.07:
        return rng.choice(BIG_INTS)                 # neighbouring ints that are one double
    if r < 0.14:
        return rng.choice(ODD_FLOATS)
    q = rng.choice([1, 2, 3, 4, 4, 5, 6, 8, 10, 12, -2, 20])
    if rng.random() < 0.5:
        return q / 4
    return rng.choice([1, 1, 2, 3, 5, -1])


def sums_exact(ws):
    """Python's + on these numbers, in any order, is the exact sum"""
    if all(isinstance(w, int) for w in ws):
        return True
    return all(abs(w) <= 2 ** 20 and (isinstance(w, int) or on_grid(w)) for w in ws)


def inexact_sums(kind, ops):
    """does some call of this history (on a weighted object) add two weights whose Python sum is not the exact sum?
    Walks the calls with their documented effect on the weight table only (repeated add_edge / add_edges entry / constructor
    entry: +=; remove_node(keep_edges=True): the shrunken record meets an existing one: +=).  The model keeps weights as
    exact numbers of quarters, the code computes int + float in binary64: such a sum is not what C07 is about, and every
    intermediate object may be probed - so the generator must not produce one anywhere in a history."""
    tab = {}

    def add(k, w):
        w = 1 if w is None else w
        if k in tab:
            if not sums_exact([tab[k], w]):
                return True
            tab[k] = tab[k] + w
        else:
            tab[k] = w
        return False

    def ck(k):
        return canon_key(kind, canon_free(kind, k))

    def rmnode(v, keep):
        for k in [k for k in tab if v in key_nodes(kind, k)]:
            w = tab.pop(k)
            f = key_without(kind, k, v) if keep else None
            if f is not None and len(key_nodes(kind, f)) > 0 and add(f, w):
                return True
        return False
    for op in ops:
        name = op[0]
        if name == "ctor":
            tab = {}
            if op[4] is not None and op[5] is not None and any(add(ck(k), w) for k, w in zip(op[4], op[5])):
                return True
        elif name == "addedge":
            if add(ck(op[1]), op[2]):
                return True
        elif name == "addedges":
            if any(add(ck(k), w) for k, w in zip(op[1], op[2] if op[2] is not None else [None] * len(op[1]))):
                return True
        elif name == "setw":
            if ck(op[1]) in tab:
                tab[ck(op[1])] = op[2]
        elif name == "rmedge":
            tab.pop(ck(op[1]), None)
        elif name == "rmedges":
            for k in op[1]:
                tab.pop(ck(k), None)
        elif name == "rmnode":
            if rmnode(op[1], op[2]):
                return True
        elif name == "rmnodes":
            if any(rmnode(v, op[2]) for v in op[1]):
                return True
        elif name == "clear":
            tab = {}
    return False


def can_split(w):
    """w = a + b computed exactly by Python's + (ints of any size; small floats on the 1/4 grid)"""
    return isinstance(w, int) or (on_grid(w) and abs(w) <= 64)


def gen_key(kind, nodes, rng, times=(0, 1, 2, 5), layers=LAYERS):
    size = min(len(nodes), rng.choice([1, 2, 2, 2, 3, 3, 4]))
    if kind == "D":
        size = max(2, size)
        if len(nodes) < 2:
            return None
    ns = rng.sample(nodes, size)
    if kind == "H":
        return canon_key(kind, ns)
    if kind == "D":
        c = rng.randint(1, size - 1)
        return canon_key(kind, (ns[:c], ns[c:]))
    if kind == "T":
        return canon_key(kind, (rng.choice(times), ns))
    return canon_key(kind, (ns, rng.choice(layers)))


def gen_records(rng):
    """a small pool of metadata records built from a smaller pool of nested parts: the same list / sub-dictionary
    occurs inside different records, the same record at several nodes / hyperedges / the hypergraph"""
    parts = []
    for _ in range(rng.randint(1, 3)):
        if rng.random() < 0.5:
            parts.append([gen_value(rng, 2) for _ in range(rng.randint(0, 3))])
        else:
            parts.append({k: gen_value(rng, 2) for k in rng.sample(WORDS, rng.randint(0, 2))})
    if rng.random() < 0.4:
        parts.append({rng.choice(WORDS): rng.choice(parts), rng.choice(WORDS): rng.choice(parts)})   # two levels deep
    recs = []
    for _ in range(rng.randint(2, 4)):
        ks = rng.sample([w for w in WORDS if w not in ("type", "weighted")], rng.randint(1, 3))
        recs.append({k: (copy.deepcopy(rng.choice(parts)) if rng.random() < 0.6 else gen_value(rng, 2)) for k in ks})
    if rng.random() < 0.5:
        recs.append({})
    return recs


def gen_target(kind, rng, pooled=False):
    uni = gen_universe(rng)
    recs = gen_records(rng) if pooled else None

    def gen_md(p_empty):
        if recs is not None and rng.random() < 0.85:
            return copy.deepcopy(rng.choice(recs))
        return gen_dict(rng, p_empty=p_empty)
    # sparse: most metadata empty and several isolated nodes (items that a metadata-less batch leaves with `{}`)
    sparse = rng.random() < 0.3
    nn = rng.randint(3, 7) if sparse else rng.randint(2, 7)
    nodes = uni[:nn]
    extra = uni[nn:]
    weighted = rng.random() < 0.5
    tgt = {"kind": kind, "weighted": weighted, "nodes": {}, "edges": {}, "extra": extra}
    if recs is not None:
        tgt["records"] = recs
    for n in nodes:
        tgt["nodes"][n] = gen_md(0.85 if sparse else 0.5)
    pool = nodes[:max(2, nn - rng.randint(1, 3))] if sparse else nodes
    for _ in range(rng.randint(0, 4) if sparse else rng.randint(0, 6)):
        k = gen_key(kind, pool, rng)
        if k is None or k in tgt["edges"]:
            continue
        w = gen_weight(rng, weighted, kind)
        tgt["edges"][k] = (w, gen_md(0.8 if sparse else 0.4))
    tgt["user_hm"] = None if rng.random() < 0.3 else gen_md(0.2)
    if kind == "M" and rng.random() < 0.6:
        # records of layers / of the dataset: entries of the hypergraph metadata (set_layer_metadata, set_dataset_metadata)
        hm = dict(tgt["user_hm"] or {})
        for lay in rng.sample(LAYERS, rng.choice([1, 1, 2])):
            hm[lay] = gen_md(0.2)
        if rng.random() < 0.4:
            hm[DS_KEY] = gen_md(0.2)
        tgt["user_hm"] = hm
    return tgt


def final_hmeta(tgt):
    if tgt.get("hm_final") is not None:
        return copy.deepcopy(tgt["hm_final"])       # set by set_hypergraph_metadata at the end of the history
    hm = dict(copy.deepcopy(tgt["user_hm"]) or {})
    hm.update({"weighted": tgt["weighted"], "type": TAG[tgt["kind"]]})
    return hm


def opkey(kind, k):
    """canonical python key -> JSON-able op key"""
    if kind == "H":
        return list(k)
    if kind == "D":
        return [list(k[0]), list(k[1])]
    if kind == "T":
        return [k[0], list(k[1])]
    return [list(k[0]), k[1]]


def split_weight(w, rng):
    if isinstance(w, int):
        a = rng.randint(-2, 4) if (abs(w) < 2 ** 40 or rng.random() < 0.5) else w // 2 + rng.randint(-1, 1)
        return a, w - a
    a = rng.choice([rng.randint(-4, 12) / 4, rng.randint(-1, 3)])
    b = w - a
    return (a, float(b)) if rng.random() < 0.5 else (float(b), a)


def interleave(units, rng):
    units = [list(u) for u in units if u]
    out = []
    while units:
        i = rng.randrange(len(units))
        out.append(units[i].pop(0))
        if not units[i]:
            units.pop(i)
    return out


def attr_build(setop, delop, ident, md, rng, have=()):
    """attribute-level calls that turn a dictionary holding the keys `have` (a prefix of md) into md: one set per
    missing field, some fields set to something else first, sometimes an extra field that is removed again"""
    ops = []
    if not callable(ident):
        fixed = ident
        ident = lambda: fixed
    junk = None
    if rng.random() < 0.3:
        free = [w for w in WORDS if w not in md]
        if free:
            junk = rng.choice(free)
            ops.append([setop, ident(), junk, gen_value(rng, 1)])
    for f, v in md.items():
        if f in have:
            continue
        if rng.random() < 0.25:
            ops.append([setop, ident(), f, gen_value(rng, 1)])
        ops.append([setop, ident(), f, v])
    if junk is not None:
        ops.append([delop, ident(), junk])
    return ops


def prefix_dict(md, rng):
    ks = list(md)
    return {k: md[k] for k in ks[:rng.randint(0, max(0, len(ks) - 1))]}


def junk_for(v, rng):
    """what an EARLIER call of a setter stored under the key that holds v in the end.  Mostly a record with fields that v
    lacks (a setter that merges, or that keeps the first record, shows), also v with one atom changed, {} and an
    unrelated record"""
    if not isinstance(v, dict):
        return gen_value(rng, 1)
    r = rng.random()
    if r < 0.5:
        out = copy.deepcopy(v)
        free = [w for w in WORDS if w not in v and w not in ("type", "weighted")]
        for k in rng.sample(free, min(len(free), rng.randint(1, 2))):
            out[k] = gen_value(rng, 1)
        if v and rng.random() < 0.5:
            out[rng.choice(list(v))] = gen_value(rng, 1)
        if rng.random() < 0.5:
            items = list(out.items())
            rng.shuffle(items)
            out = dict(items)
        return out
    if r < 0.65 and v:
        return edit_value(v, rng)
    if r < 0.75:
        return {}
    return gen_dict(rng, p_empty=0.05)


def repeated(setter, v, rng, n=None):
    """ONE setter called 1-3 times for one key: every call replaces what the call before stored"""
    n = rng.choice([0, 1, 1, 2]) if n is None else n
    return [setter(junk_for(v, rng)) for _ in range(n)] + [setter(v)]


def split_parts(w, n, rng):
    """w as a sum of (up to) n terms that Python's + adds up exactly, left to right"""
    parts = [w]
    while len(parts) < n and can_split(parts[-1]) and sums_exact(parts):
        a, b = split_weight(parts.pop(), rng)
        if not sums_exact(parts + [a, b]):
            parts.append(a + b)
            break
        parts += [a, b]
    return parts


def hm_setter(kind, f, rng):
    """a call that stores a value under the field f of the hypergraph metadata"""
    def call(v):
        if kind == "M" and f == DS_KEY and rng.random() < 0.8:
            return ["setds", v]
        if kind == "M" and f in LAYERS and rng.random() < 0.8:
            return ["setlayer", f, v]
        return ["sethattr", f, v]
    return call


def gen_history(tgt, rng, fancy):
    """ops list ending (under the documented semantics) in the target content; flags of what was used"""
    kind, weighted = tgt["kind"], tgt["weighted"]
    used = set()
    extra = list(tgt["extra"])
    rng.shuffle(extra)
    taken = set(tgt["edges"])
    can_set = kind != "M"

    def fresh_node():
        return extra.pop() if extra else None

    def fresh_key(pool):
        for _ in range(8):
            k = gen_key(kind, pool, rng)
            if k is not None and k not in taken:
                taken.add(k)
                return k
        return None
    units = []
    tnodes = list(tgt["nodes"])
    collided = []

    def collide_unit(k, w, md):
        """the hyperedge k comes out of remove_node(keep_edges=True) calls whose shrunken hyperedges MEET a hyperedge that is
        there already (k itself, or another shrunken one): the documented effect is that of add_edge on an existing
        hyperedge - weights add up (weighted), the record of the shrunken hyperedge replaces the one that was there"""
        forms = ["base", "base", "two", "three", "chain"] + (["sides", "sides"] if kind == "D" else [])
        form = rng.choice(forms)
        nv = 1 if form in ("base", "sides") else 2
        if len(extra) < nv:
            return False
        vs = [fresh_node() for _ in range(nv)]
        nparts = 3 if form == "three" else 2
        ws = split_parts(w, nparts, rng) if weighted else [None] * nparts
        if len(ws) != nparts:
            extra.extend(vs)
            return False
        jk = lambda: junk_for(md, rng) if rng.random() < 0.8 else None

        def add(key, wt, m):
            taken.add(key)
            return ["addedge", perm_key(kind, key, rng), wt, m]
        if form == "base":
            ins = [add(k, ws[0], jk()), add(key_with(kind, k, vs[0], rng), ws[1], md)]
            rng.shuffle(ins)
        elif form == "two":
            ins = [add(key_with(kind, k, vs[0], rng), ws[0], jk()), add(key_with(kind, k, vs[1], rng), ws[1], md)]
            rng.shuffle(ins)
        elif form == "three":
            ins = [add(k, ws[0], jk()), add(key_with(kind, k, vs[0], rng), ws[1], jk()),
                   add(key_with(kind, k, vs[1], rng), ws[2], md)]
            rng.shuffle(ins)
        elif form == "chain":
            big = key_with(kind, key_with(kind, k, vs[0], rng), vs[1], rng)
            taken.add(key_without(kind, big, vs[0]))
            ins = [add(k, ws[0], jk()), add(big, ws[1], md)]
            rng.shuffle(ins)
        else:
            # directed: the node on the source side of one hyperedge and on the target side of another one, both
            # shrink to k in ONE call (same record on both: which of them is handled last is not documented)
            ins = [add(canon_key(kind, (list(k[0]) + [vs[0]], k[1])), ws[0], md),
                   add(canon_key(kind, (k[0], list(k[1]) + [vs[0]])), ws[1], md)]
            rng.shuffle(ins)
        if len(vs) == 2 and kind != "M" and rng.random() < 0.5:
            rm = [["rmnodes", list(vs), 1]]
        else:
            rm = [["rmnode", v, 1] for v in vs]
        u = ins + rm
        # the merged hyperedge is used afterwards like any other one
        r2 = rng.random()
        if r2 < 0.15:
            u += [["rmedge", perm_key(kind, k, rng)], ["addedge", perm_key(kind, k, rng), w, md]]
        elif r2 < 0.3 and weighted:
            u += [["setw", perm_key(kind, k, rng), gen_weight(rng, True, kind)], ["setw", perm_key(kind, k, rng), w]]
        elif r2 < 0.45:
            f = rng.choice([x for x in WORDS if x not in md])
            u += [["seteattr", perm_key(kind, k, rng), f, gen_value(rng, 1)], ["deleattr", perm_key(kind, k, rng), f]]
        elif r2 < 0.55 and can_set:
            u += repeated(lambda v: ["setem", perm_key(kind, k, rng), v], md, rng, n=1)
        units.append(u)
        collided.append(k)
        return True
    # --- nodes
    for n, md in tgt["nodes"].items():
        in_edge = any(n in key_nodes(kind, k) for k in tgt["edges"])
        r = rng.random() if fancy else 0.0
        if fancy and not in_edge and r < 0.2:
            # an isolated node removed and added again: nothing of its first record survives (hyperedges that other
            # calls hung on it in between go with it; they were detours)
            units.append([["addnode", n, junk_for(md, rng)], ["rmnode", n, 0],
                          ["addnode", n, md if (md or rng.random() < 0.5) else None]])
            used.add("readd")
        elif r < 0.45:
            if md == {} and in_edge and fancy and rng.random() < 0.5:
                units.append([])                       # created by its hyperedges
            elif fancy and md and rng.random() < 0.3:
                # add_node again: a node that has a non-empty record keeps it, an empty record is filled
                u = [["addnode", n, None if rng.random() < 0.5 else {}]] if rng.random() < 0.5 else []
                u.append(["addnode", n, md])
                for _ in range(rng.choice([1, 1, 2])):
                    u.append(["addnode", n, junk_for(md, rng) if rng.random() < 0.8 else None])
                units.append(u)
                used.add("repeat")
            else:
                units.append([["addnode", n, md if (md or rng.random() < 0.5) else None]])
        elif r < 0.7:
            # metadata completed field by field through the attribute-level setters (the only way for Multiplex)
            pre = prefix_dict(md, rng)
            units.append([["addnode", n, pre if (pre or rng.random() < 0.5) else None]] +
                         attr_build("setnattr", "delnattr", n, md, rng, have=pre))
            used.add("attr-build")
        elif not can_set:
            units.append([["addnode", n, md if (md or rng.random() < 0.5) else None]])
        elif r < 0.85:
            units.append([["addnode", n, None]] + repeated(lambda v: ["setnm", n, v], md, rng))
            used.add("overwrite")
        else:
            # the whole-record setter called two / three times for one node: only the last record counts
            units.append([["addnode", n, gen_dict(rng, p_empty=0.1)]] + repeated(lambda v: ["setnm", n, v], md, rng))
            used.add("overwrite")
    # --- hyperedges
    for k, (w, md) in tgt["edges"].items():
        r = rng.random() if fancy else 0.0
        pk = (lambda: perm_key(kind, k, rng)) if fancy else (lambda: opkey(kind, k))
        if r < 0.25:
            units.append([["addedge", pk(), w, md if (md or rng.random() < 0.5) else None]])
        elif r < 0.4:
            pre = prefix_dict(md, rng)
            units.append([["addedge", pk(), w, pre if (pre or rng.random() < 0.5) else None]] +
                         attr_build("seteattr", "deleattr", pk, md, rng, have=pre))
            used.add("attr-build")
        elif r < 0.5 and ((weighted and can_split(w)) or (not weighted and rng.random() < 0.5)):
            # the hyperedge is inserted two / three times: weights add up (weighted), the metadata of the last call replace
            # the earlier ones - also when the last call passes none
            parts = split_parts(w, rng.choice([2, 2, 3]), rng) if weighted else [None] * rng.choice([2, 2, 3])
            u = [["addedge", pk(), a, (gen_dict(rng) if rng.random() < 0.4 else junk_for(md, rng))] for a in parts[:-1]]
            u.append(["addedge", pk(), parts[-1], md if (md or rng.random() < 0.5) else None])
            units.append(u)
            used.add("split")
        elif r < 0.6 and can_set:
            units.append([["addedge", pk(), w, gen_dict(rng, p_empty=0.1)]] + repeated(lambda v: ["setem", pk(), v], md, rng))
            used.add("overwrite")
        elif r < 0.7 and weighted:
            u = [["addedge", pk(), gen_weight(rng, True, kind), md]]
            for _ in range(rng.choice([0, 0, 1, 2])):
                u.append(["setw", pk(), gen_weight(rng, True, kind)])
            units.append(u + [["setw", pk(), w]])
            used.add("overwrite")
        elif r < 0.8 and fancy and (not weighted or can_split(w)) and collide_unit(k, w, md):
            used.add("collide")
        elif r < 0.85:
            v = fresh_node()
            if v is None:
                units.append([["addedge", pk(), w, md]])
            else:
                kv = key_with(kind, k, v, rng)
                taken.add(kv)
                units.append([["addedge", perm_key(kind, kv, rng), w, md], ["rmnode", v, 1]])
                used.add("shrink")
        else:
            # removed and inserted again: nothing of the first life (weight, record) may survive - also when the second
            # insertion passes no record
            first = ["addedge", pk(), w, md]
            if fancy and rng.random() < 0.6:
                first = ["addedge", pk(), gen_weight(rng, weighted, kind), junk_for(md, rng)]
            units.append([first, ["rmedge", pk()], ["addedge", pk(), w, md if (md or rng.random() < 0.5) else None]])
            used.add("readd")
    # --- hypergraph metadata
    head = []
    if fancy and rng.random() < 0.3:
        u = [["sethm", gen_dict(rng)]]
        if rng.random() < 0.4:
            u.append(["sethm", junk_for(final_hmeta(tgt), rng)])
        units.append(u + [["sethm", final_hmeta(tgt)]])
        used.add("overwrite")
    elif fancy and rng.random() < (0.75 if (kind == "M" and any(f in LAYERS or f == DS_KEY for f in (tgt["user_hm"] or {}))) else 0.4):
        # constructor with a part of the hypergraph metadata, the rest field by field: set_attr_to_hypergraph_metadata,
        # for the records of layers / of the dataset of a multiplex hypergraph set_layer_metadata / set_dataset_metadata;
        # each of them called one to three times for its field (every call REPLACES what the field held), also for a
        # field that the constructor was given already
        uhm = tgt["user_hm"] or {}
        part = prefix_dict(uhm, rng)
        later = [f for f in uhm if f not in part and f not in ("weighted", "type")]
        again = [f for f in part if f not in ("weighted", "type") and rng.random() < 0.3]
        for f in later:
            if rng.random() < 0.3:
                part[f] = junk_for(uhm[f], rng)
        head = [["ctor", weighted, (part if (part or rng.random() < 0.5) else None), None, None, None, None, False]]
        for f in later + again:
            units.append(repeated(hm_setter(kind, f, rng), uhm[f], rng, n=(rng.choice([1, 1, 2]) if f in again else None)))
            used.add("repeat")
        used.add("attr-build")
    # --- content-neutral detours
    if fancy:
        for _ in range(rng.randint(0, 3)):
            r = rng.random()
            if r < 0.3:
                x = fresh_key(tnodes)
                if x is not None:
                    units.append([["addedge", perm_key(kind, x, rng), gen_weight(rng, weighted, kind), gen_dict(rng)],
                                  ["rmedge", perm_key(kind, x, rng)]])
                    used.add("edge-detour")
            elif r < 0.55:
                v = fresh_node()
                if v is not None:
                    units.append([["addnode", v, gen_dict(rng) if rng.random() < 0.7 else None],
                                  ["rmnode", v, rng.randint(0, 1)]])
                    used.add("node-detour")
            elif r < 0.8:
                # a temporary node with 1-3 incident hyperedges; remove_node takes them all away again
                v = fresh_node()
                if v is not None and tnodes:
                    u = []
                    for _ in range(rng.choice([1, 2, 2, 3])):
                        base = fresh_key(tnodes)
                        if base is None:
                            continue
                        x = key_with(kind, base, v, rng)
                        if x in taken:
                            continue
                        taken.add(x)
                        u.append(["addedge", perm_key(kind, x, rng), gen_weight(rng, weighted, kind), gen_dict(rng)])
                    if u:
                        if len(u) >= 2:
                            used.add("multi-incidence-detour")
                        if rng.random() < 0.5:
                            u.insert(0, ["addnode", v, gen_dict(rng)])
                        u.append(["rmnode", v, 0])
                        units.append(u)
                        used.add("node-detour")
            else:
                v = fresh_node()
                if v is not None and tnodes:
                    base = fresh_key(tnodes)
                    if base is not None:
                        x = key_with(kind, base, v, rng)
                        taken.add(x)
                        f = key_without(kind, x, v)
                        u = [["addedge", perm_key(kind, x, rng), gen_weight(rng, weighted, kind), gen_dict(rng)],
                             ["rmnode", v, 1]]
                        if f is not None:
                            u.append(["rmedge", perm_key(kind, f, rng)])
                        units.append(u)
                        used.add("node-detour")
                        used.add("shrink")
    # --- calls that must be rejected and leave everything as it is
    if fancy and rng.random() < 0.3:
        for _ in range(rng.randint(1, 2)):
            r = rng.random()
            v = fresh_node()
            if r < 0.3 and v is not None:
                units.append([["rmnode", v, rng.randint(0, 1)]])
            elif r < 0.5 and v is not None and can_set:
                units.append([["setnm", v, gen_dict(rng)]])
            elif r < 0.8:
                x = fresh_key(tnodes)
                if x is not None:
                    units.append([["rmedge", perm_key(kind, x, rng)]])
            elif not weighted:
                x = fresh_key(tnodes)
                if x is not None:
                    units.append([["addedge", perm_key(kind, x, rng), rng.choice([2, 0.5, 2.5]), gen_dict(rng)]])
        used.add("rejected")
    ops = interleave(units, rng) if fancy else [o for u in units for o in u]
    # --- suffix: remove a real node and rebuild it
    if fancy and tnodes and rng.random() < (0.7 if collided else 0.4):
        u = rng.choice(tnodes)
        if collided and rng.random() < 0.7:
            # a member of a hyperedge that came out of a merge: removing it walks the incidence lists that the
            # remove_node(keep_edges=True) calls left behind
            u = rng.choice(key_nodes(kind, rng.choice(collided)))
        keep = rng.random() < 0.4
        inc = [k for k in tgt["edges"] if u in key_nodes(kind, k)]
        if keep and weighted:
            # shrunken hyperedges that meet an existing one (or each other) add their weights up: only where Python's +
            # is exact (ints of any size among themselves, small numbers on the 1/4 grid)
            groups = {}
            for k in inc:
                f = key_without(kind, k, u)
                if f is not None:
                    groups.setdefault(f, [tgt["edges"][f][0]] if (f in tgt["edges"] and f not in inc) else []).append(tgt["edges"][k][0])
            if any(len(ws) >= 2 and not sums_exact(ws) for ws in groups.values()):
                keep = False
        if rng.random() < 0.5:
            # marks on the node and its hyperedges that the removal must take away with them
            jf = rng.choice([x for x in WORDS if x not in tgt["nodes"][u]])
            ops.append(["setnattr", u, jf, gen_value(rng, 1)])
            for k in inc:
                if rng.random() < 0.6:
                    free = [x for x in WORDS if x not in tgt["edges"][k][1]]
                    ops.append(["seteattr", perm_key(kind, k, rng), rng.choice(free), gen_value(rng, 1)])
        ops.append(["rmnode", u, 1 if keep else 0])
        touched = []
        if keep:
            for k in inc:
                f = key_without(kind, k, u)
                if f is not None and f not in touched:
                    touched.append(f)
                    ops.append(["rmedge", perm_key(kind, f, rng)])
        ops.append(["addnode", u, tgt["nodes"][u]])
        for k in inc + [f for f in touched if f in tgt["edges"]]:
            w, md = tgt["edges"][k]
            ops.append(["addedge", perm_key(kind, k, rng), w, md])
        used.add("node-rebuild")
    # --- prefix: junk, clear, rebuild
    if fancy and kind != "M" and rng.random() < 0.25:
        pre = []
        pool = tnodes + tgt["extra"][:2]
        junk = {}
        for _ in range(rng.randint(1, 4)):
            if rng.random() < 0.4:
                pre.append(["addnode", rng.choice(pool), gen_dict(rng)])
            else:
                k = gen_key(kind, pool, rng)
                if k is not None:
                    # a junk key drawn a second time adds its weights up, and a probe may look at the object before the
                    # clear(): only where Python's + is exact (thorough seed 5: 0.75 + (2**63 - 1) is 2.0**63 in the code)
                    pk, w = perm_key(kind, k, rng), gen_weight(rng, weighted, kind)
                    for _ in range(6):
                        if not weighted or sums_exact(junk.get(k, []) + [w]):
                            break
                        w = gen_weight(rng, weighted, kind)
                    else:
                        continue
                    junk.setdefault(k, []).append(w)
                    pre.append(["addedge", pk, w, gen_dict(rng)])
        pre.append(["clear"])
        pre.append(["sethm", final_hmeta(tgt)])
        ops = pre + ops
        used.add("clear")
    if fancy and kind != "M" and rng.random() < 0.25:
        # from here on the history continues on obj.copy(); the original must stay as it is
        ops.insert(rng.randint(0, len(ops)), ["fork"])
        used.add("fork")
    return head + ops, used


def gen_batched(tgt, rng):
    """the target built through the batched calls add_nodes / add_edges or through the constructor with lists, with
    and without metadata arguments; metadata that was not passed is completed afterwards (attribute-level setters,
    sometimes the whole-dictionary setters); a batched removal detour"""
    kind, weighted = tgt["kind"], tgt["weighted"]
    can_set = kind != "M"
    used = {"batched"}
    ns = list(tgt["nodes"])
    rng.shuffle(ns)
    ks = list(tgt["edges"])
    rng.shuffle(ks)
    if weighted:
        # weighted batches must not repeat a node tuple (Temporal/Multiplex test the node tuples only)
        seen, first, rest = set(), [], []
        for k in ks:
            nt = tuple(key_nodes(kind, k)) if kind in "TM" else k
            (rest if nt in seen else first).append(k)
            seen.add(nt)
    else:
        first, rest = ks, []
    mode = rng.choice(["calls", "calls", "ctor"])
    # pass the node metadata with the batch?  (DirectedHypergraph.add_nodes takes none; its constructor does)
    node_meta = (kind != "D" or mode == "ctor") and rng.random() < 0.35
    edge_meta = rng.random() < 0.35
    extra = list(tgt["extra"])
    detour = None
    if mode == "calls" and kind != "M" and len(ns) >= 2 and extra and rng.random() < 0.5:
        v = extra[0]
        base = gen_key(kind, ns, rng)
        if base is not None:
            x = key_with(kind, base, v, rng)
            if x not in tgt["edges"]:
                detour = (v, x)

    def complete_node(n):
        md = tgt["nodes"][n]
        if not md:
            return []
        if can_set and rng.random() < 0.25:
            return [["setnm", n, md]]
        return attr_build("setnattr", "delnattr", n, md, rng)

    def complete_edge(k):
        md = tgt["edges"][k][1]
        if not md:
            return []
        if can_set and rng.random() < 0.25:
            return [["setem", perm_key(kind, k, rng), md]]
        return attr_build("seteattr", "deleattr", lambda: perm_key(kind, k, rng), md, rng)

    node_ops, node_late, edge_ops, edge_late, head = [], [], [], [], []
    # ---- nodes
    if mode == "ctor":
        if node_meta or rng.random() < 0.5:
            # node_metadata lists every node; without `node_meta` all entries are {} and are completed afterwards
            nitems = [[n, tgt["nodes"][n] if node_meta else {}] for n in ns]
            later = []
            if not node_meta:
                node_late = [complete_node(n) for n in ns]
        else:
            nitems, later = None, ns
            node_meta = node_meta and kind != "D"
    else:
        nitems, later = None, ns
    if later:
        parts = [later]
        if len(later) >= 3 and rng.random() < 0.3:
            c = rng.randint(1, len(later) - 1)
            parts = [later[:c], later[c:]]
        if rng.random() < 0.15:
            parts.insert(rng.randint(0, len(parts)), [])          # an empty batch changes nothing
        pre_nodes = set()
        if node_meta and rng.random() < 0.3:
            # nodes that exist already with non-empty metadata keep it: the entry of the batch is ignored
            for n in later:
                if tgt["nodes"][n] and rng.random() < 0.5:
                    node_ops.append(["addnode", n, tgt["nodes"][n]])
                    pre_nodes.add(n)
        for part in parts:
            op = ["addnodes", part, [(gen_dict(rng, p_empty=0.1) if n in pre_nodes else tgt["nodes"][n]) for n in part]
                  if node_meta else None]
            if node_meta and rng.random() < 0.3:
                # the metadata dictionary may hold entries for other nodes: they are not inserted
                op.append([[x, gen_dict(rng)] for x in (tgt["extra"][-2:] + [n for n in ns if n not in part][:1])])
            node_ops.append(op)
        if not node_meta:
            node_late = [complete_node(n) for n in later]
        else:
            sub = [n for n in later if tgt["nodes"][n]]
            if sub and rng.random() < 0.35:
                # a second batch for nodes that have their records already: it changes nothing
                sub = rng.sample(sub, rng.randint(1, len(sub)))
                node_ops.append(["addnodes", sub, [junk_for(tgt["nodes"][n], rng) for n in sub]])
                used.add("repeat")
    # ---- hyperedges
    batch = list(first)
    ws = [tgt["edges"][k][0] for k in batch] if weighted else None
    mds = [tgt["edges"][k][1] for k in batch] if edge_meta else None
    if detour:
        batch.append(detour[1])
        if weighted:
            ws.append(1)
        if edge_meta:
            mds.append({"tmp": 1})
    if not weighted and batch and rng.random() < 0.3:
        # one hyperedge listed twice in the batch / in the constructor's list: the later entry is the one that counts
        i = rng.randrange(len(batch))
        j = rng.randint(0, i)
        if edge_meta:
            mds.insert(j, junk_for(mds[i], rng))
        batch.insert(j, batch[i])
        used.add("repeat")
    keys = [perm_key(kind, k, rng) for k in batch]
    if mode == "calls" and first and rng.random() < 0.3:
        # a hyperedge of the batch exists already: the batch adds its weight to it and REPLACES its metadata
        # (by `{}` when the batch has no metadata list)
        i = rng.randrange(len(first))
        k = first[i]
        if weighted and not can_split(tgt["edges"][k][0]):
            cands = [j for j, x in enumerate(first) if can_split(tgt["edges"][x][0])]
            i = rng.choice(cands) if cands else None
            k = first[i] if cands else None
        if k is None:
            a = None
        elif weighted:
            a, b = split_weight(tgt["edges"][k][0], rng)
            ws[i] = b
        else:
            a = None
        if k is not None:
            edge_ops.append(["addedge", perm_key(kind, k, rng), a, gen_dict(rng, p_empty=0.2)])
            used.add("split")
    if mode == "ctor":
        if batch or rng.random() < 0.3:
            head = [["ctor", weighted, tgt["user_hm"], nitems, keys, ws if batch else None, mds if batch else None,
                     kind in "TM" and rng.random() < 0.4]]
        else:
            head = [["ctor", weighted, tgt["user_hm"], nitems, None, None, None, False]]
    else:
        if batch:
            if len(batch) >= 3 and rng.random() < 0.25:
                c = rng.randint(1, len(batch) - 1)
                edge_ops.append(["addedges", keys[:c], ws[:c] if weighted else None, mds[:c] if edge_meta else None])
                edge_ops.append(["addedges", keys[c:], ws[c:] if weighted else None, mds[c:] if edge_meta else None])
            else:
                edge_ops.append(["addedges", keys, ws, mds])
        if rng.random() < 0.1:
            edge_ops.insert(rng.randint(0, len(edge_ops)), ["addedges", [], None, [] if edge_meta else None])
    if not edge_meta:
        edge_late = [complete_edge(k) for k in first]
    for k in rest:
        edge_late.append([["addedge", perm_key(kind, k, rng), tgt["edges"][k][0], tgt["edges"][k][1]]])
    if detour:
        u = []
        if rng.random() < 0.5:
            u.append(["rmedges", [perm_key(kind, detour[1], rng)]])
            u.append(["rmnodes", [detour[0]], rng.randint(0, 1)])
        else:
            u.append(["rmnodes", [detour[0]], 0])
        edge_late.append(u)
        used.add("node-detour")
    if any(node_late) or any(edge_late):
        used.add("attr-build")
    # the completion of the node metadata comes right after the node batch (while the batch items have not been
    # touched by anything else) or is interleaved with everything that follows
    if rng.random() < 0.5:
        ops = node_ops + interleave(node_late, rng) + edge_ops + interleave(edge_late, rng)
    else:
        ops = node_ops + edge_ops + interleave(node_late + edge_late, rng)
    return head + ops, used


def list_paths(v, path=()):
    """paths to the lists inside a JSON value whose reversal is another value"""
    out = []
    if isinstance(v, dict):
        for k, x in v.items():
            out += list_paths(x, path + (k,))
    elif isinstance(v, list):
        if len(v) >= 2 and tsig(v[::-1]) != tsig(v):
            out.append(path)
        for i, x in enumerate(v):
            out += list_paths(x, path + (i,))
    return out


def reverse_at(v, path):
    if not path:
        return v[::-1]
    if isinstance(v, dict):
        out = dict(v)
        out[path[0]] = reverse_at(v[path[0]], path[1:])
        return out
    return v[:path[0]] + [reverse_at(v[path[0]], path[1:])] + v[path[0] + 1:]


def pick_weight_edge(t, rng):
    """a hyperedge for a weight edit: mostly one whose weight is large / off the grid when there is one"""
    odd = [k for k, (w, _) in t["edges"].items() if w is not None and (abs(w) >= 2 ** 24 or (isinstance(w, float) and not on_grid(w)))]
    if odd and rng.random() < 0.6:
        return rng.choice(odd)
    return rng.choice(list(t["edges"]))


def edit_target(tgt, rng):
    """one single-element edit of the content: (name, new target) or None"""
    kind = tgt["kind"]
    t = copy.deepcopy(tgt)
    # deepcopy turns nothing into lists here; keys stay tuples
    choices = ["node+", "hmeta"]
    # the order of a list inside a metadata value is part of the value
    lists = [("n", n, p) for n, md in t["nodes"].items() for p in list_paths(md)] + \
            [("e", k, p) for k, (w, md) in t["edges"].items() for p in list_paths(md)] + \
            [("h", None, p) for p in list_paths(t["user_hm"] or {}) if p[0] not in ("weighted", "type")]
    if lists:
        choices += ["lorder", "lorder"]
    iso = [n for n in t["nodes"] if not any(n in key_nodes(kind, k) for k in t["edges"])]
    if iso:
        choices.append("node-")
    if t["nodes"]:
        choices += ["nmeta", "edge+"]
    if t["edges"]:
        choices += ["edge-", "emeta", "emeta", "key"]
        if t["weighted"]:
            choices += ["wval", "wtype", "wtype"]
        if kind in "TM":
            choices += ["wtype"]
        if all(w is None or (w == 1 and isinstance(w, int)) for w, _ in t["edges"].values()):
            choices += ["weightedness", "wflag", "wflag"]
    else:
        choices += ["weightedness", "wflag"]
    recs = t.get("records")
    if recs:
        # a whole record replaced by another record of the pool (which other slots may hold already)
        choices += ["nrec", "nrec", "hrec"] + (["erec", "erec"] if t["edges"] else [])
    c = rng.choice(choices)
    if c in ("nrec", "erec", "hrec"):
        if c == "nrec":
            x = rng.choice(list(t["nodes"]))
            cur = t["nodes"][x]
        elif c == "erec":
            x = rng.choice(list(t["edges"]))
            cur = t["edges"][x][1]
        else:
            x, cur = None, (t["user_hm"] or {})
        others = [r for r in recs if tsig(norm(r)) != tsig(norm(cur))]
        if not others:
            return None
        new = copy.deepcopy(rng.choice(others))
        if c == "nrec":
            t["nodes"][x] = new
        elif c == "erec":
            t["edges"][x] = (t["edges"][x][0], new)
        else:
            if tsig(norm({k: v for k, v in new.items() if k not in ("weighted", "type")})) == \
                    tsig(norm({k: v for k, v in cur.items() if k not in ("weighted", "type")})):
                return None
            t["user_hm"] = new
    elif c == "lorder":
        where, x, path = rng.choice(lists)
        if where == "n":
            t["nodes"][x] = reverse_at(t["nodes"][x], path)
        elif where == "e":
            t["edges"][x] = (t["edges"][x][0], reverse_at(t["edges"][x][1], path))
        else:
            t["user_hm"] = reverse_at(t["user_hm"], path)
    elif c == "node+":
        if not t["extra"]:
            return None
        t["nodes"][t["extra"][0]] = {}
    elif c == "node-":
        del t["nodes"][rng.choice(iso)]
    elif c == "nmeta":
        n = rng.choice(list(t["nodes"]))
        t["nodes"][n] = edit_value(t["nodes"][n], rng)
    elif c == "hmeta":
        t["user_hm"] = edit_value(t["user_hm"] or {}, rng)
        if not t["user_hm"] and not tgt["user_hm"]:
            return None
    elif c == "edge+":
        k = None
        for _ in range(8):
            k = gen_key(kind, list(t["nodes"]), rng)
            if k is not None and k not in t["edges"]:
                break
            k = None
        if k is None:
            return None
        t["edges"][k] = (1 if t["weighted"] else None, {})
    elif c == "edge-":
        del t["edges"][rng.choice(list(t["edges"]))]
    elif c == "emeta":
        k = rng.choice(list(t["edges"]))
        w, md = t["edges"][k]
        t["edges"][k] = (w, edit_value(md, rng))
    elif c == "wval":
        k = pick_weight_edge(t, rng)
        w, md = t["edges"][k]
        if isinstance(w, int):
            t["edges"][k] = (w + rng.choice([1, 1, -1, 2]), md)      # the neighbouring integer, whatever the magnitude
        elif on_grid(w) and abs(w) < 64 and rng.random() < 0.5:
            t["edges"][k] = (w + 0.25, md)
        else:
            t["edges"][k] = (neighbour(w, rng), md)                   # the neighbouring double
    elif c == "wtype":
        k = pick_weight_edge(t, rng)
        w, md = t["edges"][k]
        if w is None:
            t["edges"][k] = (1.0, md)      # Temporal/Multiplex keep a given 1.0 also when unweighted
        elif isinstance(w, int):
            if abs(w) >= 2 ** 1023:
                return None
            t["edges"][k] = (float(w), md)
        elif w == int(w):
            t["edges"][k] = (int(w), md)
        else:
            return None
    elif c == "key":
        k = rng.choice(list(t["edges"]))
        v = t["edges"].pop(k)
        if kind == "T" and rng.random() < 0.7:
            k2 = (k[0] + 1, k[1])
            c = "time"
        elif kind == "M" and rng.random() < 0.7:
            k2 = (k[0], rng.choice([x for x in LAYERS if x != k[1]]))
            c = "layer"
        elif kind == "D":
            if rng.random() < 0.5 or len(k[0]) + len(k[1]) < 3:
                k2 = (k[1], k[0])
            elif len(k[0]) > 1:
                k2 = canon_key(kind, (k[0][1:], k[1] + (k[0][0],)))
            else:
                k2 = canon_key(kind, (k[0] + (k[1][0],), k[1][1:]))
            c = "direction"
        else:
            others = [n for n in t["nodes"] if n not in key_nodes(kind, k)]
            if not others:
                return None
            ns = key_nodes(kind, k)
            ns[rng.randrange(len(ns))] = rng.choice(others)
            k2 = canon_key(kind, ns if kind == "H" else ((k[0], ns) if kind == "T" else (ns, k[1])))
            c = "member"
        if k2 in t["edges"]:
            return None
        t["edges"][k2] = v
    elif c == "weightedness":
        t["weighted"] = not t["weighted"]
        t["edges"] = {k: ((1 if t["weighted"] else None), md) for k, (w, md) in t["edges"].items()}
    elif c == "wflag":
        # ONLY is_weighted() differs: the hypergraph metadata (which hold a copy of the constructor's flag) are the same
        t["weighted"] = not t["weighted"]
        t["edges"] = {k: ((1 if t["weighted"] else None), md) for k, (w, md) in t["edges"].items()}
        t["hm_final"] = final_hmeta(tgt)
    return c, t


def edit_value(v, rng):
    """change exactly one atom (or add/remove one entry) somewhere inside a JSON value"""
    if isinstance(v, dict):
        if v and rng.random() < 0.7:
            k = rng.choice(list(v))
            out = dict(v)
            out[k] = edit_value(v[k], rng)
            return out
        if v and rng.random() < 0.5:
            out = dict(v)
            del out[rng.choice(list(v))]
            return out
        out = dict(v)
        ks = [w for w in WORDS if w not in v]
        out[rng.choice(ks)] = gen_value(rng, 2)
        return out
    if isinstance(v, list):
        if len(v) >= 2 and tsig(v[::-1]) != tsig(v) and rng.random() < 0.3:
            return v[::-1]                            # the order of a list is part of the value
        if v and rng.random() < 0.7:
            i = rng.randrange(len(v))
            return v[:i] + [edit_value(v[i], rng)] + v[i + 1:]
        return v + [gen_value(rng, 2)]
    if v is None:
        return False
    if isinstance(v, bool):
        return rng.choice([not v, int(v)])        # True vs 1 are different JSON values
    if isinstance(v, int):
        return rng.choice([v + 1, float(v) if abs(v) < 2 ** 1023 else v - 1])      # 1 vs 1.0 too
    if isinstance(v, float):
        if v + 0.25 != v and rng.random() < 0.6:
            return v + 0.25
        return neighbour(v, rng)
    return v + "x"


# ------------------------------------------------------------------------------------------ one case

def labels_of(histories, tgt):
    labs = set(tgt["nodes"]) | set(tgt["extra"])
    lays = set(LAYERS)
    return labs, lays


def first_diff(a, b):
    """short description of where two signatures (reprs of nested tuples/lists) part"""
    try:
        import ast
        x, y = ast.literal_eval(a), ast.literal_eval(b)
        names = ["class", "weighted", "hypergraph metadata", "nodes", "hyperedges"]
        for nm, u, v in zip(names, x, y):
            if u != v:
                if isinstance(u, list):
                    du = [e for e in u if e not in v]
                    dv = [e for e in v if e not in u]
                    return "%s: expected %r, observed %r" % (nm, du[:3], dv[:3])
                return "%s: expected %r, observed %r" % (nm, u, v)
    except Exception:
        pass
    return "expected %s, observed %s" % (a[:200], b[:200])


def expected_obs(tgt):
    """the content a target describes, in the shape of observe()"""
    return {"cls": TAG[tgt["kind"]], "weighted": tgt["weighted"], "hmeta": final_hmeta(tgt),
            "nodes": dict(tgt["nodes"]),
            "edges": {k: ((1 if w is None else w), md) for k, (w, md) in tgt["edges"].items()}}


def heap_line(raw, ser):
    """the metadata OBJECTS an exposure holds, as a heap of cells for `Model/C07Heap.lean` (one cell per dictionary /
    list object - an object met again is the same address -, atoms by value), the addresses of the metadata slots in
    exposure order, and what the implementation's `serialize` made of these slots: (line, expected answer)"""
    cells, addr = [], {}
    keep = []

    def put(v, depth=0):
        if depth > 40:
            raise ValueError("metadata nested deeper than 40 levels (a cycle?)")
        if isinstance(v, dict):
            if id(v) in addr:
                return addr[id(v)]
            fs = []
            for k, x in v.items():
                if not (isinstance(k, str) and k and all(c.isalnum() and c.isascii() or c == "_" for c in k)):
                    raise ValueError("key outside the wire alphabet: %r" % (k,))
                fs.append("%s:%d" % (k, put(x, depth + 1)))
            cells.append("o" + (",".join(fs) or "-"))
        elif isinstance(v, list):
            if id(v) in addr:
                return addr[id(v)]
            cells.append("l" + (",".join(str(put(x, depth + 1)) for x in v) or "-"))
        else:
            cells.append("a" + wire(v))
            return len(cells) - 1
        addr[id(v)] = len(cells) - 1
        keep.append(v)
        return addr[id(v)]
    slots = [e["metadata"] for e in raw["edges"]] + [raw["hypergraph_metadata"]] + [n["metadata"] for n in raw["nodes"]]
    sers = [e["metadata"] for e in ser["edges"]] + [ser["hypergraph_metadata"]] + [n["metadata"] for n in ser["nodes"]]
    if len(slots) != len(sers):
        raise ValueError("exposure and pre-image have different numbers of records")
    refs = [put(v) for v in slots]
    shared = len(refs) - len(set(refs))
    return ("heap %s %s" % ("|".join(cells), ",".join(map(str, refs)) or "-"),
            wire(slots) + " " + wire(sers), shared)


def batch_safe(drv, lines, expect):
    """drv.batch writes up to 256 lines before it reads: keep what is in flight well below the pipe buffers
    (long lines: numbers of hundreds of digits, one pre-image per call of a history)"""
    out, part, n_in, n_out = [], [], 0, 0
    for ln, ex in zip(lines, expect):
        size_out = len(ex[2]) + 8 if ex[0] != "ans" else 8
        if part and (n_in + len(ln) > 16000 or n_out + size_out > 16000):
            out += drv.batch(part)
            part, n_in, n_out = [], 0, 0
        part.append(ln)
        n_in += len(ln) + 1
        n_out += size_out
    if part:
        out += drv.batch(part)
    return out


def twin_ops(kind, obs):
    """plain single calls (fresh objects) that build the content `obs` shows; None when it is no content of a `kind` object"""
    try:
        weighted = obs["weighted"] is True
        ops = []
        for n, md in obs["nodes"].items():
            ops.append(["addnode", n, copy.deepcopy(md)])
        for k, (w, md) in obs["edges"].items():
            if not weighted and isinstance(w, int) and not isinstance(w, bool) and w == 1:
                w = None
            ops.append(["addedge", opkey(kind, k), w, copy.deepcopy(md)])
        ops.append(["sethm", copy.deepcopy(obs["hmeta"])])
        json.dumps(ops)
        return weighted, ops
    except Exception:
        return None


def run_history(ctx, drv, slot, kind, weighted, user_hm, ops, rank, lrank, case, probes):
    """returns list of probe results (dicts) - at the probe positions and at the end"""
    unrank = {v: k for k, v in rank.items()}
    unlrank = {v: k for k, v in lrank.items()}
    ctor = ops[0] if (ops and ops[0][0] == "ctor") else None
    P = Presenter(case.get("present"), kind, ops)
    free = P.mode == "free"          # the value-based model does not follow in-place edits of shared dictionaries
    try:
        h = make_ctor(kind, ctor, P) if ctor is not None else make(kind, weighted, user_hm, P)
    except Timeout:
        raise
    except Exception as e:
        ctx.violation(case, "constructor raised %r" % (e,))
        return None
    if free:
        lines = []
        expect = []
    elif ctor is not None:
        lines = [wire_ctor(kind, slot, ctor, rank, lrank)]
        expect = [("ans", "ok")]
    else:
        lines = ["new %d %s %d %s" % (slot, kind, 1 if weighted else 0, wire(user_hm or {}))]
        expect = [("ans", "ok")]
    results = []
    forks = []
    every = isinstance(probes, str)
    if every:
        probes = {len(ops) // 2}
    last = [None]

    def prefix_case(pos):
        # the whole history is kept (which dictionaries a `share` presentation keeps apart depends on all its calls)
        c = dict(case)
        c["at"] = pos
        c.pop("expect", None)
        c["probe_all"] = True
        return c

    def probe(pos, light=False):
        res = {"pos": pos}
        before = state_digest(h)
        try:
            d1, ser = hash_with_spy(h)
            jtext = LAST_TEXT[0]
            d2 = plain_hash(h)
            raw = h.expose_attributes_for_hashing()
        except Timeout:
            raise
        except Exception as e:
            ctx.violation({**case, "at": pos}, "hash_hypergraph raised %r on a hypergraph built through the public API" % (e,))
            return None
        after = state_digest(h)
        if before != after:
            ctx.violation({**case, "at": pos}, "computing the hash changed the hypergraph's state")
        if d1 != d2:
            ctx.violation({**case, "at": pos}, "hashing twice gives two digests")
        if not (isinstance(d1, str) and len(d1) == 64):
            note_disagree(ctx, {**case, "at": pos}, "digest is not a 64-character hex string: %r" % (d1,))
        try:
            if not light:
                hc = plain_hash(copy.deepcopy(h))
                if hc != d1:
                    ctx.violation({**case, "at": pos}, "a deep copy hashes differently")
        except Timeout:
            raise
        except Exception:
            pass
        res["digest"] = d1
        try:
            bad = wf_real(kind, h) if not light else []
            ctx.count("wf_checked")
            if bad:
                note_disagree(ctx, {**case, "at": pos}, "the tables of the real object violate WF (C07_wf_run): " + "; ".join(bad))
        except Timeout:
            raise
        except Exception as e:
            note_disagree(ctx, {**case, "at": pos}, "expose_data_structures() unusable: %r" % (e,))
        try:
            obs = observe(kind, h)
            res["sig"] = signature(kind, obs)
            res["obs"] = obs
        except Timeout:
            raise
        except Exception as e:
            res["sig"] = None
            ctx.count("unobservable")
        # the history step by step: the hash moves exactly when the content (as the getters show it) moves
        prev = last[0]
        if every and prev is not None and prev.get("sig") is not None and res["sig"] is not None:
            ctx.count("steps_compared")
            if prev["sig"] != res["sig"]:
                ctx.count("steps_content_changed")
            if (prev["sig"] == res["sig"]) != (prev["digest"] == d1):
                ctx.violation(prefix_case(pos), "one call (%s) %s" % (
                    ops[pos][0] if pos < len(ops) else "-",
                    "changed the content the getters show, but the hash computed after it is the hash computed before it"
                    if prev["sig"] != res["sig"] else
                    "left the content the getters show as it was, but the hash computed after it differs from the one "
                    "computed before it"))
        last[0] = res
        if free and res["sig"] is not None and (light is False):
            res["twin"] = twin_ops(kind, res["obs"])
        # model lines
        n_lines = len(lines)
        try:
            if not free and not light:
                lines.append("expose %d" % slot)
                expect.append(("expose", pos, wire(map_exposed(kind, raw, rank, lrank))))
                lines.append("pre %d" % slot)
                expect.append(("pre", pos, wire(map_exposed(kind, ser, rank, lrank)), d1, unrank, unlrank))
                lines.append("content %d" % slot)
                expect.append(("content", pos, wire(map_exposed(kind, ser, rank, lrank))))
                # the JSON text itself (Model/C07Dumps.lean): `hashText pyFmt` of the model tables against json.dumps of the
                # rank-mapped pre-image, and `dumpsJ pyFmt` of the REAL pre-image against the text hash_hypergraph hashed
                if isinstance(jtext, str) and text_grid(ser):
                    if hashlib.sha256(jtext.encode("utf-8")).hexdigest() != d1:
                        note_disagree(ctx, {**case, "at": pos}, "hash_hypergraph is not sha256 of the utf-8 text json.dumps returned")
                    try:
                        w2 = wire2(ser)
                    except ValueError:
                        w2 = None
                    if w2 is not None and len(w2) < 12000:
                        lines.append("text %d" % slot)
                        expect.append(("text", pos, "=" + json.dumps(map_exposed(kind, ser, rank, lrank), sort_keys=True)))
                        lines.append("dumps " + w2)
                        expect.append(("dumps", pos, "=" + jtext))
                        ctx.count("json_texts_compared")
            elif not free:
                lines.append("pre %d" % slot)
                expect.append(("pre", pos, wire(map_exposed(kind, ser, rank, lrank)), d1, unrank, unlrank))
            if res["sig"] is not None and (free or not light):
                cs = slot + 50
                o = res["obs"]
                lines.append("cnew %d %s %d %s" % (cs, kind, 1 if o["weighted"] else 0, wire(o["hmeta"])))
                expect.append(("ans", "ok"))
                for n, md in o["nodes"].items():
                    lines.append("cnode %d %d %s" % (cs, rank[n], wire(md)))
                    expect.append(("ans", "ok"))
                for k, (w, md) in o["edges"].items():
                    lines.append("cedge %d %s %s %s" % (cs, wire_key(kind, k, rank, lrank), wire(w), wire(md)))
                    expect.append(("ans", "ok"))
                lines.append("canon %d" % cs)
                expect.append(("canon", pos, wire(map_exposed(kind, ser, rank, lrank)), d1, unrank, unlrank))
            if not light and P.mode != "fresh":
                # the real object graph of the metadata slots (which slots hold one object) against the heap model
                ln, want_heap, n_sh = heap_line(raw, ser)
                lines.append(ln)
                expect.append(("heap", pos, want_heap))
                ctx.count("heaps_compared")
                if n_sh:
                    ctx.count("heaps_with_slots_sharing_an_object")
        except Timeout:
            raise
        except Exception as e:
            # pre-image not expressible on the wire: the implementation produced something that is not the
            # documented record shape; the digest-level oracles still run
            del lines[n_lines:]
            del expect[n_lines:]
            note_disagree(ctx, {**case, "at": pos}, "pre-image is not a JSON tree of the documented shape: %r" % (e,))
        return res
    if every:
        r = probe(-1, light=True)
    for i, op in enumerate(ops):
        if op[0] == "ctor":
            if i != 0:
                raise AssertionError("ctor inside a history")
            continue
        if op[0] == "fork":
            # go on with a copy; the original is kept and must not change any more (the model is value-based:
            # copying is the identity on tables)
            try:
                d0 = plain_hash(h)
                sig0 = signature(kind, observe(kind, h))
                c = h.copy()
                dc = plain_hash(c)
            except Timeout:
                raise
            except Exception as e:
                ctx.violation({**case, "at": i}, "copy() / hash of the copy raised %r" % (e,))
                return None
            if dc != d0:
                ctx.violation({**case, "at": i}, "copy() hashes differently from its original")
            forks.append((h, d0, sig0, i))
            h = c
            ctx.count("forks")
            continue
        a = apply_op(kind, h, op, P)
        if op[0] in BATCHED and a != "ok":
            note_disagree(ctx, {**case, "op": op}, "a valid batched call was rejected")
            return None
        if not free:
            for ln in wire_ops(kind, slot, op, rank, lrank):
                lines.append(ln)
                expect.append(("ans", a, i, op))
        if every or i in probes:
            r = probe(i, light=(every and i not in probes and not free))
            if r is not None:
                results.append(r)
            elif every:
                return None
    r = probe(len(ops))
    if r is None:
        return None
    r["obj"] = h
    r["shared"] = P.shared
    results.append(r)
    ctx.count("present:" + P.mode)
    if P.shared:
        ctx.count("histories_with_shared_objects")
    for orig, d0, sig0, at in forks:
        try:
            d1 = plain_hash(orig)
            sig1 = signature(kind, observe(kind, orig))
        except Timeout:
            raise
        except Exception as e:
            ctx.violation({**case, "at": at}, "the original of a copy cannot be hashed / read any more after its copy was "
                                              "edited: %r" % (e,))
            continue
        if d1 != d0 or sig1 != sig0:
            ctx.violation({**case, "at": at}, "a hypergraph's %s changed although no method was called on it (only its "
                                              "copy() was edited)" % ("hash" if d1 != d0 else "content"))
    want = case.get("expect")
    if want is not None and not free and r.get("sig") is not None and r["sig"] != want:
        ctx.count("unexpected_content")
        ctx.violation(case, "the calls of this history describe one content (each call applied to its own node / "
                            "hyperedge, as documented) but the getters show another one, so it hashes differently from "
                            "every other construction of that content: " + first_diff(want, r["sig"]))
    if drv is not None and lines:
        answers = batch_safe(drv, lines, expect)
        for ln, a, ex in zip(lines, answers, expect):
            if ex[0] == "ans":
                if a != ex[1]:
                    note_disagree(ctx, {**case, "line": ln}, "model answers %r to %r, implementation %r" % (a, ln, ex[1]))
                    break
            elif a != ex[2]:
                what = {"expose": "expose_attributes_for_hashing() differs from the model's expose?",
                        "pre": "serialized pre-image differs from the model's preimage?",
                        "content": "serialized pre-image differs from canon(content(model tables))",
                        "canon": "serialized pre-image differs from canon(content observed through the getters)",
                        "text": "json.dumps(pre-image, sort_keys=True) differs from the model's hashText (Model/C07Dumps.lean)",
                        "dumps": "the text hash_hypergraph hands to SHA-256 differs from the model's dumpsJ of the same pre-image",
                        "heap": "values / serialize() results of the metadata objects (addresses = objects, so slots that "
                                "hold ONE object have one address) differ from the heap model (C07_serialize_by_reference)"}[ex[0]]
                if ex[0] == "canon":
                    # the implementation's pre-image is not a function of its observable content (stale table)
                    ctx.extra.setdefault("canon_mismatch", 0)
                    ctx.extra["canon_mismatch"] += 1
                note_disagree(ctx, {**case, "at": ex[1], "line": ln}, what + ": model %s, implementation %s" % (a[:300], ex[2][:300]))
                break
            elif ex[0] in ("pre", "canon"):
                # end to end: real dumps + real SHA-256 of the model's tree is the real hash
                try:
                    tree = unmap_tree(kind, unwire(a), ex[4], ex[5])
                    d = hashlib.sha256(json.dumps(tree, sort_keys=True).encode("utf-8")).hexdigest()
                    if d != ex[3]:
                        note_disagree(ctx, {**case, "at": ex[1]}, "sha256(json.dumps(model pre-image)) != hash_hypergraph")
                        break
                except Exception as e:
                    note_disagree(ctx, {**case, "at": ex[1]}, "model pre-image not convertible: %r" % (e,))
                    break
    return results


KIND_OF = {"Hypergraph": "H", "DirectedHypergraph": "D", "TemporalHypergraph": "T", "MultiplexHypergraph": "M"}


def derive_routes(kind, h, pick):
    """objects that OTHER parts of the library make out of h: [(route, object)]; a route that raises is skipped (whether
    these routes work is the subject of other properties - C07 only asks what the fingerprint of their results is)"""
    import os
    import pickle
    import tempfile
    out = []

    def attempt(name, f):
        try:
            g = f()
        except Timeout:
            raise
        except Exception:
            return
        if isinstance(g, dict):
            for key, x in list(g.items())[:3]:
                out.append(("%s[%r]" % (name, key), x))
        elif g is not None:
            out.append((name, g))
    routes = [("pickle", lambda: pickle.loads(pickle.dumps(h)))]
    if kind != "M":
        routes.append(("copy()", lambda: h.copy()))
    if kind == "H":
        routes.append(("subhypergraph(all nodes)", lambda: h.subhypergraph(list(h.get_nodes()))))
        routes.append(("subhypergraph(some nodes)", lambda: h.subhypergraph(list(h.get_nodes())[: max(1, len(h.get_nodes()) - 1)])))
    if kind == "M":
        routes.append(("aggregated_hypergraph()", lambda: h.aggregated_hypergraph()))
    if kind == "T":
        routes.append(("aggregate(2)", lambda: h.aggregate(2)))
        routes.append(("subhypergraph(0, 3)", lambda: h.subhypergraph(0, 3)))

    def via_file(binary):
        from hypergraphx.readwrite.save import save_hypergraph
        from hypergraphx.readwrite.load import load_hypergraph
        d = tempfile.mkdtemp(prefix="c07_")
        fn = os.path.join(d, "h.hgx" if binary else "h.json")
        try:
            with contextlib.redirect_stdout(io.StringIO()):
                save_hypergraph(h, fn, binary=binary)
                return load_hypergraph(fn)
        finally:
            try:
                if os.path.exists(fn):
                    os.remove(fn)
                os.rmdir(d)
            except OSError:
                pass
    routes.append(("save/load hgx", lambda: via_file(True)))
    routes.append(("save/load json", lambda: via_file(False)))
    for i, (name, f) in enumerate(routes):
        if (pick >> i) & 1:
            attempt(name, f)
    return out


def check_derived(ctx, case, kind, h, sub):
    """an object made by another part of the library out of a history's result and a hypergraph built by plain calls
    from fresh objects with the content the derived object SHOWS (getters): same content, same container type => same hash"""
    pick = zlib.crc32(json.dumps(sub.get("history"), default=repr).encode())
    for route, g in derive_routes(kind, h, pick):
        k2 = KIND_OF.get(type(g).__name__)
        if k2 is None:
            continue
        ctx.count("derived:" + route.split("[")[0])
        try:
            obs = observe(k2, g)
            sig = signature(k2, obs)
        except Timeout:
            raise
        except Exception:
            ctx.count("derived_unobservable")
            continue
        tw = twin_ops(k2, obs)
        if tw is None:
            ctx.count("derived_not_json")
            continue
        where = {**sub, "derived": route}
        try:
            d = plain_hash(g)
        except Timeout:
            raise
        except Exception as e:
            ctx.violation(where, "hash_hypergraph raised %r on the hypergraph that %s made out of this history's result "
                                 "(its getters show a JSON-representable content)" % (e, route))
            continue
        try:
            t = make(k2, tw[0], None)
            for op in tw[1]:
                apply_op(k2, t, op)
            tsg = signature(k2, observe(k2, t))
            dt = plain_hash(t)
        except Timeout:
            raise
        except Exception:
            ctx.count("derived_twin_not_built")
            continue
        if tsg != sig:
            ctx.count("derived_twin_not_built")
            continue
        ctx.count("derived_twins_compared")
        if d != dt:
            ctx.violation(where, "the hypergraph that %s made out of this history's result and a hypergraph built by plain "
                                 "calls show the same content through the getters but hash differently" % route)
        try:
            if plain_hash(g) != d:
                ctx.violation(where, "hashing the hypergraph that %s made twice gives two digests" % route)
        except Timeout:
            raise
        except Exception:
            pass


def check_case(ctx, drv, case):
    """case = {kind, weighted, user_hm, labels, histories:[ops..], present:[spec..], edits:[{name, weighted, user_hm, ops,
    present}..], free:[{ops, present}..]}"""
    kind = case["kind"]
    labs = sorted(case["labels"])
    rank = {x: i for i, x in enumerate(labs)}
    lrank = {x: i for i, x in enumerate(sorted(LAYERS))}
    ends = []
    objs = []
    signal.signal(signal.SIGALRM, _alarm)
    slot = 0
    present = list(case.get("present") or [])
    present += [None] * (len(case["histories"]) - len(present))

    def go(sub, weighted, user_hm, ops, probes):
        nonlocal slot
        signal.alarm(20)
        try:
            res = run_history(ctx, drv, slot, kind, weighted, user_hm, ops, rank, lrank, sub, probes)
        except Timeout:
            ctx.violation(sub, "history did not finish within 20 s")
            res = None
        finally:
            signal.alarm(0)
        slot += 1
        if res is not None and res[-1].get("obj") is not None:
            objs.append((res[-1]["obj"], res[-1]["digest"], sub))
        return res
    for hi, ops in enumerate(case["histories"]):
        sub = {"kind": kind, "weighted": case["weighted"], "user_hm": case["user_hm"], "labels": labs, "history": ops}
        if present[hi] is not None:
            sub["present"] = present[hi]
        if case.get("expect") is not None:
            sub["expect"] = case["expect"]
        probes = case.get("probes", {}).get(str(hi), [])
        probes = "all" if (probes == "all" or case.get("probe_all")) else set(probes)
        res = go(sub, case["weighted"], case["user_hm"], ops, probes)
        ends.append(None if res is None else res[-1])

    def pair_of(i, j):
        pair = {"kind": kind, "weighted": case["weighted"], "user_hm": case["user_hm"], "labels": labs,
                "histories": [case["histories"][i], case["histories"][j]], "present": [present[i], present[j]]}
        if case.get("same_target"):
            pair["same_target"] = True
        return pair
    # equality direction: equal observed content => equal hash (and conversely)
    n_equal = 0
    for i in range(len(ends)):
        for j in range(i + 1, len(ends)):
            a, b = ends[i], ends[j]
            if a is None or b is None or a["sig"] is None or b["sig"] is None:
                continue
            pair = pair_of(i, j)
            if a["sig"] == b["sig"]:
                n_equal += 1
                if a["shared"] or b["shared"]:
                    ctx.count("pairs_equal_content_with_shared_objects")
                if a["digest"] != b["digest"]:
                    ctx.violation(pair, "two histories end in the same content (nodes, hyperedges, weights, metadata as the "
                                        "getters show them) but hash differently" + sharing_note(a, b))
            elif a["digest"] == b["digest"]:
                ctx.violation(pair, "two histories end in different contents but hash equally")
            elif case.get("same_target"):
                # both histories build the SAME content call by call (single insertions vs batched insertions vs the
                # constructor, then the same attribute edits): the getters of the two objects must agree
                ctx.count("same_target_differs")
                ctx.violation(pair, "two histories whose calls build the same content (single / batched insertions, "
                                    "constructor with lists, whole-dictionary / attribute-level metadata setters, each call "
                                    "applied to its own node / hyperedge) hash differently; the getters of the two objects show: "
                              + first_diff(a["sig"], b["sig"]))
    ctx.count("pairs_equal_content", n_equal)
    ctx.count("pairs_total", len(ends) * (len(ends) - 1) // 2)
    # histories whose dictionaries are shared freely (an in-place edit shows in every holder): the content is what the
    # getters show; the same content built from fresh objects by plain calls must hash the same - at the end and at
    # one earlier position
    for fr in case.get("free", []):
        ops, spec = fr["ops"], fr["present"]
        sub = {"kind": kind, "weighted": case["weighted"], "user_hm": case["user_hm"], "labels": labs, "history": ops,
               "present": spec}
        res = go(sub, case["weighted"], case["user_hm"], ops, "all")
        if res is None:
            continue
        ctx.count("free_histories")
        stops = [r for r in res if r.get("twin") is not None and r.get("sig") is not None]
        pick = stops[-1:]
        mids = [r for r in stops[:-1] if r["pos"] >= 0]
        if mids:
            pick.append(mids[zlib.crc32(repr(ops).encode()) % len(mids)])
        for r in pick:
            tw_weighted, tw = r["twin"]
            pre = ops[:r["pos"] + 1]
            tsub = {"kind": kind, "weighted": tw_weighted, "user_hm": None, "labels": labs, "history": tw}
            tres = go(tsub, tw_weighted, None, tw, set())
            if tres is None or tres[-1]["sig"] is None:
                continue
            t = tres[-1]
            if t["sig"] != r["sig"]:
                ctx.count("twin_not_built")
                continue
            ctx.count("twins_compared")
            if r["digest"] != t["digest"]:
                ctx.violation({"kind": kind, "weighted": case["weighted"], "user_hm": case["user_hm"], "labels": labs,
                               "histories": [], "free": [{"ops": pre, "present": spec}]},
                              "a hypergraph whose metadata slots share dictionary / list objects (history `free`, "
                              "objects handed over as its `present` says) and a hypergraph built by plain calls from fresh "
                              "objects show the same content through the getters but hash differently")
        ends.append(res[-1])
    # every pair of final states of this case, whatever the construction: content partition = digest partition
    for i in range(len(case["histories"]), len(ends)):
        for j in range(i):
            a, b = ends[i], ends[j]
            if a is None or b is None or a["sig"] is None or b["sig"] is None:
                continue
            if (a["sig"] == b["sig"]) != (a["digest"] == b["digest"]):
                ctx.violation({k: v for k, v in case.items() if k != "edits"},
                              "two hypergraphs of this case: contents %s, hashes %s" % (
                                  "equal" if a["sig"] == b["sig"] else "differ",
                                  "equal" if a["digest"] == b["digest"] else "differ"))
    # difference direction: single-element edits
    base = ends[0] if ends else None
    edited = []
    for ed in case.get("edits", []):
        sub = {"kind": kind, "weighted": ed["weighted"], "user_hm": ed["user_hm"], "labels": labs, "history": ed["ops"],
               "edit": ed["name"]}
        if ed.get("present") is not None:
            sub["present"] = ed["present"]
        if ed.get("expect") is not None:
            sub["expect"] = ed["expect"]
        res = go(sub, ed["weighted"], ed["user_hm"], ed["ops"], set())
        if res is None or res[-1]["sig"] is None:
            continue
        e = res[-1]
        if base is None or base["sig"] is None:
            edited.append((ed, e))
            continue
        pair = {"kind": kind, "weighted": case["weighted"], "user_hm": case["user_hm"], "labels": labs,
                "histories": [case["histories"][0]], "present": [present[0]], "edits": [ed]}
        ctx.count("edit:" + ed["name"])
        if e["sig"] != base["sig"]:
            ctx.count("edits_effective")
            if e["shared"] and base["shared"]:
                ctx.count("edits_between_sharing_builds")
            if e["digest"] == base["digest"]:
                ctx.violation(pair, "content edited (%s) but the hash did not change" % ed["name"] + sharing_note(base, e))
        elif e["digest"] != base["digest"]:
            ctx.violation(pair, "edit %s left the observed content equal but the hash changed" % ed["name"])
        edited.append((ed, e))
    # the edited contents among themselves: content and digest must induce the same partition
    for i in range(len(edited)):
        for j in range(i + 1, len(edited)):
            (ed1, a), (ed2, b) = edited[i], edited[j]
            if (a["sig"] == b["sig"]) != (a["digest"] == b["digest"]):
                ctx.violation({"kind": kind, "weighted": case["weighted"], "user_hm": case["user_hm"], "labels": labs,
                               "histories": [], "edits": [ed1, ed2]},
                              "two edited contents (%s, %s): contents %s, hashes %s" % (
                                  ed1["name"], ed2["name"], "equal" if a["sig"] == b["sig"] else "differ",
                                  "equal" if a["digest"] == b["digest"] else "differ"))
            ctx.count("edit_pairs")
    # objects that other parts of the library make out of the results (copies, pickles, files, sub- and aggregated
    # hypergraphs): their fingerprint is that of their content
    for h, d, sub in objs[:len(case["histories"])][:2] if case.get("derive", True) else []:
        if "history" not in sub:
            continue
        signal.alarm(20)
        try:
            check_derived(ctx, case, kind, h, sub)
        except Timeout:
            ctx.violation(sub, "deriving / hashing objects from this history's result did not finish within 20 s")
        finally:
            signal.alarm(0)
    # all objects of the case are still alive: hashing them again, in another order, gives the digests of before
    # (nothing is kept between calls of hash_hypergraph)
    for h, d, sub in list(reversed(objs)) + objs[:2]:
        try:
            d2 = plain_hash(h)
        except Timeout:
            raise
        except Exception as e:
            d2 = "raised %r" % (e,)
        ctx.count("rehashed")
        if d2 != d:
            ctx.violation({k: v for k, v in case.items()},
                          "hash_hypergraph of an untouched hypergraph (history %s) changed after other hypergraphs had "
                          "been hashed: %s, before %s" % (json.dumps(sub["history"], default=repr)[:200], d2, d))
            break
    return n_equal


def sharing_note(a, b):
    if a.get("shared") or b.get("shared"):
        return " (dictionary / list objects that were handed over a second time, so that several metadata slots hold " \
               "ONE object: %d while building the first, %d while building the second hypergraph - see `present`)" % (
                   a.get("shared", 0), b.get("shared", 0))
    return ""


def gen_attr_edits(tgt, rng, n):
    """n attribute-level edits (set_attr_to_* / remove_attr_from_* on nodes, hyperedges, the hypergraph; some that
    must be rejected) and the target they lead to; each edit concerns ONE node / ONE hyperedge"""
    kind = tgt["kind"]
    t = copy.deepcopy(tgt)
    ops = []
    last = {}
    for _ in range(n):
        # 35 %: the same kind of call on the same node / hyperedge / field as the edit before (second and third calls of a
        # setter for one key)
        again = bool(last) and rng.random() < 0.35
        r = last["r"] if again else rng.random()
        last["r"] = r
        if r < 0.42 and t["nodes"]:
            x = last["n"] if (again and last.get("n") in t["nodes"]) else rng.choice(list(t["nodes"]))
            last["n"] = x
            md = dict(t["nodes"][x])
            if kind != "M" and rng.random() < 0.3:
                # the whole record replaced
                md = junk_for(md, rng)
                ops.append(["setnm", x, md])
            elif md and rng.random() < 0.35:
                f = rng.choice(list(md))
                ops.append(["delnattr", x, f])
                del md[f]
            else:
                f, v = rng.choice(WORDS), gen_value(rng, 1)
                ops.append(["setnattr", x, f, v])
                md[f] = v
            t["nodes"][x] = md
        elif r < 0.82 and t["edges"]:
            k = last["k"] if (again and last.get("k") in t["edges"]) else rng.choice(list(t["edges"]))
            last["k"] = k
            w, md = t["edges"][k]
            md = dict(md)
            if rng.random() < 0.3 and (kind != "M" or not t["weighted"]):
                # the whole record replaced (multiplex, unweighted: by inserting the hyperedge again)
                md = junk_for(md, rng)
                if kind != "M":
                    ops.append(["setem", perm_key(kind, k, rng), md])
                else:
                    ops.append(["addedge", perm_key(kind, k, rng), None, md])
            elif md and rng.random() < 0.35:
                f = rng.choice(list(md))
                ops.append(["deleattr", perm_key(kind, k, rng), f])
                del md[f]
            else:
                f, v = rng.choice(WORDS), gen_value(rng, 1)
                ops.append(["seteattr", perm_key(kind, k, rng), f, v])
                md[f] = v
            t["edges"][k] = (w, md)
        elif r < 0.9:
            t["user_hm"] = dict(t["user_hm"] or {})
            if kind == "M" and rng.random() < 0.6:
                # the record of a layer / of the dataset replaced
                f = last["f"] if (again and last.get("f") in LAYERS + [DS_KEY]) else rng.choice(LAYERS[:2] + [DS_KEY])
                v = junk_for(t["user_hm"].get(f, {}), rng)
                if not isinstance(v, dict):
                    v = gen_dict(rng)
                ops.append(hm_setter(kind, f, rng)(v))
            else:
                f = last["f"] if (again and last.get("f") in WORDS) else rng.choice([w for w in WORDS if w != "type"])
                v = gen_value(rng, 1)
                ops.append(["sethattr", f, v])
            last["f"] = f
            t["user_hm"][f] = v
        else:
            # rejected: a field that is not there, a node / hyperedge that is not there
            c = rng.randrange(4)
            if c == 0 and t["nodes"]:
                x = rng.choice(list(t["nodes"]))
                free = [w for w in WORDS if w not in t["nodes"][x]]
                ops.append(["delnattr", x, rng.choice(free)])
            elif c == 1 and t["edges"]:
                k = rng.choice(list(t["edges"]))
                free = [w for w in WORDS if w not in t["edges"][k][1]]
                ops.append(["deleattr", perm_key(kind, k, rng), rng.choice(free)])
            elif c == 2 and t["extra"]:
                ops.append(rng.choice([["setnattr", t["extra"][-1], rng.choice(WORDS), gen_value(rng, 1)],
                                       ["delnattr", t["extra"][-1], rng.choice(WORDS)]]))
            elif t["nodes"]:
                for _ in range(8):
                    k = gen_key(kind, list(t["nodes"]), rng)
                    if k is not None and k not in t["edges"]:
                        ops.append(rng.choice([["seteattr", perm_key(kind, k, rng), rng.choice(WORDS), gen_value(rng, 1)],
                                               ["deleattr", perm_key(kind, k, rng), rng.choice(WORDS)]]))
                        break
    return ops, t


def free_edit_ops(kind, tgt, t2, rng):
    """whole-entry setter calls (where the class has them) that turn the metadata of tgt into those of t2"""
    ops = []
    for n, md in t2["nodes"].items():
        if n in tgt["nodes"] and tsig(norm(md)) != tsig(norm(tgt["nodes"][n])) and kind != "M":
            ops.append(["setnm", n, md])
    for k, (w, md) in t2["edges"].items():
        if k in tgt["edges"] and tsig(norm(md)) != tsig(norm(tgt["edges"][k][1])):
            if kind != "M":
                ops.append(["setem", perm_key(kind, k, rng), md])
            else:
                ops.append(["addedge", perm_key(kind, k, rng), None, md])     # a repeated insertion replaces the metadata
    if tsig(norm(t2["user_hm"] or {})) != tsig(norm(tgt["user_hm"] or {})):
        ops.append(["sethm", t2["user_hm"] or {}])
    return ops


def gen_present(rng, share=0.5):
    """how a history hands over its metadata values as objects"""
    if rng.random() >= share:
        return {"mode": "fresh"}
    return {"mode": "share", "p": rng.choice([100, 100, 70, 40]), "salt": rng.randrange(1000)}


def gen_case(rng, kind):
    pooled = rng.random() < 0.45
    tgt = gen_target(kind, rng, pooled=pooled)
    share = 0.65 if pooled else 0.4
    hists, used_all, probes = [], set(), {}
    for i in range(4):
        ops, used = gen_batched(tgt, rng) if i == 3 else gen_history(tgt, rng, fancy=(i > 0))
        if tgt["weighted"] and inexact_sums(kind, ops):
            # safety net behind the per-path care of the generator (expected never to fire; counted as uses:sum-guard):
            # the plain history adds nothing up
            ops, used = gen_history(tgt, rng, fancy=False)
            used = used | {"sum-guard"}
        hists.append(ops)
        used_all |= used
        if ops and rng.random() < 0.5:
            probes[str(i)] = [rng.randrange(len(ops))]
    if rng.random() < (0.45 if pooled else 0.65):
        # the same attribute-level edits after every construction of the content
        suffix, tgt = gen_attr_edits(tgt, rng, rng.randint(1, 5))
        hists = [h + copy.deepcopy(suffix) for h in hists]
        used_all.add("attr-edits")
    edits = []
    for _ in range(rng.randint(4, 6)):
        e = edit_target(tgt, rng)
        if e is None:
            continue
        name, t2 = e
        ops, _ = gen_history(t2, rng, fancy=False)
        ed = {"name": name, "weighted": t2["weighted"], "user_hm": t2["user_hm"], "ops": ops,
              "expect": signature(kind, expected_obs(t2)), "present": gen_present(rng, share)}
        if name == "wflag":
            ks = list(t2["edges"])
            distinct = len({tuple(key_nodes(kind, k)) for k in ks}) == len(ks)
            if t2["weighted"] and ks and distinct and rng.random() < 0.6:
                # the unweighted constructor, then ONE add_edges call with a weights list (all 1) turns it weighted;
                # the hypergraph metadata keep the constructor's flag
                ed["weighted"], ed["user_hm"] = tgt["weighted"], tgt["user_hm"]
                ed["ops"] = [["addnode", n, md] for n, md in t2["nodes"].items()] + \
                            [["addedges", [perm_key(kind, k, rng) for k in ks], [1] * len(ks), [t2["edges"][k][1] for k in ks]]]
            else:
                ed["ops"] = ops + [["sethm", t2["hm_final"]]]
        edits.append(ed)
    # object identity: at least one construction from fresh objects and (mostly) one that shares equal values
    present = [gen_present(rng, share) for _ in hists]
    if rng.random() < 0.8:
        i, j = rng.sample(range(len(hists)), 2)
        present[i] = {"mode": "fresh"}
        present[j] = {"mode": "share", "p": 100, "salt": 0}
    # the hash after every single call of one history
    if rng.random() < 0.3:
        probes[str(rng.randrange(len(hists)))] = "all"
    # the same calls with dictionaries shared freely (edits through one holder show in all holders; nothing expected,
    # the content is read through the getters after every call)
    free = []
    if rng.random() < (0.6 if pooled else 0.25):
        for i in rng.sample(range(len(hists)), rng.choice([1, 1, 2])):
            tail = []
            for _ in range(rng.randint(0, 3)):
                e = edit_target(tgt, rng)
                if e is not None and e[0] in ("nrec", "erec", "hrec", "nmeta", "emeta"):
                    tail += free_edit_ops(kind, tgt, e[1], rng)
            extra_ops, _ = gen_attr_edits(tgt, rng, rng.randint(0, 3))
            free.append({"ops": [o for o in hists[i] if o[0] != "fork"] + interleave([tail, extra_ops], rng),
                         "present": {"mode": "free", "p": rng.choice([100, 100, 60]), "salt": rng.randrange(1000)}})
    case = {"kind": kind, "weighted": tgt["weighted"], "user_hm": tgt["user_hm"],
            "labels": sorted(set(tgt["nodes"]) | set(tgt["extra"])), "histories": hists, "edits": edits, "probes": probes,
            "same_target": True, "expect": signature(kind, expected_obs(tgt)), "present": present, "free": free}
    if pooled:
        used_all.add("pooled-records")
    if free:
        used_all.add("free-sharing")
    nontrivial = bool(used_all & {"edge-detour", "node-detour", "node-rebuild", "clear", "shrink", "readd"}) and \
        bool(tgt["edges"]) and (any(tgt["nodes"].values()) or any(md for _, md in tgt["edges"].values()))
    return case, used_all, nontrivial


def alias_probes():
    """small fixed cases, one per class: >= 3 nodes and >= 2 hyperedges inserted one by one / by ONE metadata-less
    batch / by the constructor, then an attribute set on one node and on one hyperedge, an attribute set and removed
    again on another one.  (Deterministic members of the class that gen_batched + gen_attr_edits sample.)"""
    out = []
    keys = {"H": [[1, 2], [2, 3, 4]], "D": [[[1], [2]], [[2, 3], [4]]], "T": [[0, [1, 2]], [1, [2, 3]]],
            "M": [[[1, 2], "A"], [[1, 2], "K"]]}
    for kind in KINDS:
        for weighted in (False, True):
            ks = keys[kind]
            ws = [2, 0.5] if weighted else None
            edits = [["setnattr", 5, "a", "red"], ["seteattr", ks[0], "k1", 1], ["setnattr", 4, "b", None],
                     ["delnattr", 4, "b"], ["seteattr", ks[1], "Z", [1]], ["deleattr", ks[1], "Z"], ["sethattr", "x9", 0]]
            single = [["addnode", n, None] for n in (6, 5, 4)] + \
                     [["addedge", k, (ws[i] if weighted else None), None] for i, k in enumerate(ks)]
            batch = [["addnodes", [4, 5, 6], None], ["addedges", ks, ws, None]]
            ctor = [["ctor", weighted, None, [[n, {}] for n in (4, 5, 6)], ks, ws, None, False]]
            tgt = {"kind": kind, "weighted": weighted, "user_hm": {"x9": 0},
                   "nodes": {1: {}, 2: {}, 3: {}, 4: {}, 5: {"a": "red"}, 6: {}},
                   "edges": {canon_key(kind, canon_free(kind, ks[0])): ((ws[0] if weighted else None), {"k1": 1}),
                             canon_key(kind, canon_free(kind, ks[1])): ((ws[1] if weighted else None), {})}}
            touched = {n for k in tgt["edges"] for n in key_nodes(kind, k)} | {4, 5, 6}
            tgt["nodes"] = {n: md for n, md in tgt["nodes"].items() if n in touched}
            forked = single + [["fork"]] if kind != "M" else list(reversed(single))
            out.append({"kind": kind, "weighted": weighted, "user_hm": None, "labels": [1, 2, 3, 4, 5, 6], "edits": [],
                        "histories": [h + copy.deepcopy(edits) for h in (single, batch, ctor, forked)],
                        "same_target": True, "expect": signature(kind, expected_obs(tgt))})
    return out


def identity_probes():
    """small fixed cases, one per class x weighted: ONE default record handed to every hyperedge and to two nodes
    (`for e in edges: h.add_edge(e, metadata=default)`, `edge_metadata=[md] * n`), a second record with the same
    nested list at a node and as the hypergraph metadata - built from fresh equal objects, from shared objects
    (single calls / batch / constructor), and two contents that differ in ONE slot while all records involved also
    occur at other slots.  (Deterministic members of the class that pooled targets + `present` sample.)"""
    out = []
    keys = {"H": [[1, 2], [2, 3, 4], [5]], "D": [[[1], [2]], [[2, 3], [4]], [[4], [5]]],
            "T": [[0, [1, 2]], [1, [2, 3]], [1, [4, 5]]], "M": [[[1, 2], "A"], [[1, 2], "K"], [[3, 4, 5], "A"]]}
    for kind in KINDS:
        for weighted in (False, True):
            ks = keys[kind]
            ws = [2, 0.5, 2 ** 53 + 1] if weighted else [None] * 3
            part = ["a", ["b", 1]]
            x = {"name": "survey", "Z": part}
            y = {"k1": part, "b": {"x9": 0}}
            share = {"mode": "share", "p": 100, "salt": 0}
            nodes = {1: x, 2: {}, 3: y, 4: x, 5: {}}
            single = [["addnode", n, md] for n, md in nodes.items()] + \
                     [["addedge", k, ws[i], x] for i, k in enumerate(ks)]
            batch = [["addnodes", list(nodes), list(nodes.values())], ["addedges", ks, ws if weighted else None, [x, x, x]]]
            ctor = [["ctor", weighted, y, [[n, md] for n, md in nodes.items()], ks, ws if weighted else None, [x, x, x], False]]
            if kind == "D":
                batch = [["addnode", n, md] for n, md in nodes.items()] + batch[1:]
            tgt = {"kind": kind, "weighted": weighted, "user_hm": y, "nodes": nodes,
                   "edges": {canon_key(kind, canon_free(kind, k)): (ws[i], x) for i, k in enumerate(ks)}}
            # one slot differs: node 4 carries y instead of x (both records are held by other slots as well);
            # the last hyperedge carries y instead of x
            e1 = copy.deepcopy(tgt)
            e1["nodes"][4] = y
            e2 = copy.deepcopy(tgt)
            k2 = canon_key(kind, canon_free(kind, ks[2]))
            e2["edges"][k2] = (ws[2], y)
            edits = []
            for name, t in (("nrec", e1), ("erec", e2)):
                for pres in (share, {"mode": "fresh"}):
                    edits.append({"name": name, "weighted": weighted, "user_hm": y, "present": pres,
                                  "ops": [["addnode", n, md] for n, md in t["nodes"].items()] +
                                         [["addedge", opkey(kind, k), w, md] for k, (w, md) in t["edges"].items()],
                                  "expect": signature(kind, expected_obs(t))})
            out.append({"kind": kind, "weighted": weighted, "user_hm": y, "labels": [1, 2, 3, 4, 5, 6], "edits": edits,
                        "histories": [single, copy.deepcopy(single), batch, ctor],
                        "present": [share, {"mode": "fresh"}, share, share], "probes": {"0": "all"},
                        "free": [{"ops": single + [["setnattr", 1, "k1", part], ["seteattr", ks[0], "a", None],
                                                   ["delnattr", 4, "k1"], ["sethattr", "Z", part]],
                                  "present": {"mode": "free", "p": 100, "salt": 0}}],
                        "same_target": True, "expect": signature(kind, expected_obs(tgt))})
    return out


# past failures, replayed first on every run (found by this check on the tree without the repairs D9 / D11)
WITNESSES = [
    {"kind": "D", "weighted": False, "user_hm": None, "labels": [1, 2, 5], "edits": [],
     "histories": [[["addedge", [[1], [2]], None, None]],
                   [["addedge", [[1], [2]], None, None], ["addnode", 5, {"a": 1}], ["rmnode", 5, 0]],
                   [["addedge", [[1], [2]], None, None], ["addedge", [[1], [5]], None, None], ["rmnode", 5, 1]]]},
    {"kind": "D", "weighted": True, "user_hm": {"k1": 1}, "labels": [1, 2, 3, 4], "edits": [],
     "histories": [[["addedge", [[1], [2]], 0.5, {"a": 1}]],
                   [["addnode", 3, {"b": 2}], ["addedge", [[3], [4]], 2, {"z": None}], ["clear"],
                    ["addedge", [[2], [1]], 1, None], ["rmedge", [[2], [1]]], ["addedge", [[1], [2]], 0.5, {"a": 1}]]]},
    {"kind": "H", "weighted": False, "user_hm": None, "labels": [1, 2, 5], "edits": [],
     "histories": [[["addedge", [1, 2], None, None], ["addnode", 5, None]],
                   [["addedge", [2, 1], None, None], ["addnode", 5, {"a": 1}], ["rmnode", 5, 0], ["addnode", 5, None]]]},
]


def limit_reports(ctx):
    """one broken routine fails hundreds of oracles: keep the first dozen failures"""
    if getattr(ctx, "_c07_limited", False):
        return
    orig = ctx.violation

    def limited(case, what):
        if len(ctx.violations) < 12:
            orig(case, what)
        else:
            ctx.count("violations_not_recorded")
    ctx.violation = limited
    ctx._c07_limited = True


ZOO_CHARS = ['"', "\\", "\n", "\r", "\t", "\b", "\f", "\x00", "\x1f", " ", "~", "\x7f", "\x80", "\xe9", "\u2028", "\ud7ff",
             "\ue000", "\uffff", "\U00010000", "\U0001f600", "\U0010ffff", "/", "a", "Z", "0", "_", "u", ",", ":", "]", "}", "{", "["]
ZOO_FIXED = [
    None, True, False, 0, -1, 1, 1.0, -0.25, 0.0, 2.5, 1e14 + 0.5, -(2.0 ** 47) - 0.75, 2.0 ** 48 - 0.25, 9007199254740993, -(2 ** 64), 2 ** 1024 + 1,
    "", '"', "\\", "a\"b\\c\n", "\U0001f600\xe9\x7f", [], {}, [[]], [{}], {"": {}}, {"b": 1, "a": 1.0, "B": True},
    {"\xe9": 1, "z": 2, "\U0001f600": 3, "\uffff": 4, "a\"": 5}, ["null", None, "true", True, "1", 1, "1.0", 1.0],
    {"k": ["]", "}", ",", ", ", ": "]}, [1, [2, [3, [4, {"d": {"e": []}}]]]], {"a": {"b": 1}, "a\x00": {"b": 1.0}},
]


def zoo_value(rng, depth=0):
    def zstr():
        return "".join(rng.choice(ZOO_CHARS) for _ in range(rng.choice([0, 1, 1, 2, 3, 6])))
    r = rng.random()
    if depth >= 3 or r < 0.5:
        c = rng.randrange(7)
        if c == 0:
            return rng.choice(BIG_INTS) * rng.choice([1, -1]) if rng.random() < 0.3 else rng.randint(-1200, 1200)
        if c == 1:
            m = rng.choice([1, 1, 1, 10 ** 6, 2 ** 40, 2 ** 44])
            return rng.randint(-40, 40) * m / 4
        if c == 2:
            return zstr()
        if c == 3:
            return rng.random() < 0.5
        if c == 4:
            return None
        if c == 5:
            return rng.choice(SVALS)
        return rng.randint(0, 9)
    if r < 0.75:
        return [zoo_value(rng, depth + 1) for _ in range(rng.randint(0, 4))]
    return {(zstr() if rng.random() < 0.6 else rng.choice(WORDS)): zoo_value(rng, depth + 1) for _ in range(rng.randint(0, 4))}


def check_json_zoo(ctx, drv, n):
    """json.dumps(v, sort_keys=True) of JSON values of every shape (escapes, astral characters, keys that need sorting, ints
    of any size, quarter floats) against `dumpsJ pyFmt` (the function the theorems C07_json_text_injective /
    C07_hash_iff_content speak about); own PRNG, the case streams are untouched"""
    if drv is None:
        return
    rng = random.Random((ctx.seed * 7919) ^ 0xC07D)
    vals = list(ZOO_FIXED) + [zoo_value(rng) for _ in range(n)]
    lines, want, kept = [], [], []
    for v in vals:
        if not text_grid(v):
            continue
        try:
            ln = "dumps " + wire2(v)
            tx = "=" + json.dumps(v, sort_keys=True)
        except (ValueError, TypeError):
            continue
        lines.append(ln)
        want.append(("dumps", 0, tx))
        kept.append(v)
    try:
        answers = batch_safe(drv, lines, want)
    except Timeout:
        raise
    for v, ln, a, ex in zip(kept, lines, answers, want):
        ctx.count("json_zoo_values")
        if a != ex[2]:
            note_disagree(ctx, {"json_value": repr(v), "line": ln[:400]},
                          "json.dumps(v, sort_keys=True) differs from the model's dumpsJ pyFmt: model %s, json %s" % (a[:300], ex[2][:300]))
            if ctx.extra.get("disagreements_seen", 0) >= 3:
                break
    # the same values THROUGH hash_hypergraph (the options hashing.py passes to json.dumps): as hypergraph / node / hyperedge
    # metadata of a small object of each class; text handed to SHA-256 against dumpsJ pyFmt of the captured pre-image
    from hypergraphx import Hypergraph, DirectedHypergraph, TemporalHypergraph, MultiplexHypergraph
    lines, want, kept = [], [], []
    signal.signal(signal.SIGALRM, _alarm)
    for j, v in enumerate(vals[: max(40, len(vals) // 3)]):
        if not text_grid(v):
            continue
        kind = KINDS[j % 4]
        signal.alarm(20)
        try:
            if kind == "H":
                h = Hypergraph(hypergraph_metadata={"zoo": copy.deepcopy(v)})
                h.add_edge((1, 2), metadata={"v": copy.deepcopy(v)})
            elif kind == "D":
                h = DirectedHypergraph(hypergraph_metadata={"zoo": copy.deepcopy(v)})
                h.add_edge(((1,), (2,)), metadata={"v": copy.deepcopy(v)})
            elif kind == "T":
                h = TemporalHypergraph(hypergraph_metadata={"zoo": copy.deepcopy(v)})
                h.add_edge((1, 2), 3, metadata={"v": copy.deepcopy(v)})
            else:
                h = MultiplexHypergraph(hypergraph_metadata={"zoo": copy.deepcopy(v)})
                h.add_edge((1, 2), "L0", metadata={"v": copy.deepcopy(v)})
            h.add_node(7, {"v": copy.deepcopy(v)})
            d1, ser = hash_with_spy(h)
            jtext = LAST_TEXT[0]
            if not isinstance(jtext, str) or hashlib.sha256(jtext.encode("utf-8")).hexdigest() != d1:
                note_disagree(ctx, {"json_value": repr(v), "kind": kind}, "hash_hypergraph is not sha256 of the utf-8 text json.dumps returned")
                continue
            lines.append("dumps " + wire2(ser))
            want.append(("dumps", 0, "=" + jtext))
            kept.append((kind, v))
        except Timeout:
            ctx.violation({"json_value": repr(v), "kind": kind}, "hash_hypergraph did not finish within 20 s")
        except Exception as e:
            note_disagree(ctx, {"json_value": repr(v), "kind": kind}, "JSON value as metadata not hashable: %r" % (e,))
        finally:
            signal.alarm(0)
    answers = batch_safe(drv, lines, want)
    for (kind, v), ln, a, ex in zip(kept, lines, answers, want):
        ctx.count("json_zoo_hashed")
        if a != ex[2]:
            note_disagree(ctx, {"json_value": repr(v), "kind": kind, "line": ln[:400]},
                          "the text hash_hypergraph hands to SHA-256 differs from the model's dumpsJ pyFmt of the same pre-image: "
                          "model %s, implementation %s" % (a[:300], ex[2][:300]))
            if ctx.extra.get("disagreements_seen", 0) >= 3:
                break


SIDE_LABELS = list(range(7))
SIDE_RANK = {x: x for x in range(64)}


def side_tables(kind, h):
    """the two side tables of a real object as the driver prints them (`side <slot>`)"""
    inc = h.get_all_incidences_metadata() if hasattr(h, "get_all_incidences_metadata") else {}
    parts = []
    for (k, node), md in inc.items():
        if kind == "H":
            kt = [int(x) for x in k]
        elif kind == "D":
            kt = [[int(x) for x in k[0]], [int(x) for x in k[1]]]
        else:
            kt = [int(k[0]), [int(x) for x in k[1]]]
        parts.append(wire(kt) + "@%d=" % node + wire(md))
    emp = {}
    if kind == "H":
        try:
            emp = h.expose_data_structures().get("empty_edges")
        except Exception:
            emp = None
        if emp is None:
            emp = getattr(h, "_empty_edges", {})
    return ("|".join(parts) or "-") + " " + wire(dict(emp))


def side_apply(kind, h, op):
    try:
        if op[0] == "setinc":
            k, node, md = op[1], op[2], copy.deepcopy(op[3])
            if kind == "H":
                h.set_incidence_metadata(tuple(k), node, md)
            elif kind == "D":
                h.set_incidence_metadata((tuple(k[0]), tuple(k[1])), node, md)
            elif kind == "T":
                h.set_incidence_metadata(tuple(k[1]), k[0], node, md)
            else:
                h.set_incidence_metadata(tuple(k[0]), k[1], node, md)
        else:
            h.add_empty_edge(op[1], copy.deepcopy(op[2]))
        return "ok"
    except Timeout:
        raise
    except BaseException:
        return "rej"


def side_key(kind, rng):
    ns = rng.sample(SIDE_LABELS, rng.randint(1, 3))
    if kind == "H":
        return ns
    if kind == "D":
        rest = [x for x in SIDE_LABELS if x not in ns]
        return [ns, rng.sample(rest, rng.randint(1, 2))]
    if kind == "T":
        return [rng.randint(0, 2), ns]
    return [ns, rng.choice(LAYERS[:2])]


def gen_side_ops(kind, weighted, rng):
    ops, keys = [], []
    for _ in range(rng.randint(4, 12)):
        r = rng.random()
        if r < 0.3 or not keys:
            k = side_key(kind, rng)
            w = rng.choice([2, 3, 0.5]) if (weighted and rng.random() < 0.6) else None
            ops.append(["addedge", k, w, gen_dict(rng) if rng.random() < 0.4 else None])
            keys.append(k)
        elif r < 0.62:
            k = perm_key(kind, rng.choice(keys), rng) if rng.random() < 0.8 else side_key(kind, rng)
            ops.append(["setinc", k, rng.choice(SIDE_LABELS + [9]), gen_dict(rng)])
        elif r < 0.78:
            ops.append(["addempty", rng.choice(["e1", "e2", "x_y"]), gen_dict(rng)])
        elif r < 0.86:
            ops.append(["rmedge", perm_key(kind, rng.choice(keys), rng)])
        elif r < 0.92:
            ops.append(["rmnode", rng.choice(SIDE_LABELS), rng.randint(0, 1)])
        elif kind == "M":
            # MultiplexHypergraph has neither set_node_metadata nor clear()
            ops.append(["addnode", rng.choice(SIDE_LABELS), gen_dict(rng)])
        elif r < 0.96:
            ops.append(["setnm", rng.choice(SIDE_LABELS), gen_dict(rng)])
        else:
            ops.append(["clear"])
    return ops


def check_side_case(ctx, drv, case):
    """one object with side-table calls inside its history: per call ok / rej, after every side-table call and at the end
    the stored side tables and the hashed TEXT against `Obj` / `ostep` / `hashTextObj pyFmt` (Model/C07Side.lean); the
    digest must be sha256 of that text"""
    from hypergraphx import Hypergraph, DirectedHypergraph, TemporalHypergraph, MultiplexHypergraph
    kind, weighted, ops = case["kind"], case["weighted"], case["side_history"]
    cls = {"H": Hypergraph, "D": DirectedHypergraph, "T": TemporalHypergraph, "M": MultiplexHypergraph}[kind]
    lrank = {x: i for i, x in enumerate(sorted(LAYERS))}
    slot = 90
    lines = ["onew %d %s %d {}" % (slot, kind, 1 if weighted else 0)]
    want = [("ans", "ok")]
    signal.signal(signal.SIGALRM, _alarm)
    signal.alarm(20)
    try:
        h = cls(weighted=weighted)
        for i, op in enumerate(ops):
            if op[0] in ("setinc", "addempty"):
                a = side_apply(kind, h, op)
                if op[0] == "setinc":
                    lines.append("setinc %d %s %d %s" % (slot, wire_key(kind, canon_free(kind, op[1]), SIDE_RANK, lrank), op[2], wire(op[3])))
                else:
                    lines.append("addempty %d %s %s" % (slot, op[1], wire(op[2])))
            else:
                a = apply_op(kind, h, op)
                lines.append(wire_op(kind, slot, op, SIDE_RANK, lrank))
            want.append(("ans", a))
            if op[0] in ("setinc", "addempty", "clear", "rmedge") or i == len(ops) - 1:
                d1, ser = hash_with_spy(h)
                jtext = LAST_TEXT[0]
                if not isinstance(jtext, str) or hashlib.sha256(jtext.encode("utf-8")).hexdigest() != d1:
                    note_disagree(ctx, {**case, "at": i}, "hash_hypergraph is not sha256 of the utf-8 text json.dumps returned")
                lines.append("side %d" % slot)
                want.append(("side", i, side_tables(kind, h)))
                if text_grid(ser):
                    lines.append("text %d" % slot)
                    want.append(("text", i, "=" + json.dumps(map_exposed(kind, ser, SIDE_RANK, lrank), sort_keys=True)))
    except Timeout:
        ctx.violation(case, "history with side-table calls did not finish within 20 s")
        return
    except Exception as e:
        note_disagree(ctx, case, "object with side tables not observable: %r" % (e,))
        return
    finally:
        signal.alarm(0)
    answers = batch_safe(drv, lines, want)
    for ln, a, ex in zip(lines, answers, want):
        exp = ex[1] if ex[0] == "ans" else ex[2]
        if a != exp:
            what = {"ans": "model answers %r to %r, implementation %r" % (a, ln, exp),
                    "side": "the side tables (_incidences_metadata, _empty_edges) differ from the model's Obj: model %s, implementation %s" % (a[:300], exp[:300]),
                    "text": "the hashed text of an object with side-table calls in its history differs from hashTextObj "
                            "(side tables must not reach the hashed view): model %s, implementation %s" % (a[:300], exp[:300])}[ex[0]]
            note_disagree(ctx, {**case, "line": ln}, what)
            break


def check_side(ctx, drv, n):
    if drv is None:
        return
    rng = random.Random((ctx.seed * 104729) ^ 0x51DE)
    for i in range(n):
        kind = KINDS[i % 4]
        weighted = rng.random() < 0.4
        case = {"kind": kind, "weighted": weighted, "side_history": gen_side_ops(kind, weighted, rng)}
        check_side_case(ctx, drv, case)
        ctx.count("side_table_histories")
        if ctx.extra.get("disagreements_seen", 0) >= 3:
            break


def run(ctx):
    limit_reports(ctx)
    drv = ctx.driver() if ctx.model_available else None
    check_json_zoo(ctx, drv, ctx.scale(400, 6000))
    check_side(ctx, drv, ctx.scale(60, 1500))
    for w in WITNESSES + alias_probes() + identity_probes():
        check_case(ctx, drv, copy.deepcopy(w))
        ctx.case("witness:" + json.dumps(w, sort_keys=True), True)
    n = ctx.scale(320, 9000)
    for i in range(n):
        kind = KINDS[i % 4]
        case, used, nontrivial = gen_case(ctx.rng, kind)
        check_case(ctx, drv, case)
        for u in used:
            ctx.count("uses:" + u)
        ctx.count("kind:" + kind)
        key = json.dumps(hgxv.jsonable(case), sort_keys=True, default=repr)
        ctx.case(key, nontrivial, sample={k: case[k] for k in ("kind", "weighted", "user_hm", "histories")})
        if stop(ctx):
            break


def _tuplify_ops(ops):
    return [list(o) for o in ops]


def replay(ctx, case):
    limit_reports(ctx)
    drv = ctx.driver() if ctx.model_available else None
    if "json_value" in case:
        check_json_zoo(ctx, drv, 0)
        return
    if "side_history" in case:
        if drv is not None:
            check_side_case(ctx, drv, case)
        return
    c = dict(case)
    if "history" in c and "histories" not in c:
        c["histories"] = [c["history"]]
        if c.get("present") is not None and not isinstance(c["present"], list):
            c["present"] = [c["present"]]
        if c.get("present") and isinstance(c["present"], list) and c["present"][0] and c["present"][0].get("mode") == "free":
            c["free"] = [{"ops": c["history"], "present": c["present"][0]}]
            c["histories"], c["present"] = [], []
    c["histories"] = [_tuplify_ops(h) for h in c["histories"]]
    c.setdefault("edits", [])
    check_case(ctx, drv, c)
