"""C13 - configuration models preserve degrees and hyperedge sizes.

Inputs are OBJECTS reached through histories: a Hypergraph / DirectedHypergraph (weighted or not, with metadata)
is built by a list of operations (constructor list, add_edge / add_edges, temporary hyperedges and nodes that are
removed again so that internal ids have gaps, removal + re-insertion, copies whose other half is edited
afterwards), node labels are fresh equal objects of many types in every call (small / huge / negative ints,
floats, strings whose order is not the numeric one, tuples), and a SESSION applies several calls to the same
object with edits (also count-preserving ones) in between.  Every call is one case.

Correspondence: every random draw of the real run (np.random.randint / np.random.rand for configuration_model,
random.randint / random.choice for directed_configuration_model) is recorded by replacing the module attributes
the code looks up (no hook in the repo), the draw list is replayed in the Lean model (lean/Hgxv/Model/C13.lean
through lean/Driver/C13.lean, labels as ranks in sorted order - justified by C13_relabel) on the hyperedge listing
the object has at the time of the call, and the returned hyperedge list must coincide.  A second line per call
(`cmx` / `dcmx`, Model/C13Ext.lean) hands the entry-point model order= / size= as the caller spelled them (both
together: ValueError, nothing drawn) and compares its report on every case: node set of the returned OBJECT
(get_nodes()), number of randint calls (accepted + rejected proposals), of rand calls (coins), directed: draws of
the source loop / of the target loop, and that no recorded draw is left unused.  Draws come from the real
generators (seeded), from a biased in-contract source of the harness (i == j, the same pair again, long runs of one
coin, long streaks of inadmissible pairs) or from a script (exhaustive walk of the draw tree of small inputs).

Property oracles (independent Python on the real objects, on the raw labels; degrees counted as SETS of incident
hyperedges from get_edges() and, a second time, read through degree(node, size=k) / get_sizes() /
get_source_edges / get_target_edges): every node of the output is a node of the input, never a higher degree,
equality and the size (shape) multiset when the number of hyperedges is preserved, other sizes intact, a
hypergraph is returned at all (the two documented exceptions apart).  The oracles go on after the correspondence
broke, so that a failing input of the property is reported whenever the run reaches one."""
import collections
import contextlib
import io
import random as pyrandom
import signal
import warnings
import zlib
from collections import Counter

import hgxv

RULE = ("objects built by histories (constructor list / add_edge / add_edges, 35 % with temporary hyperedges or nodes "
        "removed again, removal + re-insertion, copies edited afterwards; 30 % weighted: ints >= 2, floats, 0, "
        "accumulated; node / hyperedge / hypergraph metadata), labels = fresh equal objects per call from 11 universes "
        "(ints, huge / negative ints, floats, ints next to floats, strings, numeric strings, 3 tuple families); "
        "undirected: 3-10 nodes, 2-12 hyperedges of sizes 1-5 from 1-3 size classes with forced overlaps and (30 %) "
        "nested hyperedges, n_steps in {0,1,7,50, default}, label in {edge,stub}, detailed in {True,False}, plain / "
        "size=s / order=s-1 (8 % an EMPTY layer in either spelling, preferably next to a present size, 60 % of them with "
        "n_steps=0: everything comes back intact, else the call raises; 4 % order AND size: ValueError); layer sweeps: "
        "60 (quick) / 900 (thorough) objects with gapped size classes of 1-3 hyperedges, of which EVERY size 0..max+2 "
        "is requested as size= and as order= with n_steps=0 and n_steps in {1,2,3,7} (empty, singleton, small layers); "
        "several calling "
        "styles, 12 % with n_clash in {0,2,3} (no effect for these labels); directed: 3-9 nodes, 2-10 "
        "hyperedges, mostly disjoint non-empty sides; 25 % of the inputs are sessions of 2-3 calls on one object with "
        "edits in between (swap of one hyperedge = same count, add, remove, rebuilt object, none; edits of the returned "
        "object); 3 (quick) / 6 "
        "(thorough) draw sources per input: real generator seeded, the harness' biased in-contract source, exhaustive "
        "scripts for small inputs.  A case = one call; distinct by (hyperedge listing, parameters, draws, history); "
        "non-trivial when the returned hyperedge set differs from the input's; object stream (400 quick / 6000 thorough "
        "calls, correspondence with Model/C13Obj.lean only): 0-6 hyperedges of sizes 0-4 on 2-7 int nodes incl. isolated "
        "ones, 50 % weighted, hyperedge / node / hypergraph metadata, order / size INTEGERS of either sign (-5..max+1, "
        "an empty hyperedge next to non-positive requests), n_steps in {-3,-1,0,1,2,3,6}, 35 % labels unknown to "
        "_cm_MCMC ('foo', '', None, 0, 'Edge', ...); compared: None / exception class / listing, is_weighted, weight "
        "and metadata of every hyperedge, node set with metadata, hypergraph metadata, draws left unconsumed")
ASSUMPTIONS = ["hyperedges are duplicate-free node tuples (node sets); labels are mapped to their rank in sorted order "
               "(C13_relabel / C13_directed_relabel: the model commutes with every strictly increasing relabelling)",
               "the theorems speak of runs that return: an exhausted draw list is `diverge` (termination of the "
               "`while len(f1) != len(f2)` resampling loop is probabilistic), an exception of the code "
               "(np.random.randint(0,0,2) when no hyperedge has the requested size, random.choice of an empty side) is "
               "`raise` = no output; every other exception on an input with two or more hyperedges is a violation",
               "label='vertex' is outside the property (stub- or edge-labelled only)",
               "weights and metadata of the input play no role (the model is a function of the hyperedge listing only; "
               "since the second extension round a theorem about the modelled object, C13_result_bare, compared on every "
               "object-stream case)"]
TRUSTED = ["contracts of the samplers: np.random.randint(0,m,2) returns two indices < m, np.random.rand() a float in "
           "[0,1), random.randint(0,m-1) an index < m, random.choice(seq) an element of seq (its index is recorded)",
           "iteration order of the Python set `intersection` is irrelevant (remainder independent of it, results sorted)",
           "RNG recording by attribute patching from the harness (np.random.randint/rand, random.randint/choice; other "
           "samplers of both modules are watched: a call of one of them is a protocol difference)"]
BUDGET_S = {"quick": 50, "thorough": 800}

CALL_TIMEOUT = 6.0
MODEL_OFF_AFTER = 12      # correspondence differences after which the model is no longer consulted (oracles go on)


class _Timeout(BaseException):
    pass


class _NeedMore(BaseException):
    """scripted draw source: the script is exhausted; `nopts` outcomes are possible for the next draw"""

    def __init__(self, nopts):
        self.nopts = nopts


def _alarm(signum, frame):
    raise _Timeout()


def guarded(fn, secs=CALL_TIMEOUT):
    """('ok', value) | ('exc', repr) | ('timeout', None); stdout of the call is swallowed"""
    old = signal.signal(signal.SIGALRM, _alarm)
    signal.setitimer(signal.ITIMER_REAL, secs)
    try:
        with contextlib.redirect_stdout(io.StringIO()), warnings.catch_warnings():
            warnings.simplefilter("ignore")
            return ("ok", fn())
    except _Timeout:
        return ("timeout", None)
    except Exception as e:  # noqa: BLE001 - an exception of the code under test is an observation
        return ("exc", type(e).__name__ + ": " + str(e)[:120])
    finally:
        signal.setitimer(signal.ITIMER_REAL, 0)
        signal.signal(signal.SIGALRM, old)


def crc(*parts):
    return zlib.crc32(repr(parts).encode())


# ------------------------------------------------------------------------------------------
# draw sources

NP_WATCHED = ("shuffle", "permutation", "choice", "random", "random_sample", "uniform", "binomial", "normal",
              "default_rng", "RandomState", "sample", "ranf", "bytes")
PY_WATCHED = ("shuffle", "sample", "random", "randrange", "choices", "uniform", "getrandbits", "Random", "SystemRandom")


class NumpyDraws:
    """records (and in modes 'adv' / 'script' supplies) the draws of np.random.randint / np.random.rand"""

    def __init__(self, mode, seed, script=None, streak=0):
        self.mode, self.seed, self.log = mode, seed, []
        self.script, self.pos = list(script or []), 0
        self.streak = streak   # adv mode: the first `streak` index pairs are forced to be two different positions
        self.other = []        # calls of samplers the model does not document

    def next_scripted(self, nopts):
        if self.pos >= len(self.script):
            raise _NeedMore(nopts)
        c = self.script[self.pos] % nopts
        self.pos += 1
        return c

    def __enter__(self):
        import numpy as np
        self.np = np
        self.real = (np.random.randint, np.random.rand)
        self.state = np.random.get_state()
        np.random.seed(self.seed % (2 ** 32))
        r = pyrandom.Random(self.seed)
        p_same, p_again, p_coin = r.choice([0.0, 0.15, 0.4]), r.choice([0.0, 0.2, 0.5]), r.choice([0.1, 0.5, 0.9, 0.5])
        last = [None]
        real_randint, real_rand = self.real
        log = self.log

        def randint(*a, **k):
            if (self.mode == "script" and not k and len(a) == 3 and a[0] == 0 and a[2] == 2
                    and isinstance(a[1], int) and a[1] > 0):
                res = np.array(divmod(self.next_scripted(a[1] * a[1]), a[1]))
            elif (self.mode == "adv" and not k and len(a) == 3 and a[0] == 0 and a[2] == 2
                    and isinstance(a[1], int) and a[1] > 0):
                m = a[1]
                u = r.random()
                if self.streak > 0 and m > 1:
                    # a long run of distinct positions: with all hyperedge sizes different and detailed=True the
                    # proposal loop has to scan through the whole run before it finds an admissible pair
                    self.streak -= 1
                    i = r.randrange(m)
                    j = (i + 1 + r.randrange(m - 1)) % m
                elif last[0] is not None and u < p_again and max(last[0]) < m:
                    i, j = last[0] if r.random() < 0.5 else last[0][::-1]
                elif u < p_again + p_same:
                    i = j = r.randrange(m)
                else:
                    i, j = r.randrange(m), r.randrange(m)
                last[0] = (i, j)
                res = np.array([i, j])
            else:
                res = real_randint(*a, **k)
            log.append(("randint", a, k, res))
            return res

        def rand(*a, **k):
            if self.mode == "script" and not a and not k:
                res = 0.25 if self.next_scripted(2) == 1 else 0.75
            elif self.mode == "adv" and not a and not k:
                res = 0.25 if r.random() < p_coin else 0.75
            else:
                res = real_rand(*a, **k)
            log.append(("rand", a, k, res))
            return res

        np.random.randint, np.random.rand = randint, rand
        self.watched = []
        for name in NP_WATCHED:
            realf = getattr(np.random, name, None)
            if realf is None:
                continue
            self.watched.append((name, realf))
            setattr(np.random, name, self._watch("np.random." + name, realf))
        return self

    def _watch(self, name, realf):
        def f(*a, **k):
            self.other.append(name)
            return realf(*a, **k)
        return f

    def __exit__(self, *exc):
        self.np.random.randint, self.np.random.rand = self.real
        for name, realf in self.watched:
            setattr(self.np.random, name, realf)
        self.np.random.set_state(self.state)

    def wire(self, m):
        """draw list in wire form, or (None, why) when a call is not the one the model documents"""
        if self.other:
            return None, f"{self.other[0]} called ({len(self.other)} calls of samplers the model does not document)"
        out = []
        for name, a, k, res in self.log:
            if name == "randint":
                if k or tuple(a) != (0, m, 2):
                    return None, f"np.random.randint called with {a} {k}, model documents (0, {m}, 2)"
                i, j = int(res[0]), int(res[1])
                if not (0 <= i < m and 0 <= j < m):
                    return None, f"randint draw {(i, j)} outside [0,{m})"
                out.append([i, j])
            else:
                if a or k:
                    return None, f"np.random.rand called with {a} {k}"
                out.append([1 if res < 0.5 else 0])
        return out, None


class PyDraws:
    """records (and in mode 'adv' supplies) the draws of random.randint / random.choice"""

    def __init__(self, mode, seed):
        self.mode, self.seed, self.log, self.other = mode, seed, [], []

    def __enter__(self):
        self.real = (pyrandom.randint, pyrandom.choice)
        self.state = pyrandom.getstate()
        pyrandom.seed(self.seed)
        r = pyrandom.Random(self.seed ^ 0x5DEECE66D)
        p_same, p_again = r.choice([0.0, 0.1, 0.3]), r.choice([0.0, 0.3, 0.6])
        last = []
        real_randint, real_choice = self.real
        log = self.log

        def randint(a, b):
            if self.mode == "adv" and isinstance(a, int) and isinstance(b, int) and a == 0 and b >= 0:
                u = r.random()
                if last and u < p_again:
                    res = r.choice(last[-4:])
                    res = res if res <= b else r.randint(0, b)
                elif last and u < p_again + p_same:
                    res = last[-1] if last[-1] <= b else r.randint(0, b)
                else:
                    res = r.randint(0, b)
                last.append(res)
            else:
                res = real_randint(a, b)
            log.append(("randint", (a, b), res))
            return res

        def choice(seq):
            if self.mode == "adv" and len(seq) > 0:
                res = seq[r.randrange(len(seq))]
            else:
                res = real_choice(seq)       # raises IndexError on an empty sequence, as in the real run
            log.append(("choice", len(seq), list(seq).index(res)))
            return res

        pyrandom.randint, pyrandom.choice = randint, choice
        self.watched = []
        for name in PY_WATCHED:
            realf = getattr(pyrandom, name)
            self.watched.append((name, realf))
            setattr(pyrandom, name, self._watch("random." + name, realf))
        return self

    def _watch(self, name, realf):
        def f(*a, **k):
            self.other.append(name)
            return realf(*a, **k)
        return f

    def __exit__(self, *exc):
        pyrandom.randint, pyrandom.choice = self.real
        for name, realf in self.watched:
            setattr(pyrandom, name, realf)
        pyrandom.setstate(self.state)

    def wire(self, m):
        if self.other:
            return None, f"{self.other[0]} called ({len(self.other)} calls of samplers the model does not document)"
        out = []
        for ent in self.log:
            if ent[0] == "randint":
                if ent[1] != (0, m - 1):
                    return None, f"random.randint called with {ent[1]}, model documents (0, {m - 1})"
                if not (0 <= ent[2] < m):
                    return None, f"random.randint draw {ent[2]} outside [0,{m - 1}]"
                out.append(int(ent[2]))
            else:
                out.append(int(ent[2]))
        return out, None


# ------------------------------------------------------------------------------------------
# labels: JSON-safe encodings, a fresh equal object at every use

def enc_label(x):
    if isinstance(x, tuple):
        return {"t": [enc_label(c) for c in x]}
    if isinstance(x, float):
        return {"f": x.hex()}
    return x          # int (any size), str


def dec_label(j):
    """a new object on every call wherever CPython lets equal objects be distinct"""
    if isinstance(j, dict):
        if "t" in j:
            return tuple(dec_label(c) for c in j["t"])
        return float.fromhex(j["f"])
    if isinstance(j, str):
        return "".join(list(j)) if len(j) >= 2 else j
    return int(str(j))


def _pool(kind):
    if kind == "int":
        return list(range(0, 40))
    if kind == "str":
        return [chr(97 + i) * k for i in range(12) for k in (1, 2)] + ["E1", "N0", "Z", ""]
    if kind == "numstr":          # sorted as strings: '10' < '100' < '2' < '33' < '9'
        return [str(i) for i in (0, 2, 3, 9, 10, 11, 20, 33, 100, 101, 1000, 5, 77, 800)]
    if kind == "bigint":          # neighbours that collapse under float64 / int64
        return [b + d for b in (2 ** 53, 2 ** 63, 2 ** 64, 10 ** 20) for d in range(-2, 5)] + [0, 1, 7, 300]
    if kind == "negbig":
        return ([-3, -1, 0, 5, 1000] + [2 ** 63 + d for d in range(-1, 4)] + [-(2 ** 63) - d for d in range(0, 4)]
                + [-(2 ** 53) - d for d in range(0, 3)])
    if kind == "float":
        return [0.0, 0.5, 1.5, 2.25, 1e-3, 0.1, 0.2, 0.1 + 0.2, 0.3, 1e18, 1e18 + 256, -2.5, 1e-300, 2.0 ** 53,
                2.0 ** 53 + 2, 3.0, 1e300, float("inf")]
    if kind == "intfloat":        # ints above 2**53 next to floats
        return [2 ** 53 + 1, 2 ** 53 + 2, 2 ** 53 + 3, 0.5, 1.5, 7, 2.25, 3, 10 ** 17 + 1, 10 ** 17 + 2, -0.75, 12,
                2 ** 63 + 1, 6.5]
    if kind == "tuple":           # grid coordinates
        return [(i, j) for i in range(4) for j in range(4)]
    if kind == "tuple2":          # (layer, id)
        return [(s, i) for s in ("a", "b", "bb") for i in (1, 2, 10, 300)] + [("a", 2 ** 60), ("c", 0)]
    if kind == "ntuple":          # tuples of different lengths
        return [(), (0,), (1,), (1, 2), (1, 2, 3), (2, 1), (0, 0, 0, 1), (2,), (1, 1), (3, 0), (0, 1), (5,), (1, 2, 4)]
    raise ValueError(kind)


LABEL_KINDS = ["int", "int", "int", "str", "numstr", "bigint", "negbig", "float", "intfloat", "tuple", "tuple2", "ntuple"]


def gen_labels(rng, n, kind=None):
    """n distinct mutually comparable labels, sorted (index = rank), JSON-encoded"""
    kind = kind or rng.choice(LABEL_KINDS)
    labels = sorted(rng.sample(_pool(kind), n))
    return kind, [enc_label(x) for x in labels]


# ------------------------------------------------------------------------------------------
# generators of target contents (index space: node = rank of its label)

def gen_undirected(rng, n):
    classes = rng.sample([1, 2, 2, 3, 3, 4, 5], rng.randint(1, 3))
    m = rng.randint(2, 12)
    nodes = list(range(n))
    edges, seen = [], set()
    core = rng.sample(nodes, min(n, rng.randint(2, 4)))   # forces overlaps
    for _ in range(m * 3):
        if len(edges) >= m:
            break
        k = min(n, rng.choice(classes))
        pool = core if (rng.random() < 0.35 and len(core) >= k) else nodes
        e = tuple(sorted(rng.sample(pool, k)))
        if e not in seen:
            seen.add(e)
            edges.append(e)
    if rng.random() < 0.3:
        # nested hyperedges: strict subsets / supersets of present ones, listed before or after them
        for _ in range(rng.randint(1, 3)):
            e = rng.choice(edges)
            if len(e) >= 2 and rng.random() < 0.7:
                f = tuple(sorted(rng.sample(e, rng.randint(1, len(e) - 1))))
            else:
                rest = [x for x in nodes if x not in e]
                if not rest:
                    continue
                f = tuple(sorted(e + tuple(rng.sample(rest, rng.randint(1, min(2, len(rest)))))))
            if f not in seen:
                seen.add(f)
                edges.insert(rng.randrange(len(edges) + 1), f)
    if len(edges) < 2:
        for e in [(0, 1), (1, 2)]:
            if e not in seen:
                seen.add(e)
                edges.append(e)
    return [list(e) for e in edges]


def gen_params(rng, edges):
    present = sorted({len(e) for e in edges})
    r = rng.random()
    variant = {}
    if r < 0.45:
        pass
    elif r < 0.70:
        variant = {"size": rng.choice(present)}
    elif r < 0.92:
        variant = {"order": rng.choice(present) - 1}
    else:
        # an EMPTY layer (no hyperedge of the requested size), in both spellings; preferably next to a present size
        # (order=o with hyperedges of size o but none of size o+1): nothing to reshuffle, with n_steps=0 everything
        # comes back intact, with n_steps>0 the call raises (np.random.randint(0, 0, 2))
        absent = [s for s in range(1, 8) if s not in present]
        near = [s for s in absent if s - 1 in present or s + 1 in present]
        s = rng.choice(near if near and rng.random() < 0.75 else absent)
        variant = {"size": s} if rng.random() < 0.5 else {"order": s - 1}
    params = {"n_steps": rng.choice([0, 1, 7, 7, 50, 50]), "label": rng.choice(["edge", "stub"]),
              "detailed": rng.random() < 0.55, **variant}
    if r >= 0.92 and rng.random() < 0.6:
        params["n_steps"] = 0
    if rng.random() < 0.03:
        del params["n_steps"]        # the default (1000 steps)
    if rng.random() < 0.12:
        # n_clash is documented for label='vertex' only but accepted and passed through for every label: no effect here
        params["n_clash"] = rng.choice([0, 0, 2, 3])
    if rng.random() < 0.04:
        # order AND size: the entry point refuses (ValueError) whatever the values are (also order=0 / size=0)
        params["order"] = rng.choice([0, 1, 2, max(0, params.get("order", 1))])
        params["size"] = rng.choice([0, 1, params["order"] + 1, params.get("size", 2)])
    return params


def gen_layered(rng, n):
    """size classes with gaps between them and with 1 (singleton layer), 2 or 3 hyperedges each"""
    import itertools
    present = sorted(rng.sample([1, 2, 3, 4, 5], rng.randint(1, 3)))
    present = [k for k in present if k <= n] or [2]
    edges = []
    for k in present:
        allk = list(itertools.combinations(range(n), k))
        edges += rng.sample(allk, min(len(allk), rng.choice([1, 1, 2, 3])))
    while len(edges) < 2:
        e = tuple(sorted(rng.sample(range(n), rng.choice(present + [2, 3]))))
        if e not in edges:
            edges.append(e)
    rng.shuffle(edges)
    return [list(e) for e in edges]


def layer_requests(rng, edges):
    """every size from 0 to two beyond the largest, as size=s and as order=s-1, with n_steps=0 and a small n_steps"""
    top = max(len(e) for e in edges) + 2
    reqs = []
    for s in range(0, top + 1):
        for variant in ({"size": s}, {"order": s - 1}):
            for n_steps in (0, rng.choice([1, 1, 2, 3, 7])):
                reqs.append({"n_steps": n_steps, "label": rng.choice(["edge", "stub"]),
                             "detailed": rng.random() < 0.5, **variant})
    return reqs


def gen_directed(rng, n):
    m = rng.randint(2, 10)
    nodes = list(range(n))
    edges, seen = [], set()
    allow_empty = rng.random() < 0.06
    allow_overlap = rng.random() < 0.15
    for _ in range(m * 3):
        if len(edges) >= m:
            break
        a = rng.randint(1, min(3, n - 1))
        b = rng.randint(1, min(3, n - a))
        if allow_empty and rng.random() < 0.3:
            if rng.random() < 0.5:
                a = 0
            else:
                b = 0
        if allow_overlap:
            e = (tuple(sorted(rng.sample(nodes, a))), tuple(sorted(rng.sample(nodes, b))))
        else:
            ns = rng.sample(nodes, a + b)
            e = (tuple(sorted(ns[:a])), tuple(sorted(ns[a:])))
        if e not in seen:
            seen.add(e)
            edges.append(e)
    if len(edges) < 2:
        for e in [((0,), (1,)), ((1,), (2,))]:
            if e not in seen:
                seen.add(e)
                edges.append(e)
    return [[list(s), list(t)] for s, t in edges]


def ekey(kind, e):
    return tuple(e) if kind == "cm" else (tuple(e[0]), tuple(e[1]))


def new_edge(rng, kind, n, present, size=None):
    """a hyperedge (index space) that is not in `present`, or None"""
    for _ in range(20):
        if kind == "cm":
            k = size if size is not None and rng.random() < 0.6 else rng.randint(1, min(4, n))
            e = sorted(rng.sample(range(n), min(n, k)))
        else:
            a = rng.randint(1, min(2, n - 1))
            b = rng.randint(1, min(2, n - a))
            ns = rng.sample(range(n), a + b)
            e = [sorted(ns[:a]), sorted(ns[a:])]
        if ekey(kind, e) not in present:
            return e
    return None


def both_sides(kind, x, shadow):
    """DirectedHypergraph.remove_node raises for a node that is source and target of one hyperedge (the hyperedge is
    removed twice) - a matter of the container, not of this property: such removals are not generated"""
    return kind == "dcm" and any(x in e[0] and x in e[1] for e in shadow.values())


METAS = [{"w": 2}, {"weight": 3, "name": "x"}, {"color": "red"}, {"type": "t", "n": [1, 2]}, {}]
WEIGHT_POOLS = {"int": [1, 2, 3, 5], "float": [0.5, 1.5, 2.0, 0.25, 3.7], "zero": [0, 2, 0.0, 1], "ones": [1, 1.0],
                "mixed": [1, 2, 0.5, 3, 0, 4.0, 7]}


def gen_history(rng, kind, n, n_labels, target, weighted):
    """operations leading to an object whose hyperedges are `target` (index space); `weighted` = None or a pool name"""
    wpool = WEIGHT_POOLS[weighted] if weighted else None
    with_meta = rng.random() < 0.3
    flavor = rng.choices(["plain", "gaps", "copy"], [50, 30, 20])[0]

    def w():
        return rng.choice(wpool) if wpool else (1 if rng.random() < 0.1 else None)

    def md():
        return rng.choice(METAS) if with_meta and rng.random() < 0.6 else None

    ops = []
    shadow = {}     # insertion-ordered content of the object under construction

    def add(e):
        ops.append(["add", e, w(), md()])
        shadow[ekey(kind, e)] = e

    def rm(e):
        ops.append(["rm", e])
        del shadow[ekey(kind, e)]

    style = rng.choice(["ctor", "adds", "add", "add"])
    tgt = [e for e in target]
    if flavor != "plain":
        rng.shuffle(tgt)
    if style == "ctor" or (style == "adds" and flavor == "plain"):
        ws = [rng.choice(wpool) for _ in tgt] if wpool else None
        if style == "ctor":
            ops.append(["new", bool(weighted), tgt, ws])
        else:
            ops.append(["new", bool(weighted), [], None])
            ops.append(["adds", tgt, ws])
        for e in tgt:
            shadow[ekey(kind, e)] = e
        tgt = []
    else:
        ops.append(["new", bool(weighted), [], None])
    if with_meta and rng.random() < 0.5:
        ops.append(["meta", "h", None, {"name": "input", "weighted": "yes"}])
    for x in range(n, n_labels):
        if rng.random() < 0.5:
            ops.append(["addn", x, md()])     # isolated node
    if flavor == "plain":
        for e in tgt:
            add(e)
    else:
        pending = list(tgt)
        budget = rng.randint(2, 6)
        while pending or budget > 0:
            r = rng.random()
            if pending and (r < 0.55 or budget <= 0):
                add(pending.pop())
                continue
            budget -= 1
            if r < 0.75:
                e = new_edge(rng, kind, n_labels, shadow)      # a temporary hyperedge (may use the spare labels)
                if e is not None:
                    add(e)
            elif r < 0.9 and shadow:
                rm(rng.choice(list(shadow.values())))          # removed (re-inserted by the repair below when needed)
            elif shadow:
                x = rng.randrange(n_labels)                    # a node leaves with its hyperedges ...
                if both_sides(kind, x, shadow):
                    continue
                ops.append(["rmn", x])
                for k_, e in list(shadow.items()):
                    if x in (e if kind == "cm" else e[0] + e[1]):
                        del shadow[k_]
                if rng.random() < 0.5:
                    ops.append(["addn", x, md()])              # ... and comes back as an isolated node
        want = {ekey(kind, e) for e in target}
        for k_, e in list(shadow.items()):
            if k_ not in want:
                rm(e)
        for e in target:
            if ekey(kind, e) not in shadow:
                add(e)
        if wpool and rng.random() < 0.4 and shadow:
            e = rng.choice(list(shadow.values()))
            ops.append(["add", e, rng.choice(wpool), None])    # present already: its weight accumulates
        if wpool and rng.random() < 0.3 and shadow:
            ops.append(["setw", rng.choice(list(shadow.values())), rng.choice(wpool)])
    if with_meta:
        for x in rng.sample(range(n), min(n, 2)):
            ops.append(["meta", "n", x, rng.choice(METAS)])
        if shadow and rng.random() < 0.5:
            ops.append(["meta", "e", rng.choice(list(shadow.values())), rng.choice(METAS)])
    if flavor == "copy":
        # the object handed to the model is one half of a copy; the other half is edited afterwards
        ops.append(["copy", rng.choice(["use_copy", "use_orig"])])
        for _ in range(rng.randint(1, 3)):
            r = rng.random()
            live = list(shadow.values())
            if r < 0.5:
                e = new_edge(rng, kind, n_labels, shadow)
                if e is not None:
                    ops.append(["oth", ["add", e, w(), None]])
            elif r < 0.8 and live:
                ops.append(["oth", ["rm", rng.choice(live)]])
                break                                           # (a second removal of the same hyperedge would raise)
            else:
                x = rng.randrange(n)
                if not both_sides(kind, x, shadow):
                    ops.append(["oth", ["rmn", x]])
                break
    return ops, list(shadow.values())


def gen_session_tail(rng, kind, n, n_labels, content, first_call, weighted, mk_call):
    """edits and further calls on the same object; returns ops"""
    ops = []
    shadow = {ekey(kind, e): e for e in content}
    wpool = WEIGHT_POOLS[weighted] if weighted else None
    size = None
    if kind == "cm":
        p = first_call[1]
        size = p.get("size", p["order"] + 1 if "order" in p else None)
    for _ in range(rng.choice([1, 1, 2])):
        if rng.random() < 0.3:
            live = list(shadow.values())
            e = new_edge(rng, kind, n, shadow)
            if e is not None:
                ops.append(["outedit", e, rng.choice(live) if rng.random() < 0.5 else None])
        edit = rng.choices(["swap", "swap_same", "add", "rm", "fresh", "none"], [30, 25, 10, 10, 15, 10])[0]
        live = list(shadow.values())
        if edit in ("swap", "swap_same", "rm") and len(live) > (2 if edit == "rm" else 1):
            cand = [e for e in live if kind == "cm" and size is not None and len(e) == size] or live
            e = rng.choice(cand)
            ops.append(["rm", e])
            del shadow[ekey(kind, e)]
        if edit in ("swap", "swap_same", "add"):
            e = new_edge(rng, kind, n_labels if rng.random() < 0.3 else n, shadow,
                         size if edit == "swap_same" else None)
            if e is not None:
                ops.append(["add", e, rng.choice(wpool) if wpool else None, None])
                shadow[ekey(kind, e)] = e
        if edit == "fresh":
            # another object with other content of the same counts takes the place (the old one is dropped)
            live = list(shadow.values())
            if len(live) > 2:
                e = rng.choice(live)
                f = new_edge(rng, kind, n, shadow, len(e) if kind == "cm" else None)
                if f is not None:
                    del shadow[ekey(kind, e)]
                    shadow[ekey(kind, f)] = f
            ops.append(["fresh", list(shadow.values()), [rng.choice(wpool) for _ in shadow] if wpool else None])
        if len(shadow) < 2:
            break
        r = rng.random()
        if kind == "cm":
            if r < 0.6:
                params = dict(first_call[1])                 # the same request again
            else:
                params = gen_params(rng, list(shadow.values()))
            if "n_steps" in params and params["n_steps"] == 0 and rng.random() < 0.7:
                params["n_steps"] = 7
        else:
            params = {}
        ops.append(mk_call(params))
    return ops


# ------------------------------------------------------------------------------------------
# property oracles (the property's words, on the real objects, raw labels)

def oracle_undirected(E_in, E_out, detailed, size):
    """E_in, E_out: lists of node tuples as returned by get_edges(); returns list of failure texts"""
    bad = []
    S_in, S_out = {frozenset(e) for e in E_in}, {frozenset(e) for e in E_out}
    nodes_in = set().union(*S_in) if S_in else set()
    nodes = nodes_in.union(*S_out) if S_out else set(nodes_in)
    same_count = len(S_out) == len(S_in)
    for e in E_out:
        if len(set(e)) != len(e):
            bad.append(f"returned hyperedge {e!r} lists a node twice")
    for x in sorted(nodes - nodes_in, key=repr)[:2]:
        bad.append(f"node {x!r} of the output is not a node of the input (degree 0 rose to "
                   f"{sum(1 for e in S_out if x in e)})")
    if len(S_out) != len(E_out):
        bad.append("the returned hypergraph lists a hyperedge twice")
    if len(S_out) > len(S_in):
        bad.append(f"more hyperedges returned ({len(S_out)}) than given ({len(S_in)})")
    sizes_present = sorted({len(e) for e in S_in | S_out})
    for x in sorted(nodes_in, key=repr):
        d_in, d_out = sum(1 for e in S_in if x in e), sum(1 for e in S_out if x in e)
        if d_out > d_in:
            bad.append(f"degree of node {x!r} rose from {d_in} to {d_out}")
        elif same_count and d_out != d_in:
            bad.append(f"hyperedge count preserved but degree of node {x!r} changed from {d_in} to {d_out}")
        if detailed:
            for k in sizes_present:
                a = sum(1 for e in S_in if x in e and len(e) == k)
                b = sum(1 for e in S_out if x in e and len(e) == k)
                if b > a:
                    bad.append(f"degree of node {x!r} at size {k} rose from {a} to {b}")
                elif same_count and a != b:
                    bad.append(f"hyperedge count preserved but degree of node {x!r} at size {k} changed from {a} to {b}")
    if same_count and Counter(len(e) for e in S_out) != Counter(len(e) for e in S_in):
        bad.append(f"hyperedge count preserved but the multiset of hyperedge sizes changed from "
                   f"{sorted(len(e) for e in S_in)} to {sorted(len(e) for e in S_out)}")
    if size is not None:
        keep_in = {e for e in S_in if len(e) != size}
        keep_out = {e for e in S_out if len(e) != size}
        if keep_in != keep_out:
            bad.append(f"hyperedges of sizes other than {size} were not returned intact: "
                       f"missing {sorted((sorted(e, key=repr) for e in keep_in - keep_out), key=repr)[:3]}, "
                       f"new {sorted((sorted(e, key=repr) for e in keep_out - keep_in), key=repr)[:3]}")
    return bad


def oracle_directed(E_in, E_out):
    bad = []
    S_in = {(frozenset(s), frozenset(t)) for s, t in E_in}
    S_out = {(frozenset(s), frozenset(t)) for s, t in E_out}
    nodes_in, nodes_out = set(), set()
    for s, t in S_in:
        nodes_in |= s | t
    for s, t in S_out:
        nodes_out |= s | t
    same_count = len(S_out) == len(S_in)
    for s, t in E_out:
        if len(set(s)) != len(s) or len(set(t)) != len(t):
            bad.append(f"returned hyperedge {(s, t)!r} lists a node twice on one side")
    for x in sorted(nodes_out - nodes_in, key=repr)[:2]:
        bad.append(f"node {x!r} of the output is not a node of the input")
    if len(S_out) != len(E_out):
        bad.append("the returned hypergraph lists a hyperedge twice")
    if len(S_out) > len(S_in):
        bad.append(f"more hyperedges returned ({len(S_out)}) than given ({len(S_in)})")
    for x in sorted(nodes_in | nodes_out, key=repr):
        for side, name in ((0, "out-degree (source side)"), (1, "in-degree (target side)")):
            a = sum(1 for e in S_in if x in e[side])
            b = sum(1 for e in S_out if x in e[side])
            if b > a:
                bad.append(f"{name} of node {x!r} rose from {a} to {b}")
            elif same_count and a != b:
                bad.append(f"hyperedge count preserved but {name} of node {x!r} changed from {a} to {b}")
    if same_count and Counter((len(s), len(t)) for s, t in S_out) != Counter((len(s), len(t)) for s, t in S_in):
        bad.append("hyperedge count preserved but the multiset of (source size, target size) shapes changed")
    return bad


def api_oracle_undirected(h, out, detailed):
    """the same claims read through degree(node, size=k) / get_sizes() of the two objects"""
    bad = []
    nodes_in = set(h.get_nodes())
    sizes_in, sizes_out = sorted(h.get_sizes()), sorted(out.get_sizes())
    same_count = out.num_edges() == h.num_edges()
    ks = sorted(set(sizes_in) | set(sizes_out))
    for x in out.get_nodes():
        d_out = out.degree(x)
        d_in = h.degree(x) if x in nodes_in else 0
        if d_out > d_in:
            bad.append(f"degree({x!r}) is {d_out} in the output, {d_in} in the input")
        elif same_count and d_out != d_in:
            bad.append(f"num_edges preserved but degree({x!r}) changed from {d_in} to {d_out}")
        if detailed:
            for k in ks:
                a = h.degree(x, size=k) if x in nodes_in else 0
                b = out.degree(x, size=k)
                if b > a:
                    bad.append(f"degree({x!r}, size={k}) is {b} in the output, {a} in the input")
                elif same_count and a != b:
                    bad.append(f"num_edges preserved but degree({x!r}, size={k}) changed from {a} to {b}")
    if same_count:
        for x in nodes_in - set(out.get_nodes()):
            if h.degree(x) != 0:
                bad.append(f"num_edges preserved but node {x!r} of degree {h.degree(x)} is missing in the output")
        if sizes_in != sizes_out:
            bad.append(f"num_edges preserved but get_sizes() changed from {sizes_in} to {sizes_out}")
    return bad


def api_oracle_directed(h, out):
    bad = []
    nodes_in = set(h.get_nodes())
    same_count = out.num_edges() == h.num_edges()
    for x in out.get_nodes():
        for name, f_out, f_in in (("out-degree", out.get_source_edges, h.get_source_edges),
                                  ("in-degree", out.get_target_edges, h.get_target_edges)):
            b = len(f_out(x))
            a = len(f_in(x)) if x in nodes_in else 0
            if b > a:
                bad.append(f"{name} of {x!r} (incident-edge listing) is {b} in the output, {a} in the input")
            elif same_count and a != b:
                bad.append(f"num_edges preserved but {name} of {x!r} changed from {a} to {b}")
    if same_count:
        for x in nodes_in - set(out.get_nodes()):
            if len(h.get_source_edges(x)) + len(h.get_target_edges(x)) != 0:
                bad.append(f"num_edges preserved but node {x!r} is missing in the output")
    return bad


# ------------------------------------------------------------------------------------------
# objects and histories

class World:
    """executes the operations of a case on real objects; `self.h` is the object the calls are applied to"""

    def __init__(self, kind, labels_enc):
        self.kind, self.enc = kind, labels_enc
        self.h, self.others = None, []
        self.last_out = None
        self.salt = 0

    def lab(self, i):
        return dec_label(self.enc[i])

    def nodes(self, idx, salt):
        ns = [self.lab(i) for i in idx]
        if len(ns) > 1 and crc(salt, idx) % 3 == 0:
            ns = ns[1:] + ns[:1]          # the container sorts its hyperedges itself
        return tuple(ns)

    def edge(self, e):
        self.salt += 1
        if self.kind == "cm":
            return self.nodes(e, self.salt)
        return (self.nodes(e[0], self.salt), self.nodes(e[1], self.salt + 7))

    def cls(self):
        from hypergraphx import DirectedHypergraph, Hypergraph
        return Hypergraph if self.kind == "cm" else DirectedHypergraph

    def build(self, weighted, edges, ws):
        C = self.cls()
        if not edges:
            return C(weighted=True) if weighted else C()
        el = [self.edge(e) for e in edges]
        if weighted:
            return C(edge_list=el, weighted=True, weights=list(ws))
        return C(edge_list=el) if crc("ctor", edges) % 2 else C(el)

    def apply(self, op, obj=None):
        h = self.h if obj is None else obj
        k = op[0]
        if k == "new":
            self.h = self.build(op[1], op[2], op[3])
        elif k == "fresh":
            self.h = None                      # dropped before the next one exists: its id may be taken again
            self.h = self.build(op[2] is not None, op[1], op[2])
        elif k == "add":
            kw = {}
            if op[2] is not None:
                kw["weight"] = op[2]
            if op[3] is not None:
                kw["metadata"] = dict(op[3])
            h.add_edge(self.edge(op[1]), **kw)
        elif k == "adds":
            if op[2] is not None:
                h.add_edges([self.edge(e) for e in op[1]], weights=list(op[2]))
            else:
                h.add_edges([self.edge(e) for e in op[1]])
        elif k == "rm":
            h.remove_edge(self.edge(op[1]))
        elif k == "rmn":
            x = self.lab(op[1])
            if h.check_node(x):
                h.remove_node(x)
        elif k == "addn":
            if op[2] is not None:
                h.add_node(self.lab(op[1]), metadata=dict(op[2]))
            else:
                h.add_node(self.lab(op[1]))
        elif k == "setw":
            h.set_weight(self.edge(op[1]), op[2])
        elif k == "meta":
            if op[1] == "h":
                h.set_hypergraph_metadata(dict(op[3]))
            elif op[1] == "n":
                x = self.lab(op[2])
                if h.check_node(x):
                    h.set_node_metadata(x, dict(op[3]))
            else:
                h.set_edge_metadata(self.edge(op[2]), dict(op[3]))
        elif k == "copy":
            c = h.copy()
            if op[1] == "use_copy":
                self.others.append(h)
                self.h = c
            else:
                self.others.append(c)
        elif k == "oth":
            self.apply(op[1], self.others[-1])
        elif k == "outedit":
            # the caller edits the hypergraph a former call returned (it is the caller's object)
            if self.last_out is not None and hasattr(self.last_out, "add_edge"):
                try:
                    self.last_out.add_edge(self.edge(op[1]))
                    if op[2] is not None:
                        self.last_out.remove_edge(self.edge(op[2]))
                except Exception:  # noqa: BLE001 - the returned object is not the subject here
                    pass
        else:
            raise ValueError("unknown op " + repr(op))


def listing(kind, h):
    if kind == "cm":
        return [tuple(e) for e in h.get_edges()]
    return [(tuple(s), tuple(t)) for s, t in h.get_edges()]


# the inputs of the last cases stay alive: an address is not handed out again while the search is short, so that a
# failing input never depends on an EARLIER case of the run (state keyed by id(): replays would not reproduce it);
# the reuse of an address is exercised inside one case by the operation "fresh"
_KEEP = collections.deque(maxlen=6000)


def run_case(ctx, drv, case):
    """executes the history of the case; every ["call", ...] in it is checked.  Returns the number of outcomes of the
    next draw when a scripted call ran out of script (exhaustive exploration), else None"""
    W = World(case["kind"], case["labels"])
    _KEEP.append(W)
    hist = case["hist"]
    with contextlib.redirect_stdout(io.StringIO()), warnings.catch_warnings():
        warnings.simplefilter("ignore")
        for pos, op in enumerate(hist):
            if op[0] != "call":
                try:
                    W.apply(op)
                except Exception as e:  # noqa: BLE001
                    ctx.disagree({**case, "hist": hist[:pos + 1]},
                                 f"could not build the input (operation {op[0]} of the history): {type(e).__name__}: {e}")
                    return None
                continue
            sub = {**case, "hist": hist[:pos + 1]}
            if case["kind"] == "cm":
                need = check_undirected(ctx, drv, W, sub, op)
            else:
                need = check_directed(ctx, drv, W, sub, op)
            if need is not None:
                return need
    return None


def model_on(ctx, drv):
    if drv is None:
        return False
    if len(ctx.disagreements) >= MODEL_OFF_AFTER:
        if not ctx.extra.get("model_comparisons_stopped"):
            ctx.count("model_comparisons_stopped")
        return False
    return True


def call_undirected(h, params, style):
    from hypergraphx.generation.configuration_model import configuration_model
    p = dict(params)
    if style == 1:      # everything positional
        return configuration_model(h, p.get("n_steps", 1000), p["label"], p.get("order"), p.get("size"), p.get("n_clash", 1),
                                   p["detailed"])
    if style == 2:      # keywords, the absent one of size / order spelled as None
        p.setdefault("size", None)
        p.setdefault("order", None)
        return configuration_model(hypergraph=h, **p)
    if style == 3:      # defaults left out
        if p["label"] == "edge":
            del p["label"]
        if p["detailed"] is True:
            del p["detailed"]
        return configuration_model(h, **p)
    return configuration_model(h, **p)


# ------------------------------------------------------------------------------------------
# one undirected call

def check_undirected(ctx, drv, W, case, op):
    _, params, mode, seed, extra = op
    extra = extra or {}
    h = W.h
    try:
        E_in = listing("cm", h)
    except Exception as e:  # noqa: BLE001
        ctx.disagree(case, f"could not read the input hypergraph: {type(e).__name__}: {e}")
        return None
    both = "order" in params and "size" in params      # refused by the entry point: ValueError, nothing is drawn
    size = params.get("size", params["order"] + 1 if "order" in params else None)
    n_steps = params.get("n_steps", 1000)
    style = crc("style", sorted(params.items()), seed) % 4
    try:
        with NumpyDraws(mode, seed, extra.get("script"), extra.get("streak", 0)) as rec:
            status, out = guarded(lambda: call_undirected(h, params, style))
    except _NeedMore as more:
        return more.nopts
    E_out = None
    W.last_out = out if status == "ok" else None
    if status == "ok":
        try:
            E_after = listing("cm", h)
            E_out = listing("cm", out)
        except Exception as e:  # noqa: BLE001
            status, out = "unreadable", f"{type(out).__name__} returned, not a readable hypergraph: {type(e).__name__}: {e}"
    ctx.count("undirected_runs")
    ctx.count("undirected_" + status)
    ctx.count("draws_recorded", len(rec.log))
    m_sel = len([e for e in E_in if size is None or len(e) == size])
    # ---- property oracles on the implementation
    nontrivial = False
    in_scope = len(E_in) >= 2
    if both:
        ctx.count("undirected_order_and_size")
        if status != "exc" or not str(out).startswith("ValueError"):
            ctx.disagree(case, f"order= and size= together must be refused with ValueError; observed {status}: {str(out)[:80]}")
        if rec.log:
            ctx.disagree(case, f"order= and size= together: {len(rec.log)} random draws before the refusal")
    elif status == "ok":
        bad = oracle_undirected(E_in, E_out, params["detailed"], size) if in_scope else []
        if not bad and in_scope and (extra.get("api") or ctx.rng.random() < 0.5):
            st2, bad2 = guarded(lambda: api_oracle_undirected(h, out, params["detailed"]))
            ctx.count("api_degree_oracles")
            bad = bad2 if st2 == "ok" else [f"degrees of the returned hypergraph cannot be read: {bad2}"]
        if in_scope and not bad and size is not None and m_sel <= 1 and \
                {frozenset(e) for e in E_out} != {frozenset(e) for e in E_in}:
            # a layer of no or one hyperedge: no two reshuffled hyperedges can coincide, so the output has as many
            # hyperedges as the input and every hyperedge is returned intact (C13_empty_layer, C13_singleton_layer)
            bad = [f"the layer of size {size} holds {m_sel} hyperedge(s), nothing can be reshuffled or coincide, but "
                   f"the returned hyperedges differ from the input's: missing "
                   f"{sorted((sorted(e, key=repr) for e in {frozenset(e) for e in E_in} - {frozenset(e) for e in E_out}), key=repr)[:3]}"]
        for why in bad[:3]:
            ctx.violation(case, "configuration_model: " + why)
        if sorted(E_after, key=repr) != sorted(E_in, key=repr):
            ctx.violation(case, "configuration_model changed its input hypergraph")
        nontrivial = {frozenset(e) for e in E_out} != {frozenset(e) for e in E_in}
        if len(E_out) < len(E_in):
            ctx.count("undirected_merged_hyperedges")
        if any(len(a) != len(b) for a in E_in for b in E_in) and not params["detailed"] and nontrivial:
            ctx.count("undirected_mixed_size_reshuffles")
    elif status in ("exc", "unreadable"):
        if in_scope and not (m_sel == 0 and n_steps > 0 and status == "exc"):
            # the unchanged code raises only when no hyperedge has the requested size (np.random.randint(0, 0, 2))
            ctx.violation(case, f"configuration_model returns no hypergraph for an input with {len(E_in)} hyperedges "
                                f"({m_sel} of the requested size): {out}")
    elif status == "timeout":
        ctx.count("timeouts")
        ctx.disagree(case, f"configuration_model did not return within {CALL_TIMEOUT:.0f} s "
                           f"({len(rec.log)} draws consumed); the model returns with probability one")
    rank = {dec_label(j): i for i, j in enumerate(W.enc)}
    try:
        E_in_r = [[rank[x] for x in e] for e in E_in]
        real = sorted(tuple(rank[x] for x in e) for e in E_out) if E_out is not None else None
    except (KeyError, TypeError):
        E_in_r = real = None              # labels outside the universe: reported by the oracle above
    if "expect" in extra and E_in_r is not None and sorted(map(sorted, extra["expect"])) != sorted(map(sorted, E_in_r)):
        ctx.disagree(case, "the history does not lead to the content the generator intended (container behaviour, C01)")
    key = repr((real if real is not None else status, E_in_r, sorted(params.items()), mode, seed, extra.get("script"),
                extra.get("hkey")))
    ctx.case(key, nontrivial, sample={"kind": "cm", "labels": case["labels"], "hist": case["hist"][-3:]})
    ctx.count("label_kind_" + str(extra.get("lk", "?")))
    # ---- correspondence with the Lean model
    if not model_on(ctx, drv) or status == "timeout":
        return None
    if E_in_r is None or (status == "ok" and real is None):
        ctx.disagree(case, "the returned hypergraph has nodes outside the label universe of the input; no model run")
        return None
    draws, why = rec.wire(m_sel)
    if draws is None:
        ctx.disagree(case, "draw protocol differs from the model: " + why)
        return None
    line = "cm {} {} {} {} {} {}".format(
        "e" if params["label"] == "edge" else "s", 1 if params["detailed"] else 0,
        -1 if size is None else size, n_steps, hgxv.enc_lists(E_in_r), hgxv.enc_lists(draws))
    # the entry point + report model (Model/C13Ext.lean): order / size as the caller spelled them
    o_wire, s_wire = params.get("order", -1), params.get("size", -1)      # -1 = not given
    if not both and "order" in params and params["order"] < 0:
        # order=-1 (the hyperedges of size 0 of an input with an empty hyperedge): the entry-point model has Nat-typed
        # order / size; the harness resolves this one spelling itself (size = order + 1)
        o_wire, s_wire = -1, params["order"] + 1
    linex = "cmx {} {} {} {} {} {} {}".format(
        "e" if params["label"] == "edge" else "s", 1 if params["detailed"] else 0,
        o_wire, s_wire, n_steps, hgxv.enc_lists(E_in_r), hgxv.enc_lists(draws))
    if both:
        ansx = drv.ask(linex)
        if ansx != "raise":
            ctx.disagree(case, f"order= and size= together: model (cmCall) answers {ansx[:80]!r}, expected raise")
        return None
    ans, ansx = drv.batch([line, linex])
    ctx.count("report_lines")
    if status != "ok":
        if ans != "raise" or ansx != "raise":
            ctx.disagree(case, f"implementation raised ({out}); model answers {ans[:80]!r} / report {ansx[:80]!r}")
        return None
    if not ans.startswith("ok "):
        ctx.disagree(case, f"implementation returned {real}; model answers {ans!r}")
        return None
    model = sorted(tuple(e) for e in hgxv.dec_lists(ans[3:]))
    if model != real:
        ctx.disagree(case, f"returned hyperedges differ: implementation {real}, model {model}")
        return None
    # report: same listing, node set of the returned OBJECT, calls of randint / rand, nothing drawn beyond
    tx = ansx.split(" ")
    if tx[0] != "ok" or len(tx) != 6:
        ctx.disagree(case, f"implementation returned {real}; report model answers {ansx[:120]!r}")
        return None
    if tx[1] != ans[3:]:
        ctx.disagree(case, f"report model lists {tx[1]!r}, model {ans[3:]!r} (C13_report_refines)")
        return None
    try:
        nodes_real = sorted(rank[x] for x in out.get_nodes())
    except Exception as e:  # noqa: BLE001
        nodes_real = f"unreadable ({type(e).__name__}: {e})"
    n_randint = sum(1 for ent in rec.log if ent[0] == "randint")
    n_rand = len(rec.log) - n_randint
    want = (hgxv.dec_list(tx[2]), int(tx[3]), int(tx[4]), int(tx[5]))
    got = (nodes_real, n_randint, n_rand, 0)
    if want != got:
        ctx.disagree(case, "report differs (node set of the returned object, calls of randint, calls of rand, unused "
                           f"draws): implementation {got}, model {want}")
        return None
    if n_randint > n_steps:
        ctx.count("rejected_proposals", n_randint - n_steps)
    if isinstance(nodes_real, list) and len(nodes_real) < len(rank):
        ctx.count("isolated_nodes_not_carried_over")
    # the model's observables (degK, deg of Model/C13.lean) are the property's degrees
    if real and ctx.rng.random() < 0.25:
        x = ctx.rng.choice(sorted({v for e in real for v in e}))
        k = ctx.rng.choice(sorted({len(e) for e in real}))
        enc = hgxv.enc_lists(real)
        a1, a2 = drv.batch([f"degk {enc} {x} {k}", f"deg {enc} {x}"])
        w1 = sum(1 for e in set(real) if x in e and len(e) == k)
        w2 = sum(1 for e in set(real) if x in e)
        if a1 != str(w1) or a2 != str(w2):
            ctx.disagree(case, f"model observables degK/deg = {a1}/{a2}, definition gives {w1}/{w2} (node rank {x}, size {k})")
        ctx.count("observable_probes")
    # the model must consume exactly the recorded draws: one draw less must not suffice when it needs them all
    if draws and ctx.rng.random() < 0.1:
        ans2 = drv.ask(line.rsplit(" ", 1)[0] + " " + hgxv.enc_lists(draws[:-1]))
        if ans2 != "diverge":
            ctx.disagree(case, f"model does not need the last recorded draw (answers {ans2[:60]!r} without it)")
        ctx.count("exhaustion_probes")
    # relabelling (C13_relabel): the same run on stretched ranks gives the stretched result
    if ctx.rng.random() < 0.05:
        f = lambda v: 3 * v + (v * v) % 3 + 1   # noqa: E731 - strictly increasing
        ans3 = drv.ask("cm {} {} {} {} {} {}".format(
            "e" if params["label"] == "edge" else "s", 1 if params["detailed"] else 0, -1 if size is None else size,
            n_steps, hgxv.enc_lists([[f(v) for v in e] for e in E_in_r]), hgxv.enc_lists(draws)))
        want = sorted(tuple(f(v) for v in e) for e in real)
        got = sorted(tuple(e) for e in hgxv.dec_lists(ans3[3:])) if ans3.startswith("ok ") else ans3
        if got != want:
            ctx.disagree(case, f"model is not invariant under a strictly increasing relabelling: {got} vs {want}")
        ctx.count("relabel_probes")
    return None


# ------------------------------------------------------------------------------------------
# one directed call

def check_directed(ctx, drv, W, case, op):
    from hypergraphx.generation.directed_configuration_model import directed_configuration_model
    _, params, mode, seed, extra = op
    extra = extra or {}
    h = W.h
    try:
        E_in = listing("dcm", h)
    except Exception as e:  # noqa: BLE001
        ctx.disagree(case, f"could not read the input hypergraph: {type(e).__name__}: {e}")
        return None
    kw = crc("style", seed) % 3 == 0
    with PyDraws(mode, seed) as rec:
        status, out = guarded(lambda: directed_configuration_model(hypergraph=h) if kw else directed_configuration_model(h))
    E_out = None
    W.last_out = out if status == "ok" else None
    if status == "ok":
        try:
            E_after = listing("dcm", h)
            E_out = listing("dcm", out)
        except Exception as e:  # noqa: BLE001
            status, out = "unreadable", f"{type(out).__name__} returned, not a readable hypergraph: {type(e).__name__}: {e}"
    ctx.count("directed_runs")
    ctx.count("directed_" + status)
    ctx.count("draws_recorded", len(rec.log))
    nontrivial = False
    in_scope = len(E_in) >= 2
    empty_side = any(len(s) == 0 or len(t) == 0 for s, t in E_in)
    if status == "ok":
        bad = oracle_directed(E_in, E_out) if in_scope else []
        if not bad and in_scope and (extra.get("api") or ctx.rng.random() < 0.5):
            st2, bad2 = guarded(lambda: api_oracle_directed(h, out))
            ctx.count("api_degree_oracles")
            bad = bad2 if st2 == "ok" else [f"degrees of the returned hypergraph cannot be read: {bad2}"]
        for why in bad[:3]:
            ctx.violation(case, "directed_configuration_model: " + why)
        if sorted(E_after, key=repr) != sorted(E_in, key=repr):
            ctx.violation(case, "directed_configuration_model changed its input hypergraph")
        nontrivial = set(E_out) != set(E_in)
        if len(E_out) < len(E_in):
            ctx.count("directed_merged_hyperedges")
    elif status in ("exc", "unreadable"):
        if in_scope and not (empty_side and status == "exc"):
            # the unchanged code raises only when a hyperedge with an empty side is drawn (random.choice([]))
            ctx.violation(case, f"directed_configuration_model returns no hypergraph for an input with {len(E_in)} "
                                f"hyperedges, all sides non-empty: {out}")
    elif status == "timeout":
        ctx.count("timeouts")
        ctx.disagree(case, f"directed_configuration_model did not return within {CALL_TIMEOUT:.0f} s; it has no unbounded loop")
    rank = {dec_label(j): i for i, j in enumerate(W.enc)}
    try:
        E_in_r = [([rank[x] for x in s], [rank[x] for x in t]) for s, t in E_in]
        real = (sorted((tuple(rank[x] for x in s), tuple(rank[x] for x in t)) for s, t in E_out)
                if E_out is not None else None)
    except (KeyError, TypeError):
        E_in_r = real = None
    key = repr((real if real is not None else status, E_in_r, mode, seed, extra.get("hkey")))
    ctx.case(key, nontrivial, sample={"kind": "dcm", "labels": case["labels"], "hist": case["hist"][-3:]})
    ctx.count("label_kind_" + str(extra.get("lk", "?")))
    if not model_on(ctx, drv) or status == "timeout":
        return None
    if E_in_r is None or (status == "ok" and real is None):
        ctx.disagree(case, "the returned hypergraph has nodes outside the label universe of the input; no model run")
        return None
    draws, why = rec.wire(len(E_in))
    if draws is None:
        ctx.disagree(case, "draw protocol differs from the model: " + why)
        return None
    line = "dcm {} {} {}".format(hgxv.enc_lists([s for s, _ in E_in_r]), hgxv.enc_lists([t for _, t in E_in_r]),
                                 hgxv.enc_list(draws))
    ans, ansx = drv.batch([line, "dcmx" + line[3:]])
    ctx.count("report_lines")
    if status != "ok":
        if ans != "raise" or ansx != "raise":
            ctx.disagree(case, f"implementation raised ({out}); model answers {ans[:80]!r} / report {ansx[:80]!r}")
        return None
    toks = ans.split(" ")
    if toks[0] != "ok" or len(toks) != 3:
        ctx.disagree(case, f"implementation returned {real}; model answers {ans!r}")
        return None
    model = sorted(zip((tuple(s) for s in hgxv.dec_lists(toks[1])), (tuple(t) for t in hgxv.dec_lists(toks[2]))))
    if model != real:
        ctx.disagree(case, f"returned hyperedges differ: implementation {real}, model {model}")
        return None
    # report (Model/C13Ext.lean): same listing, node set of the returned object, draws of each loop, nothing beyond
    tx = ansx.split(" ")
    if tx[0] != "ok" or len(tx) != 7 or tx[1:3] != toks[1:3]:
        ctx.disagree(case, f"report model answers {ansx[:120]!r}, model {ans[:120]!r} (C13_report_refines)")
        return None
    try:
        nodes_real = sorted(rank[x] for x in out.get_nodes())
    except Exception as e:  # noqa: BLE001
        nodes_real = f"unreadable ({type(e).__name__}: {e})"
    # the source loop makes 2 * 10m calls of randint; everything before the (20m+1)-th call of randint is its share
    seen, cut = 0, len(rec.log)
    for pos, ent in enumerate(rec.log):
        if ent[0] == "randint":
            seen += 1
            if seen == 20 * len(E_in) + 1:
                cut = pos
                break
    want = (hgxv.dec_list(tx[3]), int(tx[4]), int(tx[5]), int(tx[6]))
    got = (nodes_real, cut, len(rec.log) - cut, 0)
    if want != got:
        ctx.disagree(case, "report differs (node set of the returned object, draws of the source loop, of the target "
                           f"loop, unused draws): implementation {got}, model {want}")
        return None
    if ctx.rng.random() < 0.05:
        f = lambda v: 3 * v + (v * v) % 3 + 1   # noqa: E731 - strictly increasing
        ans3 = drv.ask("dcm {} {} {}".format(hgxv.enc_lists([[f(v) for v in s] for s, _ in E_in_r]),
                                             hgxv.enc_lists([[f(v) for v in t] for _, t in E_in_r]), hgxv.enc_list(draws)))
        t3 = ans3.split(" ")
        want = sorted((tuple(f(v) for v in s), tuple(f(v) for v in t)) for s, t in real)
        got = (sorted(zip((tuple(s) for s in hgxv.dec_lists(t3[1])), (tuple(t) for t in hgxv.dec_lists(t3[2]))))
               if t3[0] == "ok" and len(t3) == 3 else ans3)
        if got != want:
            ctx.disagree(case, f"model is not invariant under a strictly increasing relabelling: {got} vs {want}")
        ctx.count("relabel_probes")
    return None


# ------------------------------------------------------------------------------------------

def explore_undirected(ctx, drv, base, params, max_nodes, max_depth):
    """walk the tree of ALL draw outcomes of the real code for one small input: the scripted source
    aborts the run at the first draw beyond the script and reports how many outcomes that draw has"""
    stack, nodes = [[]], 0
    while stack and nodes < max_nodes and not out_of_time(ctx):
        script = stack.pop()
        nodes += 1
        case = {**base, "hist": base["hist"] + [["call", params, "script", 0, {"script": script, "lk": base.get("lk")}]]}
        need = run_case(ctx, drv, case)
        if need is None:
            ctx.count("exhaustive_leaves")
        elif len(script) >= max_depth:
            ctx.count("exhaustive_cut_at_depth")
        else:
            stack.extend(script + [c] for c in range(need))
    if stack:
        ctx.count("exhaustive_trees_truncated")
    else:
        ctx.count("exhaustive_trees_complete")


def gen_small(rng):
    n = rng.randint(3, 5)
    m = rng.choice([2, 2, 3])
    edges, seen = [], set()
    while len(edges) < m:
        if edges and rng.random() < 0.35 and len(edges[-1]) >= 2:
            e = tuple(sorted(rng.sample(edges[-1], rng.randint(1, len(edges[-1]) - 1))))   # nested, listed second
        else:
            e = tuple(sorted(rng.sample(range(n), rng.choice([1, 2, 2, 3]))))
        if e not in seen:
            seen.add(e)
            edges.append(e)
    if rng.random() < 0.5:
        rng.shuffle(edges)
    edges = [list(e) for e in edges]
    params = gen_params(rng, edges)
    params["n_steps"] = 1 if m == 3 else rng.choice([1, 2])
    return n, edges, params


def out_of_time(ctx):
    # the search for a failing input of the property goes on after the correspondence broke
    return len(ctx.violations) >= 3 or ctx.extra.get("timeouts", 0) >= 2 or (ctx.time_left() is not None and ctx.time_left() < 8)


def weighted_kind(rng):
    return rng.choice(list(WEIGHT_POOLS)) if rng.random() < 0.3 else None


def run(ctx):
    hgxv.use_repo()
    drv = ctx.driver() if ctx.model_available else None
    rng = ctx.rng
    n_inputs = ctx.scale(2200, 36000)
    per_input = ctx.scale(3, 6)
    n_trees = ctx.scale(10, 300)
    n_layered = ctx.scale(60, 900)
    for it in range(n_inputs):
        if out_of_time(ctx):
            break
        if it % max(1, n_inputs // n_trees) == 0:
            n, edges, params = gen_small(rng)
            lk, labels = gen_labels(rng, n + 1)
            wk = weighted_kind(rng)
            hist, _ = gen_history(rng, "cm", n, n + 1, edges, wk)
            explore_undirected(ctx, drv, {"kind": "cm", "labels": labels, "hist": hist, "lk": lk}, params,
                               ctx.scale(1500, 6000), 9)
        if it % 97 == 5:
            # very size-heterogeneous input (all sizes different), detailed, with a long streak of inadmissible pairs
            k = rng.randint(3, 6)
            lk, labels = gen_labels(rng, k + 1)
            edges = [sorted(rng.sample(range(k + 1), sz)) for sz in range(1, k + 1)]
            rng.shuffle(edges)
            hist, _ = gen_history(rng, "cm", k + 1, k + 1, edges, weighted_kind(rng))
            call = ["call", {"n_steps": rng.choice([1, 3]), "label": rng.choice(["edge", "stub"]), "detailed": True},
                    "adv", rng.randrange(2 ** 31), {"streak": rng.choice([55, 130, 300]), "lk": lk}]
            ctx.count("heterogeneous_streak_cases")
            run_case(ctx, drv, {"kind": "cm", "labels": labels, "hist": hist + [call]})
        if it % max(1, n_inputs // n_layered) == 2:
            # layers: EVERY size from 0 to two beyond the largest is requested of one object, in both spellings, with
            # n_steps = 0 and a small n_steps: empty layers (also between / next to present sizes), layers of one
            # hyperedge, layers of two or three; every hyperedge outside the layer must come back intact
            n = rng.randint(4, 8)
            n_labels = n + rng.choice([0, 1])
            lk, labels = gen_labels(rng, n_labels)
            edges = gen_layered(rng, n)
            hist, content = gen_history(rng, "cm", n, n_labels, edges, weighted_kind(rng))
            ctx.count("layered_inputs")
            for p in layer_requests(rng, content):
                if out_of_time(ctx):
                    break
                s_req = p.get("size", p.get("order", 0) + 1)
                m_req = sum(1 for e in content if len(e) == s_req)
                ctx.count("layer_requests_%s_%s" % ("empty" if m_req == 0 else "single" if m_req == 1 else "several",
                                                    "0steps" if p["n_steps"] == 0 else "steps"))
                call = ["call", p, rng.choice(["real", "adv"]), rng.randrange(2 ** 31), {"lk": lk}]
                run_case(ctx, drv, {"kind": "cm", "labels": labels, "hist": hist + [call]})
        kind = "cm" if it % 4 != 3 else "dcm"
        n = rng.randint(3, 10 if kind == "cm" else 9)
        n_labels = n + rng.choice([0, 1, 2])
        lk, labels = gen_labels(rng, n_labels)
        target = gen_undirected(rng, n) if kind == "cm" else gen_directed(rng, n)
        wk = weighted_kind(rng)
        hist, content = gen_history(rng, kind, n, n_labels, target, wk)
        hkey = crc(hist) if len(hist) > 2 else None
        params = gen_params(rng, target) if kind == "cm" else {}
        expect = sorted(sorted(e) for e in content) if kind == "cm" else None
        ctx.count("histories_" + ("plain" if not any(o[0] in ("rm", "rmn", "copy") for o in hist) else
                                  "copy" if any(o[0] == "copy" for o in hist) else "gaps"))
        if wk:
            ctx.count("weighted_inputs_" + kind)

        def mk_call(p, first=False):
            ex = {"lk": lk, "hkey": hkey}
            if first and expect is not None:
                ex["expect"] = expect
            return ["call", p, rng.choice(["real", "adv"]), rng.randrange(2 ** 31), ex]

        if rng.random() < 0.25:
            first = mk_call(params, True)
            tail = gen_session_tail(rng, kind, n, n_labels, content, first, wk, mk_call)
            ctx.count("sessions")
            run_case(ctx, drv, {"kind": kind, "labels": labels, "hist": hist + [first] + tail})
            continue
        for _ in range(per_input):
            run_case(ctx, drv, {"kind": kind, "labels": labels, "hist": hist + [mk_call(params, True)]})
            if kind == "cm" and params.get("n_steps") == 0:
                break
    run_objects(ctx, drv)


# ------------------------------------------------------------------------------------------
# second extension round: integer arguments of either sign, unknown labels, what the returned object carries
# (Model/C13Obj.lean, driver command `cmo`).  Correspondence only: weights / metadata of the result and the `None`
# of an unknown label are not in the property's words, so at most OBJ_REPORTS differences are reported per run.

OBJ_REPORTS = 2
OBJ_WEIGHTS = [1, 2, 5, 0.5, 3.25, 1.0, 7]
OBJ_UNKNOWN = ["foo", "", None, "Edge", 0, "STUB", "vertex ", ("edge",), "edges"]


def _md(code, key="k"):
    return {} if code == 0 else {key: code}


def _md_code(d, key="k"):
    if d == {}:
        return 0
    if isinstance(d, dict) and list(d) == [key] and isinstance(d[key], int) and d[key] > 0:
        return d[key]
    return 998


def gen_object_case(rng):
    n = rng.randint(2, 7)
    m = rng.randint(0 if rng.random() < 0.05 else 2, 6)
    edges = []
    for _ in range(m):
        sz = 0 if rng.random() < 0.04 else rng.choice([1, 2, 2, 2, 3, 3, 4])
        e = sorted(rng.sample(range(n), min(sz, n)))
        if e not in edges:
            edges.append(e)
    weighted = rng.random() < 0.5
    sizes = sorted({len(e) for e in edges}) or [2]
    r = rng.random()
    params = {"label": rng.choice(["edge", "stub"]), "detailed": rng.random() < 0.6,
              "n_steps": rng.choice([-3, -1, 0, 0, 1, 2, 3, 6])}
    if r < 0.35:
        params["label"] = rng.choice(OBJ_UNKNOWN)
    r = rng.random()
    pick = lambda: rng.choice([rng.choice(sizes), rng.choice(sizes), rng.randint(-4, -1), 0, max(sizes) + 1])  # noqa: E731
    if r < 0.3:
        params["size"] = pick()
    elif r < 0.6:
        params["order"] = pick() - 1
    elif r < 0.65:
        params["size"], params["order"] = pick(), pick() - 1
    if rng.random() < 0.3 and "size" in params and edges:
        # every hyperedge in the requested layer (unknown label: `None` instead of AttributeError)
        edges = [e for e in edges if len(e) == len(edges[0])]
        params["size"] = len(edges[0])
        params.pop("order", None)
    sz_req = params.get("size", params.get("order", 0) + 1) if ("size" in params or "order" in params) else None
    if sz_req is not None and sz_req <= 0 and [] not in edges and rng.random() < 0.5:
        # an empty hyperedge next to a non-positive requested size: size 0 is a layer, size -2 is not
        edges.insert(rng.randrange(len(edges) + 1), [])
    return {"kind": "cmo", "n": n, "edges": edges, "weighted": weighted,
            "weights": [rng.randrange(len(OBJ_WEIGHTS)) if weighted else 0 for _ in edges],
            "emeta": [rng.choice([0, 0, 1, 2, 3]) for _ in edges],
            "nmeta": [rng.choice([0, 0, 1, 4]) for _ in range(n)], "hmeta": rng.choice([0, 3, 5]),
            "params": params, "mode": rng.choice(["real", "adv"]), "seed": rng.randrange(2 ** 31)}


def check_object(ctx, drv, case):
    from hypergraphx import Hypergraph
    if ctx.extra.get("object_reports", 0) >= OBJ_REPORTS:
        return
    lab = lambda v: 1000 + 7 * v        # noqa: E731 - fresh int objects > 256
    rank = {lab(v): v for v in range(case["n"])}
    params = dict(case["params"])
    try:
        with contextlib.redirect_stdout(io.StringIO()), warnings.catch_warnings():
            warnings.simplefilter("ignore")
            h = Hypergraph(edge_list=[tuple(lab(v) for v in e) for e in case["edges"]], weighted=case["weighted"],
                           weights=[OBJ_WEIGHTS[w] for w in case["weights"]] if case["weighted"] else None,
                           hypergraph_metadata=_md(case["hmeta"], "tag"),
                           edge_metadata=[_md(c) for c in case["emeta"]])
            for v in range(case["n"]):
                h.add_node(lab(v), metadata=_md(case["nmeta"][v]))
            E_in = [tuple(rank[x] for x in e) for e in h.get_edges()]
    except Exception as e:  # noqa: BLE001
        ctx.count("object_inputs_not_built")
        ctx.extra["object_build_error"] = f"{type(e).__name__}: {e}"[:100]
        return

    def report(what):
        ctx.count("object_reports")
        ctx.disagree(case, "returned object / integer arguments / unknown label: " + what)

    try:
        with NumpyDraws(case["mode"], case["seed"]) as rec:
            status, out = guarded(lambda: call_undirected(h, params, 0))
    except _NeedMore:
        return
    if status == "timeout":
        return
    both = "order" in params and "size" in params
    size = params.get("size", params["order"] + 1 if "order" in params else None)
    known = params["label"] in ("edge", "stub")
    ctx.count("object_cases")
    ctx.count("object_" + ("both" if both else "unknown_label" if not known else
                           "negative_size" if size is not None and size < 0 else "known_label"))
    if params["n_steps"] < 0:
        ctx.count("object_negative_n_steps")
    obs = None
    if status == "exc":
        obs = "raise"
        want_exc = "ValueError" if (both or known) else "AttributeError"
        if not str(out).startswith(want_exc):
            return report(f"raised {out}, the modelled refusal is a {want_exc}")
    elif out is None:
        obs = "ok none 1"
        ctx.count("object_none_returned")
    else:
        try:
            em = out.get_edges(metadata=True)
            items = sorted((tuple(sorted(rank[x] for x in e)), 1 if out.get_weight(e) == 1 and not isinstance(out.get_weight(e), bool)
                            else 997, _md_code(em[e])) for e in out.get_edges())
            nm = out.get_nodes(metadata=True)
            nodes = sorted((rank[x], _md_code(nm[x])) for x in out.get_nodes())
            hm = 0 if out.get_hypergraph_metadata() == {"weighted": False, "type": "Hypergraph"} else 998
            obs = ("obj", bool(out.is_weighted()), items, nodes, hm, 1,
                   sorted(1 if w == 1 else 997 for w in out.get_weights()))
        except Exception as e:  # noqa: BLE001
            return report(f"the returned object cannot be read: {type(e).__name__}: {e}"[:160])
    ctx.case(repr(("cmo", obs, E_in, sorted(params.items(), key=repr), case["mode"], case["seed"])),
             isinstance(obs, tuple) and {e for e, _, _ in obs[2]} != {tuple(sorted(e)) for e in E_in},
             sample={"kind": "cmo", "edges": case["edges"], "params": {k: repr(v) for k, v in params.items()}})
    if not model_on(ctx, drv):
        return
    m_sel = len([e for e in E_in if size is None or len(e) == size])
    draws, why = rec.wire(m_sel)
    if draws is None:
        return report("draw protocol differs from the model: " + why)
    if not known and rec.log:
        return report(f"unknown label {params['label']!r}: {len(rec.log)} random draws")
    opt = lambda k: params[k] if k in params else "n"      # noqa: E731
    E_sorted = [sorted(e) for e in E_in]
    line = "cmo {} {} {} {} {} {} {} {} {} {} {} {} {}".format(
        ("e" if params["label"] == "edge" else "s") if known else "o", 1 if params["detailed"] else 0,
        opt("order"), opt("size"), params["n_steps"], 1 if case["weighted"] else 0, hgxv.enc_lists(E_sorted),
        hgxv.enc_list(case["weights"]), hgxv.enc_list(case["emeta"]), hgxv.enc_list(list(range(case["n"]))),
        hgxv.enc_list(case["nmeta"]), case["hmeta"], hgxv.enc_lists(draws + [[0, 0]]))   # sentinel: must be left over
    ans = drv.ask(line)
    ctx.count("object_lines")
    t = ans.split(" ")
    if t[:2] == ["ok", "obj"] and len(t) == 10:
        mi = sorted(zip(map(tuple, hgxv.dec_lists(t[3])), hgxv.dec_list(t[4]), hgxv.dec_list(t[5])))
        got = ("obj", t[2] == "1", mi, sorted(zip(hgxv.dec_list(t[6]), hgxv.dec_list(t[7]))), int(t[8]), int(t[9]),
               sorted(w for _, w, _ in mi))
    else:
        got = ans
    if got != obs:
        report(f"implementation {str(obs)[:200]}, model (cmObj) {str(got)[:200]}")


def run_objects(ctx, drv):
    n = ctx.scale(400, 6000)
    for _ in range(n):
        if out_of_time(ctx) or ctx.extra.get("object_reports", 0) >= OBJ_REPORTS:
            break
        check_object(ctx, drv, gen_object_case(ctx.rng))


def replay(ctx, case):
    hgxv.use_repo()
    drv = ctx.driver() if ctx.model_available else None
    if case.get("kind") == "cmo":
        check_object(ctx, drv, case)
        return
    for op in case["hist"]:
        if op[0] == "call":
            op[4] = {**(op[4] or {}), "api": True}
    run_case(ctx, drv, case)
