"""C13 - configuration models preserve degrees and hyperedge sizes.

Correspondence: every random draw of the real run (np.random.randint / np.random.rand for
configuration_model, random.randint / random.choice for directed_configuration_model) is recorded by
replacing the module attributes the code looks up (no hook in the repo), the draw list is replayed in
the Lean model (lean/Hgxv/Model/C13.lean through lean/Driver/C13.lean) and the returned hyperedge
list must coincide.  Draws come either from the real generators (seeded) or from a biased source of
the harness (same contract: indices in range, floats in [0,1)), so that rare outcomes (i == j, the
same pair again, long runs of one coin) are explored as well.

Property oracles (independent Python on the real outputs, degrees counted as SETS of incident
hyperedges from get_edges()): never a higher degree, equality and the size multiset when the number
of hyperedges is preserved, untouched sizes intact; in/out degree and (|S|,|T|) shapes for the
directed model."""
import contextlib
import io
import random as pyrandom
import signal
from collections import Counter

import hgxv

RULE = ("undirected: random Hypergraph instances (3-10 nodes from a sparse integer or string universe, 2-12 distinct "
        "duplicate-free hyperedges of sizes 1-5 drawn from 1-3 size classes with forced overlaps, sometimes weighted / "
        "with isolated nodes), n_steps in {0,1,7,50}, label in {edge,stub}, detailed in {True,False}, plain call / "
        "size=s / order=s-1 with s a present size (rarely an absent one: the call raises), 3 (quick) or 6 (thorough) "
        "draw sources per input: real numpy generator seeded, or the harness' biased in-contract source; directed: "
        "random DirectedHypergraph instances (3-9 nodes, 2-10 hyperedges, duplicate-free sides, mostly disjoint and "
        "non-empty), draws from random.* seeded or biased.  A case is distinct by (canonical hyperedge list, "
        "parameters, draw list); non-trivial when the returned hyperedge set differs from the input's")
ASSUMPTIONS = ["hyperedges are duplicate-free node tuples (node sets); labels are mapped to their rank in sorted order",
               "the theorems speak of runs that return: an exhausted draw list is `diverge` (termination of the "
               "`while len(f1) != len(f2)` resampling loop is probabilistic), an exception of the code "
               "(np.random.randint(0,0,2) when no hyperedge has the requested size, random.choice of an empty side) is "
               "`raise` = no output",
               "label='vertex' is outside the property (stub- or edge-labelled only)"]
TRUSTED = ["contracts of the samplers: np.random.randint(0,m,2) returns two indices < m, np.random.rand() a float in "
           "[0,1), random.randint(0,m-1) an index < m, random.choice(seq) an element of seq (its index is recorded)",
           "iteration order of the Python set `intersection` is irrelevant (remainder independent of it, results sorted)",
           "RNG recording by attribute patching from the harness (np.random.randint/rand, random.randint/choice)"]
BUDGET_S = {"quick": 45, "thorough": 780}

CALL_TIMEOUT = 6.0


class _Timeout(BaseException):
    pass


class _NeedMore(BaseException):
    """scripted draw source: the script is exhausted; `nopts` outcomes are possible for the next draw"""

    def __init__(self, nopts):
        self.nopts = nopts


def _alarm(signum, frame):
    raise _Timeout()


def guarded(fn, secs=CALL_TIMEOUT):
    """('ok', value) | ('exc', repr) | ('timeout', None); stdout of the call is swallowed"""
    old = signal.signal(signal.SIGALRM, _alarm)
    signal.setitimer(signal.ITIMER_REAL, secs)
    try:
        with contextlib.redirect_stdout(io.StringIO()):
            return ("ok", fn())
    except _Timeout:
        return ("timeout", None)
    except Exception as e:  # noqa: BLE001 - an exception of the code under test is an observation
        return ("exc", type(e).__name__ + ": " + str(e)[:120])
    finally:
        signal.setitimer(signal.ITIMER_REAL, 0)
        signal.signal(signal.SIGALRM, old)


# ------------------------------------------------------------------------------------------
# draw sources

class NumpyDraws:
    """records (and in mode 'adv' supplies) the draws of np.random.randint / np.random.rand"""

    def __init__(self, mode, seed, script=None, streak=0):
        self.mode, self.seed, self.log = mode, seed, []
        self.script, self.pos = list(script or []), 0
        self.streak = streak   # adv mode: the first `streak` index pairs are forced to be two different positions

    def next_scripted(self, nopts):
        if self.pos >= len(self.script):
            raise _NeedMore(nopts)
        c = self.script[self.pos] % nopts
        self.pos += 1
        return c

    def __enter__(self):
        import numpy as np
        self.np = np
        self.real = (np.random.randint, np.random.rand)
        self.state = np.random.get_state()
        np.random.seed(self.seed % (2 ** 32))
        r = pyrandom.Random(self.seed)
        p_same, p_again, p_coin = r.choice([0.0, 0.15, 0.4]), r.choice([0.0, 0.2, 0.5]), r.choice([0.1, 0.5, 0.9, 0.5])
        last = [None]
        real_randint, real_rand = self.real
        log = self.log

        def randint(*a, **k):
            if (self.mode == "script" and not k and len(a) == 3 and a[0] == 0 and a[2] == 2
                    and isinstance(a[1], int) and a[1] > 0):
                res = np.array(divmod(self.next_scripted(a[1] * a[1]), a[1]))
            elif (self.mode == "adv" and not k and len(a) == 3 and a[0] == 0 and a[2] == 2
                    and isinstance(a[1], int) and a[1] > 0):
                m = a[1]
                u = r.random()
                if self.streak > 0 and m > 1:
                    # a long run of distinct positions: with all hyperedge sizes different and detailed=True the
                    # proposal loop has to scan through the whole run before it finds an admissible pair
                    self.streak -= 1
                    i = r.randrange(m)
                    j = (i + 1 + r.randrange(m - 1)) % m
                elif last[0] is not None and u < p_again and max(last[0]) < m:
                    i, j = last[0] if r.random() < 0.5 else last[0][::-1]
                elif u < p_again + p_same:
                    i = j = r.randrange(m)
                else:
                    i, j = r.randrange(m), r.randrange(m)
                last[0] = (i, j)
                res = np.array([i, j])
            else:
                res = real_randint(*a, **k)
            log.append(("randint", a, k, res))
            return res

        def rand(*a, **k):
            if self.mode == "script" and not a and not k:
                res = 0.25 if self.next_scripted(2) == 1 else 0.75
            elif self.mode == "adv" and not a and not k:
                res = 0.25 if r.random() < p_coin else 0.75
            else:
                res = real_rand(*a, **k)
            log.append(("rand", a, k, res))
            return res

        np.random.randint, np.random.rand = randint, rand
        return self

    def __exit__(self, *exc):
        self.np.random.randint, self.np.random.rand = self.real
        self.np.random.set_state(self.state)

    def wire(self, m):
        """draw list in wire form, or (None, why) when a call is not the one the model documents"""
        out = []
        for name, a, k, res in self.log:
            if name == "randint":
                if k or tuple(a) != (0, m, 2):
                    return None, f"np.random.randint called with {a} {k}, model documents (0, {m}, 2)"
                i, j = int(res[0]), int(res[1])
                if not (0 <= i < m and 0 <= j < m):
                    return None, f"randint draw {(i, j)} outside [0,{m})"
                out.append([i, j])
            else:
                if a or k:
                    return None, f"np.random.rand called with {a} {k}"
                out.append([1 if res < 0.5 else 0])
        return out, None


class PyDraws:
    """records (and in mode 'adv' supplies) the draws of random.randint / random.choice"""

    def __init__(self, mode, seed):
        self.mode, self.seed, self.log = mode, seed, []

    def __enter__(self):
        self.real = (pyrandom.randint, pyrandom.choice)
        self.state = pyrandom.getstate()
        pyrandom.seed(self.seed)
        r = pyrandom.Random(self.seed ^ 0x5DEECE66D)
        p_same, p_again = r.choice([0.0, 0.1, 0.3]), r.choice([0.0, 0.3, 0.6])
        last = []
        real_randint, real_choice = self.real
        log = self.log

        def randint(a, b):
            if self.mode == "adv" and isinstance(a, int) and isinstance(b, int) and a == 0 and b >= 0:
                u = r.random()
                if last and u < p_again:
                    res = r.choice(last[-4:])
                    res = res if res <= b else r.randint(0, b)
                elif last and u < p_again + p_same:
                    res = last[-1] if last[-1] <= b else r.randint(0, b)
                else:
                    res = r.randint(0, b)
                last.append(res)
            else:
                res = real_randint(a, b)
            log.append(("randint", (a, b), res))
            return res

        def choice(seq):
            if self.mode == "adv" and len(seq) > 0:
                res = seq[r.randrange(len(seq))]
            else:
                res = real_choice(seq)       # raises IndexError on an empty sequence, as in the real run
            log.append(("choice", len(seq), list(seq).index(res)))
            return res

        pyrandom.randint, pyrandom.choice = randint, choice
        return self

    def __exit__(self, *exc):
        pyrandom.randint, pyrandom.choice = self.real
        pyrandom.setstate(self.state)

    def wire(self, m):
        out = []
        for ent in self.log:
            if ent[0] == "randint":
                if ent[1] != (0, m - 1):
                    return None, f"random.randint called with {ent[1]}, model documents (0, {m - 1})"
                if not (0 <= ent[2] < m):
                    return None, f"random.randint draw {ent[2]} outside [0,{m - 1}]"
                out.append(int(ent[2]))
            else:
                out.append(int(ent[2]))
        return out, None


# ------------------------------------------------------------------------------------------
# generators

def gen_labels(rng, n):
    if rng.random() < 0.3:
        pool = [chr(97 + i) * k for i in range(12) for k in (1, 2)] + ["E1", "N0", "Z"]
        return sorted(rng.sample(pool, n))
    return sorted(rng.sample(range(0, 40), n))


def gen_undirected(rng):
    n = rng.randint(3, 10)
    labels = gen_labels(rng, n)
    classes = rng.sample([1, 2, 2, 3, 3, 4, 5], rng.randint(1, 3))
    m = rng.randint(2, 12)
    edges, seen = [], set()
    core = rng.sample(labels, min(n, rng.randint(2, 4)))   # forces overlaps
    for _ in range(m * 3):
        if len(edges) >= m:
            break
        k = min(n, rng.choice(classes))
        pool = core if (rng.random() < 0.35 and len(core) >= k) else labels
        e = tuple(sorted(rng.sample(pool, k)))
        if e not in seen:
            seen.add(e)
            edges.append(e)
    if len(edges) < 2:
        for e in [tuple(sorted(labels[:2])), tuple(sorted(labels[1:3]))]:
            if e not in seen:
                seen.add(e)
                edges.append(e)
    weighted = rng.random() < 0.15
    weights = [rng.choice([1, 2, 0.5, 3]) for _ in edges] if weighted else None
    iso = [x for x in labels if rng.random() < 0.1]
    return labels, edges, weights, iso


def gen_params(rng, edges):
    present = sorted({len(e) for e in edges})
    r = rng.random()
    variant = {}
    if r < 0.45:
        pass
    elif r < 0.70:
        variant = {"size": rng.choice(present)}
    elif r < 0.92:
        variant = {"order": rng.choice(present) - 1}
    else:
        absent = [s for s in range(1, 8) if s not in present]
        variant = {"size": rng.choice(absent)}
    return {"n_steps": rng.choice([0, 1, 7, 7, 50, 50]), "label": rng.choice(["edge", "stub"]),
            "detailed": rng.random() < 0.6, **variant}


def gen_directed(rng):
    n = rng.randint(3, 9)
    labels = gen_labels(rng, n)
    m = rng.randint(2, 10)
    edges, seen = [], set()
    allow_empty = rng.random() < 0.06
    allow_overlap = rng.random() < 0.15
    for _ in range(m * 3):
        if len(edges) >= m:
            break
        a = rng.randint(1, min(3, n - 1))
        b = rng.randint(1, min(3, n - a))
        if allow_empty and rng.random() < 0.3:
            if rng.random() < 0.5:
                a = 0
            else:
                b = 0
        if allow_overlap:
            e = (tuple(sorted(rng.sample(labels, a))), tuple(sorted(rng.sample(labels, b))))
        else:
            nodes = rng.sample(labels, a + b)
            e = (tuple(sorted(nodes[:a])), tuple(sorted(nodes[a:])))
        if e not in seen:
            seen.add(e)
            edges.append(e)
    iso = [x for x in labels if rng.random() < 0.1]
    return labels, edges, iso


# ------------------------------------------------------------------------------------------
# property oracles (the property's words, on the real objects)

def oracle_undirected(E_in, E_out, detailed, size):
    """E_in, E_out: lists of node tuples as returned by get_edges(); returns list of failure texts"""
    bad = []
    S_in, S_out = {frozenset(e) for e in E_in}, {frozenset(e) for e in E_out}
    nodes = set().union(*S_in, *S_out) if (S_in or S_out) else set()
    same_count = len(S_out) == len(S_in)
    if len(S_out) != len(E_out):
        bad.append("the returned hypergraph lists a hyperedge twice")
    if len(S_out) > len(S_in):
        bad.append(f"more hyperedges returned ({len(S_out)}) than given ({len(S_in)})")
    sizes_present = sorted({len(e) for e in S_in | S_out})
    for x in nodes:
        d_in, d_out = sum(1 for e in S_in if x in e), sum(1 for e in S_out if x in e)
        if d_out > d_in:
            bad.append(f"degree of node {x!r} rose from {d_in} to {d_out}")
        elif same_count and d_out != d_in:
            bad.append(f"hyperedge count preserved but degree of node {x!r} changed from {d_in} to {d_out}")
        if detailed:
            for k in sizes_present:
                a = sum(1 for e in S_in if x in e and len(e) == k)
                b = sum(1 for e in S_out if x in e and len(e) == k)
                if b > a:
                    bad.append(f"degree of node {x!r} at size {k} rose from {a} to {b}")
                elif same_count and a != b:
                    bad.append(f"hyperedge count preserved but degree of node {x!r} at size {k} changed from {a} to {b}")
    if same_count and Counter(len(e) for e in E_out) != Counter(len(e) for e in E_in):
        bad.append("hyperedge count preserved but the multiset of hyperedge sizes changed")
    if size is not None:
        keep_in = {e for e in S_in if len(e) != size}
        keep_out = {e for e in S_out if len(e) != size}
        if keep_in != keep_out:
            bad.append(f"hyperedges of sizes other than {size} were not returned intact: "
                       f"missing {sorted(map(sorted, keep_in - keep_out))[:3]}, new {sorted(map(sorted, keep_out - keep_in))[:3]}")
    return bad


def oracle_directed(E_in, E_out):
    bad = []
    S_in = {(frozenset(s), frozenset(t)) for s, t in E_in}
    S_out = {(frozenset(s), frozenset(t)) for s, t in E_out}
    nodes = set()
    for s, t in S_in | S_out:
        nodes |= s | t
    same_count = len(S_out) == len(S_in)
    if len(S_out) != len(E_out):
        bad.append("the returned hypergraph lists a hyperedge twice")
    if len(S_out) > len(S_in):
        bad.append(f"more hyperedges returned ({len(S_out)}) than given ({len(S_in)})")
    for x in nodes:
        for side, name in ((0, "source-side"), (1, "target-side")):
            a = sum(1 for e in S_in if x in e[side])
            b = sum(1 for e in S_out if x in e[side])
            if b > a:
                bad.append(f"{name} degree of node {x!r} rose from {a} to {b}")
            elif same_count and a != b:
                bad.append(f"hyperedge count preserved but {name} degree of node {x!r} changed from {a} to {b}")
    if same_count and Counter((len(s), len(t)) for s, t in E_out) != Counter((len(s), len(t)) for s, t in E_in):
        bad.append("hyperedge count preserved but the multiset of (source size, target size) shapes changed")
    return bad


# ------------------------------------------------------------------------------------------
# one undirected case

def build_undirected(labels, edges, weights, iso):
    from hypergraphx import Hypergraph
    h = Hypergraph(weighted=weights is not None)
    for x in iso:
        h.add_node(x)
    if weights is not None:
        h.add_edges([tuple(e) for e in edges], weights=list(weights))
    else:
        h.add_edges([tuple(e) for e in edges])
    return h


def check_undirected(ctx, drv, case):
    from hypergraphx.generation.configuration_model import configuration_model
    labels, edges, weights, iso = case["labels"], [tuple(e) for e in case["edges"]], case.get("weights"), case.get("isolated", [])
    params, mode, seed = dict(case["params"]), case["mode"], case["seed"]
    try:
        h = build_undirected(labels, edges, weights, iso)
        E_in = [tuple(e) for e in h.get_edges()]
    except Exception as e:  # noqa: BLE001
        ctx.disagree(case, f"could not build the input hypergraph: {type(e).__name__}: {e}")
        return
    rank = {x: i for i, x in enumerate(sorted(set(labels)))}
    size = params.get("size", params["order"] + 1 if "order" in params else None)
    try:
        with NumpyDraws(mode, seed, case.get("script"), case.get("streak", 0)) as rec:
            status, out = guarded(lambda: configuration_model(h, **params))
    except _NeedMore as more:
        return more.nopts
    real = None
    if status == "ok":
        try:
            E_after = [tuple(e) for e in h.get_edges()]
            E_out = [tuple(e) for e in out.get_edges()]
            real = sorted(tuple(rank[x] for x in e) for e in E_out)
        except Exception as e:  # noqa: BLE001
            status, out = "exc", f"unreadable result: {type(e).__name__}: {e}"
    ctx.count("undirected_runs")
    ctx.count("undirected_" + status)
    ctx.count("draws_recorded", len(rec.log))
    # ---- property oracles on the implementation
    nontrivial = False
    if status == "ok":
        for why in oracle_undirected(E_in, E_out, params["detailed"], size)[:3]:
            ctx.violation(case, "configuration_model: " + why)
        if sorted(E_after) != sorted(E_in):
            ctx.violation(case, "configuration_model changed its input hypergraph")
        nontrivial = {frozenset(e) for e in E_out} != {frozenset(e) for e in E_in}
        if len(E_out) < len(E_in):
            ctx.count("undirected_merged_hyperedges")
        if any(len(a) != len(b) for a in E_in for b in E_in) and not params["detailed"] and nontrivial:
            ctx.count("undirected_mixed_size_reshuffles")
    elif status == "timeout":
        ctx.count("timeouts")
        ctx.disagree(case, f"configuration_model did not return within {CALL_TIMEOUT:.0f} s "
                           f"({len(rec.log)} draws consumed); the model returns with probability one")
    m_sel = len([e for e in E_in if size is None or len(e) == size])
    key = repr((sorted(real) if real is not None else status, sorted(map(repr, E_in)), sorted(params.items()), mode, seed))
    if mode == "script":
        key = repr((key, case.get("script")))
    ctx.case(key, nontrivial, sample={k: case[k] for k in ("edges", "params", "mode", "seed")})
    # ---- correspondence with the Lean model
    if drv is None or status == "timeout":
        return
    draws, why = rec.wire(m_sel)
    if draws is None:
        ctx.disagree(case, "draw protocol differs from the model: " + why)
        return
    line = "cm {} {} {} {} {} {}".format(
        "e" if params["label"] == "edge" else "s", 1 if params["detailed"] else 0,
        -1 if size is None else size, params["n_steps"],
        hgxv.enc_lists([[rank[x] for x in e] for e in E_in]), hgxv.enc_lists(draws))
    ans = drv.ask(line)
    if status == "exc":
        if ans != "raise":
            ctx.disagree(case, f"implementation raised ({out}); model answers {ans[:80]!r}")
        return
    if not ans.startswith("ok "):
        ctx.disagree(case, f"implementation returned {real}; model answers {ans!r}")
        return
    model = sorted(tuple(e) for e in hgxv.dec_lists(ans[3:]))
    if model != real:
        ctx.disagree(case, f"returned hyperedges differ: implementation {real}, model {model}")
        return
    # the model's observables (degK, deg of Model/C13.lean) are the property's degrees
    if real and ctx.rng.random() < 0.25:
        x = ctx.rng.choice(sorted({v for e in real for v in e}))
        k = ctx.rng.choice(sorted({len(e) for e in real}))
        enc = hgxv.enc_lists(real)
        a1, a2 = drv.batch([f"degk {enc} {x} {k}", f"deg {enc} {x}"])
        w1 = sum(1 for e in set(real) if x in e and len(e) == k)
        w2 = sum(1 for e in set(real) if x in e)
        if a1 != str(w1) or a2 != str(w2):
            ctx.disagree(case, f"model observables degK/deg = {a1}/{a2}, definition gives {w1}/{w2} (node rank {x}, size {k})")
        ctx.count("observable_probes")
    # the model must consume exactly the recorded draws: one draw less must not suffice when it needs them all
    if draws and ctx.rng.random() < 0.1:
        ans2 = drv.ask(line.rsplit(" ", 1)[0] + " " + hgxv.enc_lists(draws[:-1]))
        if ans2 != "diverge":
            ctx.disagree(case, f"model does not need the last recorded draw (answers {ans2[:60]!r} without it)")
        ctx.count("exhaustion_probes")


# ------------------------------------------------------------------------------------------
# one directed case

def check_directed(ctx, drv, case):
    from hypergraphx import DirectedHypergraph
    from hypergraphx.generation.directed_configuration_model import directed_configuration_model
    labels, iso = case["labels"], case.get("isolated", [])
    edges = [(tuple(e[0]), tuple(e[1])) for e in case["edges"]]
    mode, seed = case["mode"], case["seed"]
    try:
        h = DirectedHypergraph()
        for x in iso:
            h.add_node(x)
        for e in edges:
            h.add_edge(e)
        E_in = [(tuple(s), tuple(t)) for s, t in h.get_edges()]
    except Exception as e:  # noqa: BLE001
        ctx.disagree(case, f"could not build the input hypergraph: {type(e).__name__}: {e}")
        return
    rank = {x: i for i, x in enumerate(sorted(set(labels)))}
    with PyDraws(mode, seed) as rec:
        status, out = guarded(lambda: directed_configuration_model(h))
    real = None
    if status == "ok":
        try:
            E_after = [(tuple(s), tuple(t)) for s, t in h.get_edges()]
            E_out = [(tuple(s), tuple(t)) for s, t in out.get_edges()]
            real = sorted((tuple(rank[x] for x in s), tuple(rank[x] for x in t)) for s, t in E_out)
        except Exception as e:  # noqa: BLE001
            status, out = "exc", f"unreadable result: {type(e).__name__}: {e}"
    ctx.count("directed_runs")
    ctx.count("directed_" + status)
    ctx.count("draws_recorded", len(rec.log))
    nontrivial = False
    if status == "ok":
        for why in oracle_directed(E_in, E_out)[:3]:
            ctx.violation(case, "directed_configuration_model: " + why)
        if sorted(E_after) != sorted(E_in):
            ctx.violation(case, "directed_configuration_model changed its input hypergraph")
        nontrivial = set(E_out) != set(E_in)
        if len(E_out) < len(E_in):
            ctx.count("directed_merged_hyperedges")
    elif status == "timeout":
        ctx.count("timeouts")
        ctx.disagree(case, f"directed_configuration_model did not return within {CALL_TIMEOUT:.0f} s; it has no unbounded loop")
    key = repr((real if real is not None else status, sorted(map(repr, E_in)), mode, seed))
    ctx.case(key, nontrivial, sample={k: case[k] for k in ("edges", "mode", "seed")})
    if drv is None or status == "timeout":
        return
    draws, why = rec.wire(len(E_in))
    if draws is None:
        ctx.disagree(case, "draw protocol differs from the model: " + why)
        return
    line = "dcm {} {} {}".format(hgxv.enc_lists([[rank[x] for x in s] for s, _ in E_in]),
                                 hgxv.enc_lists([[rank[x] for x in t] for _, t in E_in]), hgxv.enc_list(draws))
    ans = drv.ask(line)
    if status == "exc":
        if ans != "raise":
            ctx.disagree(case, f"implementation raised ({out}); model answers {ans[:80]!r}")
        return
    toks = ans.split(" ")
    if toks[0] != "ok" or len(toks) != 3:
        ctx.disagree(case, f"implementation returned {real}; model answers {ans!r}")
        return
    model = sorted(zip((tuple(s) for s in hgxv.dec_lists(toks[1])), (tuple(t) for t in hgxv.dec_lists(toks[2]))))
    if model != real:
        ctx.disagree(case, f"returned hyperedges differ: implementation {real}, model {model}")


# ------------------------------------------------------------------------------------------

def explore_undirected(ctx, drv, base, max_nodes, max_depth):
    """walk the tree of ALL draw outcomes of the real code for one small input: the scripted source
    aborts the run at the first draw beyond the script and reports how many outcomes that draw has"""
    stack, nodes = [[]], 0
    while stack and nodes < max_nodes and not out_of_time(ctx):
        script = stack.pop()
        nodes += 1
        need = check_undirected(ctx, drv, {**base, "mode": "script", "script": script, "seed": 0})
        if need is None:
            ctx.count("exhaustive_leaves")
        elif len(script) >= max_depth:
            ctx.count("exhaustive_cut_at_depth")
        else:
            stack.extend(script + [c] for c in range(need))
    if stack:
        ctx.count("exhaustive_trees_truncated")
    else:
        ctx.count("exhaustive_trees_complete")


def gen_small(rng):
    n = rng.randint(3, 5)
    labels = gen_labels(rng, n)
    m = rng.choice([2, 2, 3])
    edges, seen = [], set()
    while len(edges) < m:
        e = tuple(sorted(rng.sample(labels, rng.choice([1, 2, 2, 3]))))
        if e not in seen:
            seen.add(e)
            edges.append(e)
    params = gen_params(rng, edges)
    params["n_steps"] = 1 if m == 3 else rng.choice([1, 2])
    return labels, edges, params


def out_of_time(ctx):
    # keep searching for a failing input of the property after the correspondence broke
    return len(ctx.violations) >= 3 or len(ctx.disagreements) >= 60 or ctx.extra.get("timeouts", 0) >= 2 or (ctx.time_left() is not None and ctx.time_left() < 8)


def run(ctx):
    hgxv.use_repo()
    drv = ctx.driver() if ctx.model_available else None
    rng = ctx.rng
    n_inputs = ctx.scale(2000, 40000)
    per_input = ctx.scale(3, 6)
    n_trees = ctx.scale(10, 300)
    for it in range(n_inputs):
        if out_of_time(ctx):
            break
        if it % max(1, n_inputs // n_trees) == 0:
            labels, edges, params = gen_small(rng)
            explore_undirected(ctx, drv, {"kind": "cm", "labels": labels, "edges": edges, "weights": None,
                                          "isolated": [], "params": params}, ctx.scale(1500, 6000), 9)
        if it % 97 == 5:
            # very size-heterogeneous input (all sizes different), detailed, with a long streak of inadmissible pairs
            k = rng.randint(3, 6)
            labels = gen_labels(rng, k + 1)
            edges = [tuple(sorted(rng.sample(labels, sz))) for sz in range(1, k + 1)]
            rng.shuffle(edges)
            case = {"kind": "cm", "labels": labels, "edges": edges, "weights": None, "isolated": [],
                    "params": {"n_steps": rng.choice([1, 3]), "label": rng.choice(["edge", "stub"]), "detailed": True},
                    "mode": "adv", "seed": rng.randrange(2 ** 31), "streak": rng.choice([55, 130, 300])}
            ctx.count("heterogeneous_streak_cases")
            check_undirected(ctx, drv, case)
        if it % 4 != 3:
            labels, edges, weights, iso = gen_undirected(rng)
            params = gen_params(rng, edges)
            for _ in range(per_input):
                case = {"kind": "cm", "labels": labels, "edges": edges, "weights": weights, "isolated": iso,
                        "params": params, "mode": rng.choice(["real", "adv"]), "seed": rng.randrange(2 ** 31)}
                check_undirected(ctx, drv, case)
                if params["n_steps"] == 0:
                    break
        else:
            labels, edges, iso = gen_directed(rng)
            for _ in range(per_input):
                case = {"kind": "dcm", "labels": labels, "edges": edges, "isolated": iso,
                        "mode": rng.choice(["real", "adv"]), "seed": rng.randrange(2 ** 31)}
                check_directed(ctx, drv, case)


def replay(ctx, case):
    hgxv.use_repo()
    drv = ctx.driver() if ctx.model_available else None
    if case.get("kind") == "dcm":
        check_directed(ctx, drv, case)
    else:
        check_undirected(ctx, drv, case)
