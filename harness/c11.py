"""C11 - motif census: correspondence of lean/Hgxv/Model/C11.lean with hypergraphx.motifs.* and
independent property oracles (exhaustive enumeration of node subsets) on the implementation.

The explored unit is a SESSION: several related hypergraphs over one label universe, analysed one after the other in
this process (orders 3 and 4 each), plus one long-lived container object that is edited in place from one hypergraph
to the next.  A reported case carries `history` = the earlier steps that have to be re-run before it (see `replay`)."""
import contextlib
import io
import itertools
import json
import os
import signal
import subprocess
import sys
import time

import hgxv

RULE = ("(a) generate_motifs(3) and generate_motifs(4) compared IN FULL with the model's tables (classes, mapping, "
        "labeling keys, _is_connected on all 16 / 2048 labelled patterns); (b) sessions of 3-4 related Hypergraph "
        "instances over ONE label universe (4-8 integer labels of every magnitude and every mixture of magnitudes: "
        "session i takes them from recipe i mod 16 - small; small next to [2**63, 2**64); x next to -x; both sides of "
        "2**63; around 2**53 and 2**24; beyond 2**64 and around 2**100 / 2**200; x next to x + k*2**32; negative next to "
        "[2**63, 2**64); [2**63, 2**64) alone; x next to x + k*2**64; small, huge and around -2**63 / -2**64; all 15 "
        "bands; around 2**63, -2**63 and 2**31 / 2**32; x next to x + k*(2**61 - 1) (equal hashes); small, int64 top, "
        "uint64 and beyond; equal hashes and x next to -x - every band of the recipe present, random shares, whole collision groups of the wrap / sign "
        "/ hash families; every label a new int object per occurrence; the third hypergraph of every session is built "
        "from numpy integer scalars (session i: widest / any fitting type / alternating with Python ints from "
        "occurrence to occurrence; labels beyond 64 bits stay Python ints); 2-16 "
        "hyperedges of size 1-6, nested and overlapping hyperedges injected; the next instance is derived from the "
        "previous one by dissolving a hyperedge into pairs / facets on the same nodes, fusing a connected node set "
        "into one hyperedge, permuting the labels inside the universe, rewiring one hyperedge, exchanging a node between two hyperedges (sizes and degrees kept), random churn, or "
        "nothing), all analysed in this one process, orders 3 and 4: compute_motifs(h, n, 0)['observed'] and the "
        "three passes (tallies, visited sets) against the model and against exhaustive enumeration of all n-subsets; "
        "the same hypergraph relabelled into fresh labels of the session's pool (60 integers of the same bands) and rebuilt in 5 random insertion orders (node order "
        "inside hyperedges shuffled too); the census of one long-lived Hypergraph object that is edited in place "
        "(remove_edge / add_edge) from instance to instance; (c) sessions of DirectedHypergraph instances (4-7 nodes, "
        "disjoint non-empty sides, size 2-6) with compute_directed_motifs likewise (canonical keys, relabelling, "
        "removal/addition of larger hyperedges, enumeration, visited sets of both passes, in-place edited object); "
        "(d) un-instrumented processes (5 quick / 72 thorough): a NEW Python process in which nothing of "
        "hypergraphx.motifs is imported, called or replaced before the first census makes 6-16 plain calls of "
        "compute_motifs / compute_directed_motifs (orders 3 and 4, censuses of one order in a row on 2-4 different "
        "hypergraphs or hypergraph by hypergraph, undirected before / after / interleaved with directed, the first "
        "hypergraph of the first two scripts and of 85% of the others holds hyperedges of size 3 and 4 (the first two "
        "scripts: both orders, one order in a row, 3 first / 4 first; in these and in half of the others the nodes of "
        "that hyperedge are also joined by a path of pairs), the first census is repeated at the end, "
        "objects kept, rebuilt or edited in place, one null-model round somewhere or in the very first call; label recipes "
        "as in (b): scripts 0-4 = small next to [2**63, 2**64) / small, int64 top, uint64 and beyond / all bands / "
        "negative next to [2**63, 2**64) / both sides of 2**63, every third hypergraph drawn in a script from numpy "
        "scalars); every "
        "'observed' list is judged outside that process by exhaustive enumeration and by the model; "
        "(e) the null-model arithmetic: 60 quick / 1500 thorough count tables (1-171 classes, 1-10 rounds, counts up to "
        "2**40, every 5th undirected table all-equal = zero vector; directed tables with keys no round reported and "
        "empty rounds) through utils.diff_sum / norm_vector / directed_diff_sum against the documented formula in exact "
        "fractions and against the model (Model/C11Stats.lean, math.sqrt handed over), plus 2 / 16 seeded calls of "
        "compute_motifs / compute_directed_motifs with runs_config_model=2 whose 'norm_delta' is recomputed from "
        "their own 'observed' and 'config_model'; in (c) the model's classified node sets (dCounted) and the sum of "
        "the census counts against the implementation's final visited dict; in (b), wherever the three passes are "
        "called directly, the model's enumeration countedPats (node sets per pass with the pattern handed to the "
        "class table; Model/C11Enum.lean) against the passes' visited dicts and the node sets the ESU pass looks up "
        "in `visited` and does not find, against the property's words (every connected n-subset classified exactly "
        "once over the three passes; pattern = induced sub-hypergraph with nodes replaced by ranks) and against the "
        "model run with reversed incidence lists, adjacency lists and key order (countedWith). "
        "A case is distinct by (kind, order, canonical hyperedge list); non-trivial when at least 3 classes have a "
        "non-zero count")
ASSUMPTIONS = ["integer node labels (Python ints of any magnitude; numpy integer scalars are read as the integers they "
               "hold); hyperedge sizes 1..6 (the property's quantifier); labels reach the model and the enumeration "
               "oracle as ranks / Python ints, so both are exact for every magnitude",
               "directed hyperedges have disjoint non-empty source and target sets (the property's quantifier)",
               "most order-4 steps run with hypergraphx.motifs.utils.generate_motifs memoised by the harness for the "
               "duration of ONE step (the function itself is compared in full with the model once per run and a few "
               "steps per run are made without the memo; every order-3 step is made without it); the memo returns a "
               "fresh copy of the counting dict on every call",
               "in the harness process the harness is the first caller of generate_motifs(3), generate_motifs(4) and "
               "_is_connected (table check before any census), it calls the three passes directly and makes extra "
               "censuses between two steps; the twin without any of this is stream (d): new Python processes that "
               "only import, build and call compute_motifs / compute_directed_motifs (a per-call alarm and the "
               "result file are the only additions), judged from outside",
               "the direct call of _motifs_standard (never compute_motifs itself) receives its `visited` argument as a "
               "dict subclass that records the keys tested with `in` and not found; it is a dict in every other respect",
               "a finding's replay re-runs the steps listed in its `history` (by default the earlier steps of its "
               "session; the harness tries shorter / longer prefixes in a fresh process and keeps the first that "
               "reproduces the finding)"]
TRUSTED = ["Python set/dict iteration order does not influence the counted node subsets (the model pops the head of a "
           "list where graph_extend pops an arbitrary set element; only counts and sorted node sets are compared; for the orders of "
           "the incidence / adjacency lists and of graph.keys() this is the theorem C11_counted_incidence_order)"]
BUDGET_S = {"quick": 50, "thorough": 800}

LOG = []            # every step made in this process, in order
CONFIRM = True      # main run: the history of a finding is settled in a fresh process
CONFIRMS_LEFT = [3]


class Timeout(Exception):
    pass


class ToolFailure(Exception):
    """the Lean driver (not the implementation) failed"""


def _alarm(signum, frame):
    raise Timeout()


def guarded(f, *a, secs=8, **k):
    """run an implementation call: stdout swallowed, exceptions and hangs become observations"""
    old = signal.signal(signal.SIGALRM, _alarm)
    signal.alarm(secs)
    try:
        with contextlib.redirect_stdout(io.StringIO()):
            return ("ok", f(*a, **k))
    except Timeout:
        return ("exc", "timeout after %ds" % secs)
    except Exception as e:  # noqa: BLE001
        return ("exc", type(e).__name__ + ": " + str(e)[:200])
    finally:
        signal.alarm(0)
        signal.signal(signal.SIGALRM, old)


def ask(drv, lines):
    try:
        return drv.batch(lines)
    except Exception as e:  # noqa: BLE001
        raise ToolFailure(repr(e))


# ------------------------------------------------------------------------------------------
# patterns as masks (independent of the implementation)

def hyperedge_list(n):
    """the list A of generate_motifs over nodes 1..n"""
    A = []
    for r in range(n, 1, -1):
        A.extend(itertools.combinations(range(1, n + 1), r))
    return A


AIDX = {n: {e: i for i, e in enumerate(hyperedge_list(n))} for n in (3, 4)}


def mask_of(n, pat):
    """labelled pattern (iterable of node tuples over 1..n) -> mask; None when it is not a set of hyperedges of size 2..n"""
    m = 0
    try:
        for e in pat:
            i = AIDX[n][tuple(sorted(e))]
            if m >> i & 1:
                return None
            m |= 1 << i
    except (KeyError, TypeError):
        return None
    return m


def pat_of(n, m):
    A = hyperedge_list(n)
    return tuple(sorted(A[i] for i in range(len(A)) if m >> i & 1))


def canon_pat(n, edges):
    """minimum over the n! relabellings of the sorted tuple of sorted hyperedges (nodes 1..n)"""
    best = None
    for p in itertools.permutations(range(1, n + 1)):
        c = tuple(sorted(tuple(sorted(p[v - 1] for v in e)) for e in edges))
        if best is None or c < best:
            best = c
    return best


def connected_sets(nodes, edges):
    """do the hyperedges (each inside `nodes`) connect all of `nodes`? (union-find)"""
    par = {x: x for x in nodes}

    def find(x):
        while par[x] != x:
            par[x] = par[par[x]]
            x = par[x]
        return x
    for e in edges:
        for y in e[1:]:
            par[find(e[0])] = find(y)
    return len({find(x) for x in nodes}) == 1


def brute_census(E, n):
    """the property's words: every n-subset, its hyperedges of size >= 2, kept when connected, classified up to permutation"""
    nodes = sorted({x for e in E for x in e})
    Es = [tuple(sorted(e)) for e in E if 2 <= len(e)]
    out = {}
    for T in itertools.combinations(nodes, n):
        Ts = set(T)
        inner = [e for e in Es if set(e) <= Ts]
        if not inner or not connected_sets(T, inner):
            continue
        rank = {x: i + 1 for i, x in enumerate(T)}
        key = canon_pat(n, [tuple(rank[x] for x in e) for e in inner])
        out[key] = out.get(key, 0) + 1
    return out


# ------------------------------------------------------------------------------------------
# (a) tables

def check_tables(ctx, drv, sess, case):
    from hypergraphx.motifs import utils
    n = case["n"]
    st, res = guarded(utils.generate_motifs, n, secs=25)
    if st != "ok":
        ctx.violation(case, f"generate_motifs({n}) failed: {res}")
        return None
    try:
        mapping, labeling = res
        cls = {}
        for k, labs in mapping.items():
            cls[mask_of(n, k)] = sorted(mask_of(n, l) for l in labs)
        labkeys = sorted(mask_of(n, l) for l in labeling)
        zero = all(v == 0 for v in labeling.values())
    except Exception as e:  # noqa: BLE001
        ctx.violation(case, f"generate_motifs({n}) returned something unreadable: {e!r}")
        return None
    want = {3: 6, 4: 171}[n]
    # property oracle, independent of the model: number of classes, pairwise non-isomorphic, every connected
    # labelled pattern is a relabelling of exactly one class
    if len(mapping) != want:
        ctx.violation(case, f"generate_motifs({n}) yields {len(mapping)} classes, expected {want}")
    if None in cls or any(None in v for v in cls.values()):
        ctx.violation(case, f"generate_motifs({n}) yields a pattern that is not a set of hyperedges of size 2..{n}")
        return None
    canon_of = {}
    for c in cls:
        canon_of.setdefault(canon_pat(n, pat_of(n, c)), []).append(c)
    dup = [v for v in canon_of.values() if len(v) > 1]
    if dup:
        ctx.violation(case, f"generate_motifs({n}): classes {dup[0]} are isomorphic (reported more than once)")
    A = hyperedge_list(n)
    conn = []
    for m in range(1 << len(A)):
        es = [A[i] for i in range(len(A)) if m >> i & 1]
        if es and connected_sets(list(range(1, n + 1)), es) and {x for e in es for x in e} == set(range(1, n + 1)):
            conn.append(m)
            owners = [c for c, labs in cls.items() if m in labs]
            if len(owners) != 1:
                ctx.violation({**case, "pattern": pat_of(n, m)},
                              f"connected labelled pattern {pat_of(n, m)} belongs to {len(owners)} classes of generate_motifs({n})")
                break
            if canon_pat(n, es) != canon_pat(n, pat_of(n, owners[0])):
                ctx.violation({**case, "pattern": pat_of(n, m)}, "pattern filed under a non-isomorphic class")
                break
    if sorted(set(labkeys)) != conn:
        ctx.violation(case, f"labeling keys of generate_motifs({n}) are not exactly the connected labelled patterns "
                            f"({len(set(labkeys))} keys, {len(conn)} connected patterns)")
    if not zero:
        ctx.violation(case, f"generate_motifs({n}) returns non-zero initial counts")
    # a second call must give the same tables again, with fresh zero counts (nothing kept from the first call)
    st_b, res_b = guarded(utils.generate_motifs, n, secs=25)
    try:
        same = st_b == "ok" and res_b[0] == mapping and set(res_b[1]) == set(labeling) and not any(res_b[1].values())
    except Exception:  # noqa: BLE001
        same = False
    if not same:
        ctx.violation(case, f"a second call of generate_motifs({n}) does not return the same tables with zero counts")
    ic = []
    bad_calls = 0
    for m in range(1 << len(A)):
        es = [A[i] for i in range(len(A)) if m >> i & 1]
        st2, r2 = guarded(utils._is_connected, es, n, secs=3)
        if st2 == "ok" and r2:
            ic.append(m)
        elif st2 != "ok":
            bad_calls += 1
            if bad_calls >= 3:
                ctx.violation(case, f"_is_connected raises / hangs on labelled patterns: {r2}")
                break
    ctx.case(("tables", n), True, sample=case)
    ctx.count(f"table_entries_n{n}", len(labkeys) + len(cls))
    if drv is not None:
        ans = ask(drv, [f"classes {n}", f"orbits {n}", f"labeling {n}", f"connected {n}"])
        if sorted(hgxv.dec_list(ans[0])) != sorted(cls):
            ctx.disagree(case, f"class representatives differ: model {ans[0][:200]}, implementation {sorted(cls)[:40]}")
        morb = {}
        for item in ans[1].split(";"):
            c, labs = item.split("=")
            morb[int(c)] = hgxv.dec_list(labs)
        if morb != cls:
            bad = [c for c in cls if morb.get(c) != cls[c]][:3]
            ctx.disagree(case, f"mapping differs from the model's orbits at classes {bad}")
        if hgxv.dec_list(ans[2]) != labkeys:
            ctx.disagree(case, "labeling keys differ from the model's")
        if hgxv.dec_list(ans[3]) != ic:
            ctx.disagree(case, f"_is_connected differs from the model on {len(set(ic) ^ set(hgxv.dec_list(ans[3])))} of the labelled patterns")
    return res


class Memo:
    """memoised generate_motifs (fresh counting dict per call); installed around most order-4 calls"""

    def __init__(self):
        from hypergraphx.motifs import utils
        self.utils = utils
        self.real = utils.generate_motifs
        self.cache = {}

    def __call__(self, n):
        if n not in self.cache:
            self.cache[n] = self.real(n)
        mapping, labeling = self.cache[n]
        return mapping, dict.fromkeys(labeling, 0)

    def __enter__(self):
        self.utils.generate_motifs = self
        return self

    def __exit__(self, *a):
        self.utils.generate_motifs = self.real


# ------------------------------------------------------------------------------------------
# sessions

class Session:
    """what lives from one step of a session to the next: the steps made so far (= the prefix a replay re-runs) and
    the long-lived container objects that are edited in place"""

    def __init__(self):
        self.steps = []
        self.live = {}      # kind -> [object, set of canonical hyperedges it holds]


class Mute:
    """ctx stand-in while the history of a case is re-run: nothing is reported"""

    def __init__(self, ctx):
        self._ctx = ctx
        self.violations = []
        self.disagreements = []

    def case(self, *a, **k):
        pass

    def count(self, *a, **k):
        pass

    def known(self, *a, **k):
        pass

    def violation(self, case, what):
        self.violations.append((case, what))

    def disagree(self, case, what):
        self.disagreements.append((case, what))

    def too_many(self, n=5):
        return False

    def time_left(self):
        return self._ctx.time_left()


# ------------------------------------------------------------------------------------------
# label universes: "integer labels" means every magnitude, and every MIXTURE of magnitudes inside one hypergraph.
# A band is a family of integers that some lossy representation treats specially (a machine word, a float mantissa, a
# hash modulus): a census that sends node subsets through such a representation (an array, a cast, a hash) is exact
# on some bands and on some mixtures only.  Enumeration and the model see labels as ranks: their cost and their
# answers do not depend on the magnitudes.

def _around(c, lo, hi):
    return [c + d for d in range(lo, hi)]


M61 = (1 << 61) - 1          # CPython's hash modulus for integers
BANDS = {
    "small": list(range(0, 100)),
    "neg": list(range(-100, 0)),
    "f32": _around(1 << 24, -30, 60),                                                  # float32 mantissa
    "i32": _around(1 << 31, -20, 20) + _around(1 << 32, -20, 20) + _around(-(1 << 31), -20, 20),
    "f64": _around(1 << 53, -20, 40) + _around(-(1 << 53), -30, 10),                   # float64 mantissa
    "m61": _around(M61, -20, 40) + _around(1 << 60, 0, 30),
    "i63": _around(1 << 63, -60, 0),                                                   # top of int64
    "u64": _around(1 << 63, 0, 40) + _around(1 << 64, -40, 0)                           # uint64 only
           + [(1 << 63) + (k << 40) + 2 * k + 1 for k in range(1, 30)],
    "o64": _around(1 << 64, 0, 40) + _around(1 << 65, 0, 30),                           # no machine word
    "huge": _around(1 << 100, 0, 30) + _around(1 << 200, 0, 30) + _around(-(1 << 100), -30, 0),
    "n63": _around(-(1 << 63), -30, 30) + _around(-(1 << 64), -20, 20),
    # families whose members collide under a wrap-around / sign / hash reduction
    "wrap32": [x + (k << 32) for x in range(12) for k in (0, 1, 2, -1)],
    "wrap64": [x + (k << 64) for x in range(12) for k in (0, 1, 2, -1)],
    "mirror": [s * x for x in range(1, 31) for s in (1, -1)],
    "hashmod": [x + k * M61 for x in range(-2, 10) for k in range(4)],                  # hash(-1) == hash(-2) too
}
ALL_BANDS = sorted(BANDS)
RECIPES = [
    ["small"],
    ["small", "u64"],                  # a label of [2**63, 2**64) next to int64-range labels: numpy makes float64 of it
    ["mirror"],                        # negative next to positive, x next to -x
    ["i63", "u64"],
    ["f64", "f32"],
    ["o64", "huge"],
    ["wrap32"],                        # small next to 2**32 + small, 2**33 + small, -2**32 + small
    ["neg", "u64"],
    ["u64"],
    ["wrap64"],                        # small next to 2**64 + small, 2**65 + small, -2**64 + small
    ["small", "huge", "n63"],
    ALL_BANDS,
    ["i63", "n63", "i32"],
    ["hashmod"],                       # -2 .. 9 next to the same plus multiples of 2**61 - 1
    ["small", "i63", "u64", "o64"],
    ["hashmod", "mirror"],
]
PRISTINE_RECIPES = [1, 14, 11, 7, 3, 0, 5, 9, 6, 12, 2, 13, 10, 4, 8, 15]


def recipe_name(recipe):
    bands = RECIPES[recipe % len(RECIPES)]
    return "all_bands" if bands is ALL_BANDS else "+".join(bands)


FAMILY_KEY = {"mirror": abs, "wrap32": lambda x: x % (1 << 32), "wrap64": lambda x: x % (1 << 64), "hashmod": hash}


def universe(seed, tag, recipe, n):
    """the labels of one generated hypergraph and the label pool of its session: -> (labels, pool).
    labels = n distinct integers (ascending) from the bands of RECIPES[recipe]: every band of the recipe is present
    when n allows it, the shares are random (one label of a band next to n-1 of another, or half / half); from a
    collision family whole collision groups are taken (x next to -x, x next to x + 2**32 ...), so that colliding
    labels meet inside one hyperedge / one node subset.  pool = 60 integers of the same bands that contain the labels:
    targets of the `fresh` relabelling.
    Own PRNG; the generators draw the SHAPE of a hypergraph over positions 0..39 from the main stream and the
    positions used are mapped to `labels` in ascending order, so the shapes explored for a seed do not depend on the
    recipes (and are the ones explored before label universes existed)."""
    import random
    r = random.Random(f"C11 labels {seed} {tag} {recipe}")
    bands = list(RECIPES[recipe % len(RECIPES)])
    r.shuffle(bands)
    used = bands[:n]
    shares = [1] * len(used)
    for _ in range(n - len(used)):
        lone = [k for k, b in enumerate(used) if b in FAMILY_KEY and shares[k] < 2]     # a family: at least a pair
        shares[lone[0] if lone else r.randrange(len(used))] += 1
    labels = set()
    for b, k in zip(used, shares):
        cand = [x for x in BANDS[b] if x not in labels]
        if b in FAMILY_KEY:
            groups = {}
            for x in cand:
                groups.setdefault(FAMILY_KEY[b](x), []).append(x)
            groups = list(groups.values())
            r.shuffle(groups)
            take = []
            for g in groups:
                r.shuffle(g)
                take.extend(g[:r.randint(2, 3)])
                if len(take) >= k:
                    break
            labels.update(take[:k])
        else:
            labels.update(r.sample(cand, k))
    pool = set(labels)
    rest = sorted({x for b in bands for x in BANDS[b]} - pool)
    while len(labels) < n:                      # (not reached with the bands above: every band has 48+ members)
        labels.add(rest.pop(r.randrange(len(rest))))
    pool.update(r.sample(rest, min(len(rest), 60 - len(pool))))
    return sorted(labels), sorted(pool | labels)


def place(labels0, edges0, labels):
    """the shape (labels0 ascending, edges0) carried over to `labels` (ascending): same ranks"""
    m = dict(zip(labels0, labels))

    def f(e):
        return tuple(f(x) for x in e) if isinstance(e, tuple) else m[e]
    return [f(e) for e in edges0]


NP_KINDS = [("int8", -(1 << 7), 1 << 7), ("uint8", 0, 1 << 8), ("int16", -(1 << 15), 1 << 15), ("uint16", 0, 1 << 16),
            ("int32", -(1 << 31), 1 << 31), ("uint32", 0, 1 << 32), ("int64", -(1 << 63), 1 << 63),
            ("uint64", 0, 1 << 64)]


def numpy_types(seed, tag, pool, style):
    """labels as numpy integer scalars (what a user gets from an array of node ids): -> [[label, dtype name], ...] for
    the labels of `pool` that fit a machine word; style 0: the widest fitting signed type, uint64 beyond it (what
    np.array(list) yields column by column); 1: any fitting type; 2: like 1, a third of the labels stay Python ints"""
    import random
    r = random.Random(f"C11 numpy labels {seed} {tag}")
    out = []
    for x in pool:
        fits = [name for name, lo, hi in NP_KINDS if lo <= x < hi]
        if not fits or (style == 2 and r.random() < 0.34):
            continue
        out.append([x, ("int64" if "int64" in fits else "uint64") if style == 0 else r.choice(fits)])
    return out


def word_class(x):
    """which machine representation holds the label"""
    if -(1 << 31) <= x < (1 << 31):
        return "int32"
    if -(1 << 63) <= x < (1 << 63):
        return "int64"
    return "uint64" if 0 <= x < (1 << 64) else "beyond64"


def count_bands(ctx, labels, word):
    """distribution: which representations meet inside one hypergraph"""
    mix = sorted({word_class(x) for x in labels})
    ctx.count(f"{word}_labels:" + "+".join(mix))
    if "uint64" in mix and len(mix) > 1:
        ctx.count(f"{word}_cases_mixing_a_uint64_only_label_with_other_labels")


def pyint(x):
    """an integer label as a Python int (numpy scalars included); anything else is left as it is"""
    import operator
    try:
        return operator.index(x)
    except TypeError:
        return x


def typer(npmap, alternate=False):
    """label -> the object handed to the implementation: a numpy scalar where the step says so (alternate: only at
    every other occurrence of that label, a Python int in between), else an equal Python int that is a NEW object
    on every call (no identity shared between two occurrences of a label)"""
    conv, seen = {}, {}
    if npmap:
        import numpy as np
        conv = {int(l): getattr(np, d)(int(l)) for l, d in npmap}

    def f(x):
        if x in conv:
            seen[x] = seen.get(x, 0) + 1
            if not alternate or seen[x] % 2:
                return conv[x]
        return int(str(x))
    return f


def null_model_round(ctx, case, obs_fn, h, n, obs, word):
    """the same call with one configuration-model round requested: its 'observed' entry is the same census, and the
    argument still has the same census afterwards.  (The null model itself is not judged here; when that call
    fails nothing is concluded.)"""
    st, o1 = obs_fn(h, n, secs=15, runs=1)
    if st != "ok":
        ctx.count("null_model_round_failed")
        return
    ctx.count("null_model_rounds")
    if o1 != obs:
        ctx.violation({**case, "runs_config_model": 1}, f"{word} order-{n} 'observed' differs between runs_config_model=0 and =1")
    st, o2 = obs_fn(h, n)
    if st != "ok" or o2 != obs:
        ctx.violation({**case, "runs_config_model": 1}, f"{word} order-{n} census of the same object differs after a "
                      "call with runs_config_model=1 (argument or internal state changed)")


def live_census(sess, kind, canon, n, secs=8):
    """edit the session's long-lived container in place until it holds exactly the hyperedges `canon` (canonical
    form -> the form that is handed to add_edge), then take the census of that same object.
    -> None when the container could not be edited (not this property's business), else (status, census)"""
    if kind not in sess.live:
        from hypergraphx import DirectedHypergraph, Hypergraph
        st, obj = guarded(Hypergraph if kind == "undirected" else DirectedHypergraph)
        if st != "ok":
            return None
        sess.live[kind] = [obj, set()]
    obj, have = sess.live[kind]

    def edit():
        for k in sorted(have - set(canon)):
            obj.remove_edge(k)
            have.discard(k)
        for k in canon:
            if k not in have:
                obj.add_edge(canon[k])
                have.add(k)
    st, why = guarded(edit)
    if st != "ok":
        del sess.live[kind]
        return None
    return (observed if kind == "undirected" else dobserved)(obj, n, secs=secs)


# ------------------------------------------------------------------------------------------
# (b) undirected census

def gen_hg(rng, src=range(40)):
    """src: the 40 labels (ascending) the nodes are taken from"""
    n = rng.randint(4, 8)
    labels = sorted(rng.sample(src, n))
    edges = []
    k = rng.randint(2, 16)
    style = rng.random()
    for _ in range(k):
        if style < 0.25:
            size = rng.choice([2, 2, 2, 2, 3, 1])
        elif style < 0.5:
            size = rng.choice([2, 3, 3, 4, 4, 3])
        else:
            size = rng.choice([1, 2, 2, 2, 3, 3, 3, 4, 4, 5, 6])
        size = min(size, n)
        e = tuple(rng.sample(labels, size))
        edges.append(e)
        r = rng.random()
        if r < 0.25 and size >= 3:
            edges.append(tuple(rng.sample(e, size - 1)))          # nested hyperedge
        elif r < 0.4 and size >= 2:
            extra = [x for x in labels if x not in e]
            if extra:
                edges.append(tuple(rng.sample(e, rng.randint(1, min(2, size))) + [rng.choice(extra)]))  # attached
    return labels, edges


def mutate_hg(rng, labels, edges):
    """a related hypergraph over the SAME labels -> (name of the edit, hyperedges)"""
    edges = [tuple(e) for e in edges]
    have = {frozenset(e) for e in edges}
    ops = ["dissolve", "dissolve", "dissolve", "fuse", "fuse", "permute", "rewire", "rewire", "swap", "swap", "churn", "same"]
    for op in rng.sample(ops, len(ops)):
        if op == "swap":
            # two hyperedges exchange a node: node set, number of hyperedges of every size and all degrees stay
            for _ in range(10):
                i, j = rng.sample(range(len(edges)), 2) if len(edges) >= 2 else (0, 0)
                xs = [x for x in edges[i] if x not in edges[j]]
                ys = [y for y in edges[j] if y not in edges[i]]
                if i == j or not xs or not ys:
                    continue
                x, y = rng.choice(xs), rng.choice(ys)
                e2 = tuple(y if z == x else z for z in edges[i])
                f2 = tuple(x if z == y else z for z in edges[j])
                if frozenset(e2) in have or frozenset(f2) in have or frozenset(e2) == frozenset(f2):
                    continue
                es = list(edges)
                es[i], es[j] = e2, f2
                return op, es
            continue
        if op == "dissolve":
            # a hyperedge disappears, its nodes stay connected through smaller hyperedges
            big = [e for e in edges if len(e) >= 3]
            if not big:
                continue
            e = rng.choice(big)
            rest = [f for f in edges if frozenset(f) != frozenset(e)]
            v = list(e)
            rng.shuffle(v)
            style = rng.randrange(4)
            if style == 0:
                new = [(v[i], v[i + 1]) for i in range(len(v) - 1)]
            elif style == 1:
                new = [(v[0], x) for x in v[1:]]
            elif style == 2:
                new = list(itertools.combinations(v, 2))
            else:
                new = [tuple(x for x in v if x != y) for y in v[:rng.randint(2, len(v))]]
            return op, rest + new
        if op == "fuse":
            # a node set that is already connected becomes one hyperedge
            k = rng.choice([3, 3, 4, 4, 5])
            seeds = [e for e in edges if 2 <= len(e) < k]
            if not seeds:
                continue
            S = set(rng.choice(seeds))
            for _ in range(20):
                if len(S) >= k:
                    break
                near = sorted({x for f in edges if S & set(f) for x in f if x not in S})
                if not near:
                    break
                S.add(rng.choice(near))
            if len(S) < 3 or frozenset(S) in have:
                continue
            t = sorted(S)
            rng.shuffle(t)
            es = list(edges)
            es.insert(rng.randint(0, len(es)), tuple(t))
            return op, es
        if op == "permute":
            p = dict(zip(labels, rng.sample(labels, len(labels))))
            return op, [tuple(p[x] for x in e) for e in edges]
        if op == "rewire":
            # same number of hyperedges of every size, one of them on other nodes
            idx = rng.randrange(len(edges))
            nodes = {x for e in edges for x in e}
            cand = None
            for _ in range(12):
                f = tuple(rng.sample(labels, len(edges[idx])))
                if frozenset(f) in have:
                    continue
                cand = edges[:idx] + [f] + edges[idx + 1:]
                if {x for e in cand for x in e} == nodes:      # preferred: the node set stays as well
                    break
            if cand is not None:
                return op, cand
            continue
        if op == "churn":
            es = list(edges)
            for _ in range(rng.randint(1, 3)):
                if len(es) > 1:
                    es.pop(rng.randrange(len(es)))
            for _ in range(rng.randint(1, 3)):
                size = min(len(labels), rng.choice([1, 2, 2, 3, 3, 4, 5, 6]))
                es.insert(rng.randint(0, len(es)), tuple(rng.sample(labels, size)))
            return op, es
        if op == "same":
            break
    return "same", list(edges)


def build(edges):
    from hypergraphx import Hypergraph
    h = Hypergraph()
    for e in edges:
        h.add_edge(e)
    return h


def observed(h, n, secs=8, runs=0):
    from hypergraphx.motifs.motifs import compute_motifs
    st, res = guarded(compute_motifs, h, n, runs_config_model=runs, secs=secs)
    if st != "ok":
        return st, res
    try:
        return read_census(n, res["observed"])
    except Exception as e:  # noqa: BLE001
        return "exc", f"unreadable result: {e!r}"


def read_census(n, out):
    """the 'observed' list of compute_motifs -> ('ok', {mask: count}) or ('exc', why)"""
    try:
        d = {}
        for k, c in out:
            m = mask_of(n, k)
            if m is None or m in d:
                return "exc", f"key {k!r} is not a pattern / is repeated"
            d[m] = int(c)
            if c != int(c):
                return "exc", "non-integer count"
        return "ok", d
    except Exception as e:  # noqa: BLE001
        return "exc", f"unreadable result: {e!r}"


def tally_to_dict(s):
    d = {}
    if s != "-":
        for item in s.split(","):
            c, v = item.split(":")
            d[int(c)] = int(v)
    return d


def nz(d):
    return {k: v for k, v in d.items() if v}


def node_sets(vis):
    return sorted(tuple(sorted(pyint(x) for x in s)) for s in vis)


def fresh_targets(case, r, k):
    """k targets of the `fresh` relabelling: from the session's pool (older cases: the window at `base`)"""
    pool = case.get("pool")
    if pool is None:
        base = case.get("base", 0)
        pool = range(base, base + 60)
    return r.sample(pool, k)


class RecDict(dict):
    """the `visited` dict handed to `_motifs_standard`: a plain dict that also records every node set looked up with
    `in` and not found - these are the node sets the ESU pass goes on to classify (one look-up per `count_motif` call)"""

    def __init__(self, *a):
        super().__init__(*a)
        self.missed = []

    def __contains__(self, k):
        r = dict.__contains__(self, k)
        if not r:
            self.missed.append(k)
        return r


def connected_subsets(E, n):
    """the property's words: the n-subsets of the node set that the hyperedges of size >= 2 inside them connect"""
    nodes = sorted({x for e in E for x in e})
    Es = [tuple(sorted(e)) for e in E if 2 <= len(e) <= n]
    out = []
    for T in itertools.combinations(nodes, n):
        Ts = set(T)
        inner = [e for e in Es if set(e) <= Ts]
        if inner and connected_sets(T, inner):
            out.append(tuple(T))
    return out


def induced_mask(E, n, S):
    """the induced sub-hypergraph of the sorted node tuple S with nodes replaced by ranks 1..n, as a mask"""
    rk = {x: i + 1 for i, x in enumerate(S)}
    return mask_of(n, {tuple(sorted(rk[x] for x in e)) for e in E if 2 <= len(e) and all(x in rk for x in e)})


def impl_passes(Eup, n):
    """the three passes called directly, in the order and with the visited hand-over of compute_motifs
    -> ('ok', (full, not_full, standard, visited after full, visited after not_full, node sets the ESU pass looked up
    in `visited` and did not find)) or ('exc', why)"""
    from hypergraphx.motifs import utils
    pf = guarded(utils._motifs_ho_full, list(Eup), n)
    if pf[0] != "ok":
        return "exc", "_motifs_ho_full: " + pf[1]
    try:
        full, vis = pf[1]
        v1 = node_sets(vis)
        vis = dict(vis)
        if n == 4:
            pn = guarded(utils._motifs_ho_not_full, list(Eup), n, vis)
            if pn[0] != "ok":
                return "exc", "_motifs_ho_not_full: " + pn[1]
            nf, vis = pn[1]
        else:
            nf = [(k, 0) for k, _ in full]
        v2 = node_sets(vis)
        rec = RecDict(vis)
        ps = guarded(utils._motifs_standard, list(Eup), n, rec)
        if ps[0] != "ok":
            return "exc", "_motifs_standard: " + ps[1]
        v3 = node_sets(rec.missed)
        tallies = []
        for impl in (full, nf, ps[1]):
            tallies.append({mask_of(n, k): int(c) for k, c in impl})
        return "ok", (tallies[0], tallies[1], tallies[2], v1, v2, v3)
    except Exception as e:  # noqa: BLE001
        return "exc", f"unreadable result of a pass: {e!r}"


def check_hg(ctx, drv, sess, case):
    import random
    n, labels, edges, perm_seed = case["n"], case["labels"], case["edges"], case["perm_seed"]
    ty = typer(case.get("np"), case.get("np_alt"))

    def typed(es):
        return [tuple(ty(x) for x in e) for e in es]
    st, h = guarded(build, typed(edges))
    if st != "ok":
        ctx.violation(case, "Hypergraph construction failed: " + h)
        return
    st, Eraw = guarded(lambda: [tuple(e) for e in h.get_edges()])
    if st != "ok":
        ctx.violation(case, "Hypergraph.get_edges failed: " + Eraw)
        return
    E = [tuple(pyint(x) for x in e) for e in Eraw]       # numpy scalars -> Python ints for the oracles
    count_bands(ctx, labels, "undirected")
    if case.get("np"):
        ctx.count("undirected_cases_with_numpy_integer_labels")
    key = ("u", n, tuple(sorted(tuple(sorted(e)) for e in E)))
    st, obs = observed(h, n)
    if st != "ok":
        ctx.violation(case, f"compute_motifs(h, {n}, 0) failed: {obs}")
        ctx.case(key, False, sample=case)
        return
    want = {3: 6, 4: 171}[n]
    if len(obs) != want:
        ctx.violation(case, f"compute_motifs reports {len(obs)} classes, expected {want} (each exactly once)")
    # property oracle: exhaustive enumeration
    brute = brute_census(E, n)
    got = {}
    for m, c in nz(obs).items():
        k = canon_pat(n, pat_of(n, m))
        got[k] = got.get(k, 0) + c
    if got != brute:
        diff = [(k, got.get(k, 0), brute.get(k, 0)) for k in set(got) | set(brute) if got.get(k, 0) != brute.get(k, 0)][:3]
        ctx.violation(case, f"order-{n} census differs from exhaustive enumeration: (class, reported, enumerated) = {diff}")
    ctx.case(key, len(nz(obs)) >= 3, sample={k: v for k, v in case.items() if k != "history"})
    ctx.count(f"order{n}_cases")
    ctx.count(f"order{n}_subsets_counted", sum(obs.values()))
    if any(len(e) > n for e in E):
        ctx.count(f"order{n}_cases_with_larger_hyperedges")
    # metamorphic oracles: relabelling, insertion order
    r = random.Random(perm_seed)
    fresh = fresh_targets(case, r, len(labels))
    pi = dict(zip(labels, fresh))
    st2, obs2 = observed(build([tuple(int(str(pi[x])) for x in e) for e in edges]), n)
    if st2 != "ok" or obs2 != obs:
        ctx.violation({**case, "relabel": pi}, f"order-{n} census changes under the relabelling {pi}: "
                      + (obs2 if st2 != "ok" else str(sorted(set(nz(obs).items()) ^ set(nz(obs2).items()))[:4])))
        if st2 != "ok":
            return
    for j in range(5):
        es = [tuple(r.sample(e, len(e))) for e in edges]
        r.shuffle(es)
        st3, obs3 = observed(build(typed(es)), n)
        if st3 != "ok" or obs3 != obs:
            ctx.violation({**case, "order": es}, f"order-{n} census changes with the insertion order {es}: "
                          + (obs3 if st3 != "ok" else str(sorted(set(nz(obs).items()) ^ set(nz(obs3).items()))[:4])))
            break
    if case.get("null_model"):
        null_model_round(ctx, case, observed, h, n, obs, "undirected")
    # the session's long-lived object, edited in place to the same content
    canon = {}
    for e in edges:
        canon.setdefault(tuple(sorted(e)), tuple(ty(x) for x in e))
    lv = live_census(sess, "undirected", canon, n)
    if lv is None:
        ctx.count("live_object_not_editable")
    else:
        ctx.count("live_object_censuses")
        if lv[0] != "ok" or lv[1] != obs:
            ctx.violation({**case, "live": True},
                          f"order-{n} census of a Hypergraph that was edited in place (remove_edge/add_edge along the "
                          "session) differs from the census of a freshly built hypergraph with the same hyperedges: "
                          + (lv[1] if lv[0] != "ok" else str(sorted(set(nz(obs).items()) ^ set(nz(lv[1]).items()))[:4])))
    # the three passes, called the way compute_motifs calls them (done with or without the model: they are part of
    # the call sequence a replay has to repeat)
    ip = None
    if case.get("passes", True):
        ip = impl_passes([e for e in Eraw if len(e) <= n], n)
    if drv is None:
        return
    univ = sorted(set(labels) | {x for e in E for x in e})
    rank = {x: i for i, x in enumerate(univ)}
    enc = hgxv.enc_lists([[rank[x] for x in e] for e in E])
    lines = [f"census {n} {enc}"]
    if ip is not None:
        lines += [f"passes {n} {enc}", f"visited {n} {enc}", f"ucounted {n} {enc}"]
    ans = ask(drv, lines)
    mod = tally_to_dict(ans[0])
    if mod != obs:
        diff = [(pat_of(n, k), mod.get(k), obs.get(k)) for k in set(mod) | set(obs) if mod.get(k) != obs.get(k)][:3]
        ctx.disagree(case, f"census: (pattern, model, implementation) = {diff}")
    if ip is None:
        return
    if ip[0] != "ok":
        ctx.disagree(case, "a pass called directly failed while compute_motifs succeeded: " + ip[1])
        return
    full, nf, std, v1, v2, v3 = ip[1]
    mp = [tally_to_dict(t) for t in ans[1].split("|")]
    for name, d, mod in (("full", full, mp[0]), ("not_full", nf, mp[1]), ("standard", std, mp[2])):
        if d != mod:
            diff = [(pat_of(n, k), mod.get(k), d.get(k)) for k in set(mod) | set(d) if k is not None and mod.get(k) != d.get(k)][:3]
            ctx.disagree(case, f"pass {name}: (pattern, model, implementation) = {diff}")
            break
    mv = [sorted(tuple(univ[i] for i in s) for s in hgxv.dec_lists(t)) for t in ans[2].split("|")]
    if mv[0] != v1 or mv[1] != v2:
        odd = [s for s in v1 + v2 if s not in mv[1]][:3]
        ctx.disagree(case, f"visited node sets differ: model {mv[0]} | {mv[1]}, implementation {v1[:12]} | {v2[:12]}"
                     + (f"; {odd} are not node sets this input can classify (state of an earlier call?)" if odd else ""))
    check_enumeration(ctx, case, n, E, univ, ans[3], v1, v2, v3)


def check_enumeration(ctx, case, n, E, univ, answer, v1, v2, v3):
    """second extension round: the model's enumeration `countedPats` (node set + pattern handed to the class table, per
    pass) against the node sets the implementation's passes classify (visited dicts + the ESU pass' look-ups), against
    the property's words (every connected n-subset exactly once; pattern = induced sub-hypergraph with ranks) and
    against the model run with reversed incidence / adjacency lists and key order"""
    try:
        def dsets(t):
            return [tuple(univ[i] for i in s) for s in hgxv.dec_lists(t)]

        def dnats(t):
            return [] if t == "-" else [int(x) for x in t.split(",")]
        parts = answer.split("|")
        per = []
        for t in parts[:3]:
            a, b = t.split("/")
            per.append((dsets(a), dnats(b)))
        m_all, m_ind, m_rev, m_revp = dsets(parts[3]), dnats(parts[4]), dsets(parts[5]), dnats(parts[6])
        if any(len(a) != len(b) for a, b in per) or len(m_all) != len(m_ind) or len(m_rev) != len(m_revp):
            raise ValueError("lengths")
    except Exception as e:  # noqa: BLE001
        ctx.disagree(case, f"unreadable answer to ucounted: {answer[:200]!r} ({e!r})")
        return
    ctx.count("enumerations_compared")
    s1 = set(v1)
    impl = [sorted(v1), sorted(s for s in v2 if s not in s1), sorted(v3)]
    for name, (ms, _), im in zip(("full", "not_full", "standard"), per, impl):
        if sorted(ms) != im:
            ctx.disagree(case, f"node sets classified by pass {name}: model {sorted(ms)[:12]}, implementation {im[:12]}")
            return
    want = connected_subsets(E, n)
    got = sorted(impl[0] + impl[1] + impl[2])
    if got != want:
        odd = sorted(set(got) ^ set(want))[:4] or [s for s in set(got) if got.count(s) > 1][:4]
        ctx.violation(case, f"order {n}: the node sets classified by the three passes are not the connected {n}-subsets, "
                            f"each once: {odd} (classified {len(got)}, connected {len(want)})")
        return
    pm = {}
    for ms, ps in per:
        pm.update(zip(ms, ps))
    for S, ind in zip(m_all, m_ind):
        own = induced_mask(E, n, S)
        if pm.get(S) != own or ind != own:
            ctx.disagree(case, f"pattern of {S}: handed over by the model's pass {pm.get(S)}, model inducedMask {ind}, "
                               f"induced sub-hypergraph with ranks {own}")
            return
    if m_rev != m_all or m_revp != [pm.get(S) for S in m_all]:
        ctx.disagree(case, f"model: reversed incidence lists change the enumeration: {m_rev[:8]} {m_revp[:8]} "
                           f"against {m_all[:8]}")


# ------------------------------------------------------------------------------------------
# (c) directed census

def gen_dhg(rng, src=range(40)):
    n = rng.randint(4, 7)
    labels = sorted(rng.sample(src, n))
    edges = []
    for _ in range(rng.randint(2, 12)):
        size = min(n, rng.choice([2, 2, 3, 3, 3, 4, 4, 4, 5, 6]))
        nodes = rng.sample(labels, size)
        k = rng.randint(1, size - 1)
        e = (tuple(nodes[:k]), tuple(nodes[k:]))
        edges.append(e)
        r = rng.random()
        if r < 0.2:
            edges.append((e[1], e[0]))
        elif r < 0.5:
            extra = [x for x in labels if x not in nodes]
            a = rng.choice(nodes)
            if extra:
                b = rng.choice(extra)
                edges.append(((a,), (b,)) if rng.random() < 0.5 else ((b,), (a,)))
        elif r < 0.65 and size >= 3:
            sub = rng.sample(nodes, size - 1)
            k2 = rng.randint(1, size - 2)
            edges.append((tuple(sub[:k2]), tuple(sub[k2:])))
    return labels, edges


def split(rng, nodes):
    nodes = list(nodes)
    rng.shuffle(nodes)
    k = rng.randint(1, len(nodes) - 1)
    return (tuple(nodes[:k]), tuple(nodes[k:]))


def dkey(e):
    return (tuple(sorted(e[0])), tuple(sorted(e[1])))


def mutate_dhg(rng, labels, edges):
    """a related directed hypergraph over the SAME labels -> (name of the edit, hyperedges)"""
    edges = [(tuple(e[0]), tuple(e[1])) for e in edges]
    have = {dkey(e) for e in edges}
    spans = {frozenset(e[0] + e[1]) for e in edges}
    ops = ["dissolve", "dissolve", "dissolve", "fuse", "fuse", "permute", "rewire", "rewire", "swap", "swap", "flip", "churn", "same"]
    for op in rng.sample(ops, len(ops)):
        if op == "swap":
            # two hyperedges exchange a node (each node keeps its side): node set, sizes and degrees stay
            for _ in range(10):
                i, j = rng.sample(range(len(edges)), 2) if len(edges) >= 2 else (0, 0)
                ni, nj = edges[i][0] + edges[i][1], edges[j][0] + edges[j][1]
                xs = [x for x in ni if x not in nj]
                ys = [y for y in nj if y not in ni]
                if i == j or not xs or not ys:
                    continue
                x, y = rng.choice(xs), rng.choice(ys)
                e2 = tuple(tuple(y if z == x else z for z in side) for side in edges[i])
                f2 = tuple(tuple(x if z == y else z for z in side) for side in edges[j])
                if dkey(e2) in have or dkey(f2) in have or dkey(e2) == dkey(f2):
                    continue
                es = list(edges)
                es[i], es[j] = e2, f2
                return op, es
            continue
        if op == "dissolve":
            # every hyperedge on a node set disappears; a hyperedge on all but one of the nodes and an arc to the
            # remaining node take its place
            big = [e for e in edges if len(e[0] + e[1]) >= 3]
            if not big:
                continue
            e = rng.choice(big)
            S = frozenset(e[0] + e[1])
            rest = [f for f in edges if frozenset(f[0] + f[1]) != S]
            v = sorted(S)
            rng.shuffle(v)
            arc = (v[0], rng.choice(v[1:]))
            new = [split(rng, v[1:]), ((arc[0],), (arc[1],)) if rng.random() < 0.5 else ((arc[1],), (arc[0],))]
            return op, rest + new
        if op == "fuse":
            # a hyperedge plus an adjacent node become one hyperedge
            seeds = [e for e in edges if len(e[0] + e[1]) <= 4]
            if not seeds:
                continue
            e = rng.choice(seeds)
            S = set(e[0] + e[1])
            near = sorted({x for f in edges if S & set(f[0] + f[1]) for x in f[0] + f[1] if x not in S})
            if not near:
                continue
            S.add(rng.choice(near))
            if frozenset(S) in spans:
                continue
            es = list(edges)
            es.insert(rng.randint(0, len(es)), split(rng, sorted(S)))
            return op, es
        if op == "permute":
            p = dict(zip(labels, rng.sample(labels, len(labels))))
            return op, [(tuple(p[x] for x in e[0]), tuple(p[x] for x in e[1])) for e in edges]
        if op == "rewire":
            idx = rng.randrange(len(edges))
            size = len(edges[idx][0] + edges[idx][1])
            for _ in range(10):
                f = split(rng, rng.sample(labels, size))
                if dkey(f) not in have:
                    return op, edges[:idx] + [f] + edges[idx + 1:]
            continue
        if op == "flip":
            idx = rng.randrange(len(edges))
            f = (edges[idx][1], edges[idx][0])
            if dkey(f) in have:
                continue
            return op, edges[:idx] + [f] + edges[idx + 1:]
        if op == "churn":
            es = list(edges)
            for _ in range(rng.randint(1, 3)):
                if len(es) > 1:
                    es.pop(rng.randrange(len(es)))
            for _ in range(rng.randint(1, 3)):
                size = min(len(labels), rng.choice([2, 2, 3, 3, 4, 5, 6]))
                es.insert(rng.randint(0, len(es)), split(rng, rng.sample(labels, size)))
            return op, es
        if op == "same":
            break
    return "same", list(edges)


def dbuild(edges):
    from hypergraphx import DirectedHypergraph
    h = DirectedHypergraph()
    for e in edges:
        h.add_edge(e)
    return h


def dcanon_key(n, pat):
    best = None
    for p in itertools.permutations(range(1, n + 1)):
        c = tuple(sorted((tuple(sorted(p[v - 1] for v in e[0])), tuple(sorted(p[v - 1] for v in e[1]))) for e in pat))
        if best is None or c < best:
            best = c
    return best


def dobserved(h, n, secs=8, runs=0):
    from hypergraphx.motifs.directed_motifs import compute_directed_motifs
    st, res = guarded(compute_directed_motifs, h, n, runs_config_model=runs, secs=secs)
    if st != "ok":
        return st, res
    try:
        return read_dcensus(n, res["observed"])
    except Exception as e:  # noqa: BLE001
        return "exc", f"unreadable result: {e!r}"


def read_dcensus(n, out):
    """the 'observed' list of compute_directed_motifs -> ('ok', {pattern: count}) or ('exc', why)"""
    try:
        d = {}
        for k, c in out:
            k = tuple((tuple(e[0]), tuple(e[1])) for e in k)
            if k in d:
                return "exc", f"pattern {k!r} reported twice"
            for e in k:
                if not all(isinstance(x, int) and 1 <= x <= n for x in e[0] + e[1]):
                    return "exc", f"pattern {k!r} is not over the nodes 1..{n}"
            d[k] = int(c)
            if c != int(c):
                return "exc", "non-integer count"
        return "ok", d
    except Exception as e:  # noqa: BLE001
        return "exc", f"unreadable result: {e!r}"


def dbrute(E, n):
    """node subsets spanned by one hyperedge, or (n = 4) by a 3-node hyperedge plus a hyperedge that
    contains the fourth node; pattern = all hyperedges inside the subset; classified up to permutation"""
    nodes = sorted({x for e in E for x in e[0] + e[1]})
    Es = [e for e in E if len(e[0]) + len(e[1]) <= n]
    out = {}
    for T in itertools.combinations(nodes, n):
        Ts = set(T)
        inner = [e for e in Es if set(e[0] + e[1]) <= Ts]
        span = [set(e[0] + e[1]) for e in inner]
        keep = any(len(s) == n for s in span)
        if not keep and n == 4:
            keep = any(len(s) == 3 and any((Ts - s) <= t for t in span) for s in span)
        if not keep:
            continue
        rank = {x: i + 1 for i, x in enumerate(T)}
        key = dcanon_key(n, [(tuple(rank[x] for x in e[0]), tuple(rank[x] for x in e[1])) for e in inner])
        out[key] = out.get(key, 0) + 1
    return out


def parse_dcensus(s):
    d = {}
    if s == "-":
        return d
    for item in s.split("|"):
        pat, c = item.split("=")
        key = []
        if pat != "-":
            for e in pat.split(";"):
                a, b = e.split(">")
                key.append((tuple(int(x) for x in a.split(".")) if a != "_" else (),
                            tuple(int(x) for x in b.split(".")) if b != "_" else ()))
        d[tuple(key)] = int(c)
    return d


def impl_dpasses(Eup, n):
    """both directed passes called directly -> ('ok', (visited after full, visited after not_full)) or ('exc', why)"""
    from hypergraphx.motifs import utils
    pf = guarded(utils._directed_motifs_ho_full, list(Eup), n)
    if pf[0] != "ok":
        return "exc", "_directed_motifs_ho_full: " + pf[1]
    try:
        _, vis = pf[1]
        v1 = node_sets(vis)
        v2 = v1
        if n == 4:
            pn = guarded(utils._directed_motifs_ho_not_full, list(Eup), n, dict(vis))
            if pn[0] != "ok":
                return "exc", "_directed_motifs_ho_not_full: " + pn[1]
            v2 = node_sets(pn[1][1])
        return "ok", (v1, v2)
    except Exception as e:  # noqa: BLE001
        return "exc", f"unreadable result of a pass: {e!r}"


def check_dhg(ctx, drv, sess, case):
    import random
    n, labels, edges, perm_seed = case["n"], case["labels"], case["edges"], case["perm_seed"]
    ty = typer(case.get("np"), case.get("np_alt"))

    def typed(es):
        return [(tuple(ty(x) for x in e[0]), tuple(ty(x) for x in e[1])) for e in es]
    st, h = guarded(dbuild, typed(edges))
    if st != "ok":
        ctx.violation(case, "DirectedHypergraph construction failed: " + h)
        return
    st, Eraw = guarded(lambda: [(tuple(e[0]), tuple(e[1])) for e in h.get_edges()])
    if st != "ok":
        ctx.violation(case, "DirectedHypergraph.get_edges failed: " + Eraw)
        return
    E = [(tuple(pyint(x) for x in e[0]), tuple(pyint(x) for x in e[1])) for e in Eraw]
    count_bands(ctx, labels, "directed")
    if case.get("np"):
        ctx.count("directed_cases_with_numpy_integer_labels")
    key = ("d", n, tuple(sorted(E)))
    st, obs = dobserved(h, n)
    if st != "ok":
        ctx.violation(case, f"compute_directed_motifs(h, {n}, 0) failed: {obs}")
        ctx.case(key, False, sample=case)
        return
    ctx.case(key, len(obs) >= 3, sample={k: v for k, v in case.items() if k != "history"})
    ctx.count(f"directed_order{n}_cases")
    for k in obs:
        if dcanon_key(n, k) != k:
            ctx.violation(case, f"reported directed pattern {k} is not the minimum of its relabellings {dcanon_key(n, k)}")
            break
    r = random.Random(perm_seed)
    fresh = fresh_targets(case, r, len(labels))
    pi = dict(zip(labels, fresh))
    st2, obs2 = dobserved(dbuild([(tuple(int(str(pi[x])) for x in e[0]), tuple(int(str(pi[x])) for x in e[1])) for e in edges]), n)
    if st2 != "ok" or obs2 != obs:
        ctx.violation({**case, "relabel": pi}, f"directed order-{n} census changes under the relabelling {pi}")
    es = [(tuple(r.sample(e[0], len(e[0]))), tuple(r.sample(e[1], len(e[1])))) for e in edges]
    r.shuffle(es)
    st3, obs3 = dobserved(dbuild(typed(es)), n)
    if st3 != "ok" or obs3 != obs:
        ctx.violation({**case, "order": es}, f"directed order-{n} census changes with the insertion order")
    small = [e for e in edges if len(e[0]) + len(e[1]) <= n]
    big = list(edges)
    if len(labels) > n:
        nodes = r.sample(labels, r.randint(n + 1, len(labels)))
        k = r.randint(1, len(nodes) - 1)
        big.append((tuple(nodes[:k]), tuple(nodes[k:])))
    for name, ee in (("removing", small), ("adding", big)):
        st4, obs4 = dobserved(dbuild(typed(ee)), n) if ee else ("ok", {})
        if st4 != "ok" or obs4 != obs:
            ctx.violation({**case, "variant": ee}, f"directed order-{n} census changes when {name} hyperedges of size > {n}")
    brute = dbrute(E, n)
    if brute != obs:
        diff = [(k, obs.get(k, 0), brute.get(k, 0)) for k in set(obs) | set(brute) if obs.get(k, 0) != brute.get(k, 0)][:2]
        ctx.violation(case, f"directed order-{n} census differs from the enumeration of node subsets: (pattern, reported, enumerated) = {diff}")
    if case.get("null_model"):
        null_model_round(ctx, case, dobserved, h, n, obs, "directed")
    canon = {}
    for e in edges:
        canon.setdefault(dkey(e), typed([e])[0])
    lv = live_census(sess, "directed", canon, n)
    if lv is None:
        ctx.count("live_object_not_editable")
    else:
        ctx.count("live_object_censuses")
        if lv[0] != "ok" or lv[1] != obs:
            ctx.violation({**case, "live": True},
                          f"directed order-{n} census of a DirectedHypergraph that was edited in place (remove_edge/"
                          "add_edge along the session) differs from the census of a freshly built one with the same "
                          "hyperedges" + (": " + lv[1] if lv[0] != "ok" else ""))
    ip = impl_dpasses([e for e in Eraw if len(e[0]) + len(e[1]) <= n], n) if case.get("passes", True) else None
    if drv is None:
        return
    univ = sorted(set(labels) | {x for e in E for x in e[0] + e[1]})
    rank = {x: i for i, x in enumerate(univ)}
    a = hgxv.enc_lists([[rank[x] for x in e[0]] for e in E])
    b = hgxv.enc_lists([[rank[x] for x in e[1]] for e in E])
    ans = ask(drv, [f"dcensus {n} {a} {b}"] + ([f"dsets {n} {a} {b}", f"dcounted {n} {a} {b}"] if ip is not None else []))
    try:
        mod = parse_dcensus(ans[0])
    except Exception:  # noqa: BLE001
        mod = None
    if mod != obs:
        ctx.disagree(case, f"directed census: model {ans[0][:300]!r}, implementation {sorted(obs.items())[:4]}")
    if ip is None:
        return
    if ip[0] != "ok":
        ctx.disagree(case, "a directed pass called directly failed while compute_directed_motifs succeeded: " + ip[1])
        return
    v1, v2 = ip[1]
    ms = [sorted(tuple(univ[i] for i in s) for s in hgxv.dec_lists(t)) for t in ans[1].split("|")]
    if ms[0] != v1 or sorted(ms[0] + ms[1]) != v2:
        ctx.disagree(case, f"visited node sets of the directed passes differ: model {ms[0]} + {ms[1]}, "
                           f"implementation {v1[:12]} | {v2[:12]}")
    # C11_dir_counted_sets / C11_dir_census_total: the classified node sets, each counted exactly once
    try:
        t, tot = ans[2].split("|")
        mc, tot = sorted(tuple(univ[i] for i in s) for s in hgxv.dec_lists(t)), int(tot)
    except Exception:  # noqa: BLE001
        mc, tot = None, None
    if mc != v2 or tot != len(v2) or sum(obs.values()) != len(v2):
        ctx.disagree(case, f"classified node sets: model {ans[2][:200]!r}, implementation {v2[:12]} with counts adding up "
                           f"to {sum(obs.values())}")


# ------------------------------------------------------------------------------------------
# (d) un-instrumented processes
#
# Everything above runs in the harness process, where the harness itself calls generate_motifs / _is_connected (table
# check, before any census), replaces generate_motifs by a memo around most order-4 steps, calls the passes directly and
# makes extra calls (relabelled twin, insertion orders) between two steps.  Whatever the implementation keeps from
# "the first call in this process" is then owned by the harness, not by a census.  The twin stream: a NEW Python
# process that does what a user's script does - import, build, compute_motifs / compute_directed_motifs, several times
# on different hypergraphs - and nothing else; nothing of hypergraphx.motifs is imported, called or patched before the
# first census.  The raw 'observed' lists are written to a file and judged here (enumeration, model).

PRISTINE_SRC = r"""
import json, signal, sys
repo, steps_path, out_path, secs = sys.argv[1], sys.argv[2], sys.argv[3], int(sys.argv[4])
sys.path.insert(0, repo)
steps = json.load(open(steps_path))
out = open(out_path, "w")


def say(rec):
    out.write(json.dumps(rec) + "\n")
    out.flush()


def plain(o):
    try:
        return o.item()
    except Exception:
        return repr(o)


def on_alarm(signum, frame):
    raise TimeoutError("no answer after %d s" % secs)


import hypergraphx
from hypergraphx import DirectedHypergraph, Hypergraph

say({"file": hypergraphx.__file__})
signal.signal(signal.SIGALRM, on_alarm)
held = {}          # (kind, hid) -> [object, {canonical hyperedge: 1}]
slow = 0
for i, st in enumerate(steps):
    rec = {"i": i}
    signal.alarm(secs)
    try:
        directed = st["kind"] == "directed"
        lab = lambda x: x
        if st.get("np"):
            # node ids that come out of numpy arrays: integer scalars of the listed types
            import numpy
            conv = {l: getattr(numpy, d)(l) for l, d in st["np"]}
            if st.get("np_alt"):       # the same node: a numpy scalar in one hyperedge, a Python int in the next
                turn = {}

                def lab(x):
                    turn[x] = turn.get(x, 0) + 1
                    return conv[x] if x in conv and turn[x] % 2 else x
            else:
                lab = lambda x: conv.get(x, x)
        if directed:
            edges = [(tuple(lab(x) for x in e[0]), tuple(lab(x) for x in e[1])) for e in st["edges"]]
            key = lambda e: (tuple(sorted(e[0])), tuple(sorted(e[1])))
        else:
            edges = [tuple(lab(x) for x in e) for e in st["edges"]]
            key = lambda e: tuple(sorted(e))
        h = None
        src = st.get("edit_of")
        if src is not None and (st["kind"], src) in held:
            # the user's object of an earlier step, edited in place to the new content
            h, have = held.pop((st["kind"], src))
            try:
                want = {key(e): e for e in edges}
                for k in sorted(set(have) - set(want)):
                    h.remove_edge(k)
                    del have[k]
                for k, e in want.items():
                    if k not in have:
                        h.add_edge(e)
                        have[k] = 1
                rec["edited"] = True
            except Exception as e:
                h = None
                rec["edit_failed"] = repr(e)[:200]
        elif (st["kind"], st["hid"]) in held and not st.get("fresh"):
            h, have = held[(st["kind"], st["hid"])]
            rec["reused"] = True
        if h is None:
            if st.get("ctor"):
                h = (DirectedHypergraph if directed else Hypergraph)(list(edges))
            else:
                h = DirectedHypergraph() if directed else Hypergraph()
                for e in edges:
                    h.add_edge(e)
            have = {key(e): 1 for e in edges}
        held[(st["kind"], st["hid"])] = [h, have]
        if directed:
            from hypergraphx.motifs.directed_motifs import compute_directed_motifs as census
        elif st.get("style") == "pkg":
            from hypergraphx.motifs import compute_motifs as census
        else:
            from hypergraphx.motifs.motifs import compute_motifs as census
        if st.get("positional"):
            res = census(h, st["n"], st.get("runs", 0))
        else:
            res = census(h, order=st["n"], runs_config_model=st.get("runs", 0))
        rec["observed"] = json.loads(json.dumps(res["observed"], default=plain))
    except BaseException as e:
        rec["exc"] = type(e).__name__ + ": " + str(e)[:200]
        slow += isinstance(e, TimeoutError)
    finally:
        signal.alarm(0)
    say(rec)
    if slow >= 2:
        break
say({"done": True})
"""

PRISTINE_CALL_S = 25        # one census inside the child (an order-4 census of these sizes takes about 0.5 s)
PRISTINE_HARD_S = 120       # the whole child


def dedup(edges, key):
    seen, out = set(), []
    for e in edges:
        if key(e) not in seen:
            seen.add(key(e))
            out.append(e)
    return out


def ukey(e):
    return tuple(sorted(e))


def gen_pristine(rng, p, seed=0):
    """the script of one un-instrumented process: 2-4 undirected and 2-3 directed hypergraphs (related or unrelated),
    each analysed for one or both orders, censuses of one order in a row or hypergraph by hypergraph; the first
    hypergraph usually holds hyperedges of size 3 and 4; the first hypergraph is analysed again at the end"""
    recipe = PRISTINE_RECIPES[p % len(PRISTINE_RECIPES)]
    style = (p + 2) % 3                  # numpy scalars: every third shape drawn in this process
    drawn = [0]
    steps = []

    def draw(gen):
        """a new shape from the main stream, placed on labels of this process' recipe; -> (labels, edges, numpy types)"""
        labels0, edges0 = gen(rng)
        drawn[0] += 1
        labels, lpool = universe(seed, f"p{p}.{drawn[0]}", recipe, len(labels0))
        npmap = numpy_types(seed, f"p{p}.{drawn[0]}", labels, style) if (drawn[0] + p) % 3 == 2 else None
        return labels, place(labels0, edges0, labels), npmap

    def pool_of(gen, mutate, key, n_graphs, full):
        labels, edges, npmap = draw(gen)
        if full:
            # full-size hyperedges in the first hypergraph of the process (sizes 3 and 4)
            for size in (3, 4):
                extra = rng.sample(labels, size)
                if key is ukey:
                    e = tuple(extra)
                else:
                    k = rng.randint(1, size - 1)
                    e = (tuple(extra[:k]), tuple(extra[k:]))
                edges.insert(rng.randint(0, len(edges)), e)
                if p < 2 or rng.random() < 0.5:
                    # ... whose nodes are also joined by pairs alone (a path; sometimes closed, sometimes with a chord)
                    v = list(extra)
                    rng.shuffle(v)
                    pairs = [(v[j], v[j + 1]) for j in range(size - 1)]
                    if rng.random() < 0.4:
                        pairs.append((v[-1], v[0]))
                    if size == 4 and rng.random() < 0.3:
                        pairs.append((v[0], v[2]))
                    for a, b in pairs:
                        edges.insert(rng.randint(0, len(edges)), (a, b) if key is ukey else ((a,), (b,)))
        pool = [(labels, dedup(edges, key), None, npmap)]
        for _ in range(n_graphs - 1):
            r = rng.random()
            if r < 0.55:
                lab, prev, _, npm = pool[-1]
                _, e2 = mutate(rng, lab, prev)
                pool.append((lab, dedup(e2, key), len(pool) - 1 if rng.random() < 0.5 else None, npm))
            else:
                lab, e2, npm = draw(gen)
                pool.append((lab, dedup(e2, key), None, npm))
        return pool

    def census_steps(kind, pool):
        orders = rng.choice([[3, 4], [4, 3], [3, 4], [4, 3], [3], [4]])
        by_order = rng.random() < 0.6
        if p < 2:                   # in every run: both orders, censuses of one order in a row, either order first
            orders, by_order = [[3, 4], [4, 3]][p], True
        seq = [(g, n) for n in orders for g in range(len(pool))] if by_order else \
              [(g, n) for g in range(len(pool)) for n in orders]
        seq.append(seq[0])          # the first census once more at the end
        out = []
        seen = set()
        for g, n in seq:
            lab, edges, parent, npm = pool[g]
            st = {"kind": kind, "n": n, "edges": edges, "labels": lab, "hid": g}
            if npm:
                st["np"] = npm
                st["np_alt"] = style == 2
            if g not in seen and parent is not None and parent in seen and not by_order:
                st["edit_of"] = parent          # the object of the previous hypergraph, edited in place
            elif rng.random() < 0.3:
                st["fresh"] = True
            if rng.random() < 0.3:
                st["ctor"] = True
            if kind == "undirected" and rng.random() < 0.4:
                st["style"] = "pkg"
            if rng.random() < 0.3:
                st["positional"] = True
            seen.add(g)
            out.append(st)
        if len(out) > 2 and rng.random() < 0.5:
            out[rng.randint(1, len(out) - 1)]["runs"] = 1
        return out

    u = census_steps("undirected", pool_of(gen_hg, mutate_hg, ukey, rng.randint(2, 4), rng.random() < 0.85 or p < 2))
    d = census_steps("directed", pool_of(gen_dhg, mutate_dhg, dkey, rng.randint(2, 3), rng.random() < 0.85 or p < 2))
    lay = p % 3
    if lay == 0:
        steps = u + d
    elif lay == 1:
        steps = d + u
    else:                                # interleaved, order inside each kind kept
        while u or d:
            src = u if (u and (not d or rng.random() < 0.5)) else d
            steps.append(src.pop(0))
    if p % 4 == 3 and steps[0].get("runs", 0) == 0:
        steps[0]["runs"] = 1             # the first call of the process is one with a null-model round
    return steps


class Job:
    pass


def start_pristine(steps):
    import tempfile
    job = Job()
    job.steps = hgxv.jsonable(steps)
    job.dir = tempfile.mkdtemp(prefix="c11p_")
    sp, job.out = os.path.join(job.dir, "steps.json"), os.path.join(job.dir, "out.jsonl")
    with open(sp, "w") as f:
        json.dump(job.steps, f)
    job.err = open(os.path.join(job.dir, "err.txt"), "w+")
    job.t0 = time.time()
    job.p = subprocess.Popen([sys.executable, "-c", PRISTINE_SRC, hgxv.REPO, sp, job.out, str(PRISTINE_CALL_S)],
                             stdin=subprocess.DEVNULL, stdout=subprocess.DEVNULL, stderr=job.err, cwd=job.dir)
    return job


def finish_pristine(job, wait_s):
    """-> list of records, or None while the child is still running and younger than wait_s"""
    rc = job.p.poll()
    if rc is None:
        if time.time() - job.t0 < wait_s:
            return None
        job.p.kill()
        job.p.wait()
    recs = []
    try:
        with open(job.out) as f:
            for ln in f:
                try:
                    recs.append(json.loads(ln))
                except ValueError:
                    break
    except OSError:
        pass
    try:
        job.err.seek(0)
        job.errtxt = job.err.read()[-400:]
        job.err.close()
    except (OSError, ValueError):
        job.errtxt = ""
    import shutil
    shutil.rmtree(job.dir, ignore_errors=True)
    return recs


def judge_pristine(ctx, drv, steps, recs):
    """judge the censuses one un-instrumented process reported.  Findings carry the steps of that process up to the
    failing one.  -> index of the first step with a finding, or None"""
    if not recs or "file" not in recs[0]:
        ctx.count("pristine_process_died")      # not even the import: judged by run() (tool failure when none starts)
        return None
    if not str(recs[0]["file"]).startswith(hgxv.REPO + "/"):
        raise ToolFailure(f"the un-instrumented process imported {recs[0]['file']}, not the tree under {hgxv.REPO}")
    ctx.count("pristine_processes")
    by_i = {r["i"]: r for r in recs if "i" in r}
    if len(by_i) < len(steps) and not any("exc" in r for r in by_i.values()):
        ctx.count("pristine_process_unfinished")
    for i, st in enumerate(steps):
        rec = by_i.get(i)
        if rec is None:
            break
        st = norm_step(st)
        n, edges = st["n"], st["edges"]
        directed = st["kind"] == "directed"
        word = "compute_directed_motifs" if directed else "compute_motifs"
        case = {"kind": "pristine", "at": i, "census": st["kind"], "n": n, "edges": edges, "steps": steps[:i + 1]}
        nv, nd = len(ctx.violations), len(ctx.disagreements)
        if "edit_failed" in rec:
            ctx.count("pristine_object_not_editable")
        if "exc" in rec:
            if st.get("runs"):
                ctx.count("pristine_null_model_round_failed")     # the null model is not judged here
                continue
            ctx.violation(case, f"un-instrumented process, call {i + 1}: {word}(h, {n}, 0) failed: {rec['exc']}")
            return i
        ctx.count("pristine_censuses")
        count_bands(ctx, sorted({x for e in edges for x in (e[0] + e[1] if directed else e)}), "pristine")
        if st.get("np"):
            ctx.count("pristine_censuses_with_numpy_integer_labels")
        ctx.count(f"pristine_{st['kind']}_order{n}")
        if rec.get("edited"):
            ctx.count("pristine_censuses_of_object_edited_in_place")
        if st.get("runs"):
            ctx.count("pristine_null_model_rounds")
        first_of_kind = not any(s["kind"] == st["kind"] and s["n"] == n for s in steps[:i])
        if first_of_kind:
            size = (lambda e: len(e[0]) + len(e[1])) if directed else len
            ctx.count("pristine_first_census_with_full_size_hyperedge", int(any(size(e) == n for e in edges)))
        where = (f"un-instrumented process, call {i + 1} of {len(steps)} "
                 f"({'first' if first_of_kind else 'not the first'} {st['kind']} order-{n} census of the process): ")
        if not directed:
            s2, obs = read_census(n, rec["observed"])
            if s2 != "ok":
                ctx.violation(case, where + f"compute_motifs(h, {n}, {st.get('runs', 0)})['observed'] is unreadable: {obs}")
                return i
            E = [ukey(e) for e in edges]
            want = {3: 6, 4: 171}[n]
            if len(obs) != want:
                ctx.violation(case, where + f"compute_motifs reports {len(obs)} classes, expected {want}")
            brute = brute_census(E, n)
            got = {}
            for m, c in nz(obs).items():
                k = canon_pat(n, pat_of(n, m))
                got[k] = got.get(k, 0) + c
            if got != brute:
                diff = [(k, got.get(k, 0), brute.get(k, 0)) for k in set(got) | set(brute) if got.get(k, 0) != brute.get(k, 0)][:3]
                ctx.violation(case, where + f"order-{n} census differs from exhaustive enumeration: "
                                            f"(class, reported, enumerated) = {diff}")
            ctx.case(("pu", n, tuple(sorted(E))), len(nz(obs)) >= 3, sample=None)
            if drv is not None:
                univ = sorted({x for e in E for x in e} | set(st.get("labels") or []))
                rank = {x: j for j, x in enumerate(univ)}
                mod = tally_to_dict(ask(drv, [f"census {n} {hgxv.enc_lists([[rank[x] for x in e] for e in E])}"])[0])
                if mod != obs:
                    diff = [(pat_of(n, k), mod.get(k), obs.get(k)) for k in set(mod) | set(obs) if mod.get(k) != obs.get(k)][:3]
                    ctx.disagree(case, where + f"census: (pattern, model, implementation) = {diff}")
        else:
            s2, obs = read_dcensus(n, rec["observed"])
            if s2 != "ok":
                ctx.violation(case, where + f"compute_directed_motifs(h, {n}, {st.get('runs', 0)})['observed'] is unreadable: {obs}")
                return i
            E = [dkey(e) for e in edges]
            for k in obs:
                if dcanon_key(n, k) != k:
                    ctx.violation(case, where + f"reported directed pattern {k} is not the minimum of its relabellings")
                    break
            brute = dbrute(E, n)
            if brute != obs:
                diff = [(k, obs.get(k, 0), brute.get(k, 0)) for k in set(obs) | set(brute) if obs.get(k, 0) != brute.get(k, 0)][:2]
                ctx.violation(case, where + f"directed order-{n} census differs from the enumeration of node subsets: "
                                            f"(pattern, reported, enumerated) = {diff}")
            ctx.case(("pd", n, tuple(sorted(E))), len(obs) >= 3, sample=None)
            if drv is not None:
                univ = sorted({x for e in E for x in e[0] + e[1]} | set(st.get("labels") or []))
                rank = {x: j for j, x in enumerate(univ)}
                a = hgxv.enc_lists([[rank[x] for x in e[0]] for e in E])
                b = hgxv.enc_lists([[rank[x] for x in e[1]] for e in E])
                ans = ask(drv, [f"dcensus {n} {a} {b}"])
                try:
                    mod = parse_dcensus(ans[0])
                except Exception:  # noqa: BLE001
                    mod = None
                if mod != obs:
                    ctx.disagree(case, where + f"directed census: model {ans[0][:300]!r}, implementation {sorted(obs.items())[:4]}")
        if len(ctx.violations) > nv or len(ctx.disagreements) > nd:
            return i            # what comes later in this process is no longer judged: one finding per process
    return None


def shorten_pristine(ctx, steps, at, want_violation):
    """a shorter script that still shows the finding of step `at` in a new process: the step alone, then together with
    one earlier census of the same kind and order; else the whole prefix"""
    cands = [[at]] + [[j, at] for j in range(at) if steps[j]["kind"] == steps[at]["kind"] and steps[j]["n"] == steps[at]["n"]][:3]
    for idx in cands:
        left = ctx.time_left()
        if left is not None and left < 12:
            break
        sub = [steps[j] for j in idx]
        job = start_pristine(sub)
        recs = None
        while recs is None:
            time.sleep(0.05)
            recs = finish_pristine(job, 40)
        m = Mute(ctx)
        try:
            hit = judge_pristine(m, None, sub, recs)
        except ToolFailure:
            hit = None
        if hit == len(sub) - 1 and (m.violations if want_violation else m.violations or m.disagreements):
            return sub
    return None


class Pristine:
    """runs the un-instrumented processes next to the main stream (`width` at a time)"""

    def __init__(self, plans, width):
        self.todo = list(plans)
        self.running = []
        self.width = width
        self.started = 0
        self.last_err = ""

    def pump(self, ctx, drv, wait_s=PRISTINE_HARD_S):
        for job in list(self.running):
            recs = finish_pristine(job, wait_s)
            if recs is None:
                continue
            self.running.remove(job)
            self.last_err = getattr(job, "errtxt", "") or self.last_err
            nv, nd = len(ctx.violations), len(ctx.disagreements)
            at = judge_pristine(ctx, drv, job.steps, recs)
            found = ctx.violations[nv:] + ctx.disagreements[nd:]
            if at is not None and at > 0 and found and CONFIRM and CONFIRMS_LEFT[0] > 0:
                CONFIRMS_LEFT[0] -= 1
                sub = shorten_pristine(ctx, job.steps, at, len(ctx.violations) > nv)
                if sub is not None:
                    for c, _ in found:
                        c["steps"], c["at"], c["shortened_from_calls"] = sub, len(sub) - 1, at + 1
                    note = f" [reproduced in a further new process that makes only {len(sub)} of these calls: the replay]"
                    for lst in (ctx.violations, ctx.disagreements):
                        for k, (c, what) in enumerate(lst):
                            if any(c is f for f, _ in found):
                                lst[k] = (c, what + note)
        while self.todo and len(self.running) < self.width and not out_of_time(ctx, margin=10):
            self.running.append(start_pristine(self.todo.pop(0)))
            self.started += 1

    def drain(self, ctx, drv):
        while self.running or (self.todo and not out_of_time(ctx, margin=10)):
            left = ctx.time_left()
            self.pump(ctx, drv, PRISTINE_HARD_S if left is None else max(5, min(PRISTINE_HARD_S, left - 3)))
            if self.running:
                time.sleep(0.05)
        if self.todo:
            ctx.count("pristine_processes_not_started", len(self.todo))

    def kill(self):
        for job in self.running:
            try:
                job.p.kill()
                job.p.wait()
            except Exception:  # noqa: BLE001
                pass
            finish_pristine(job, 0)
        self.running = []


# ------------------------------------------------------------------------------------------
# steps, histories, replay

# ------------------------------------------------------------------------------------------
# (e) the null-model arithmetic (extension round): utils.diff_sum / avg / norm_vector / directed_diff_sum /
# directed_avg against lean/Hgxv/Model/C11Stats.lean (exact rationals; math.sqrt handed over as the exact value of
# the float the harness computes) and against the documented formula evaluated with fractions.Fraction; plus the tail
# of compute_motifs / compute_directed_motifs itself (`norm_delta` of a call with runs_config_model=2 recomputed from
# that call's own 'observed' and 'config_model').

STATS_TOL = 1e-12


def gen_stats(r, i):
    """synthetic count tables; every 5th the all-equal table (zero vector: norm_vector returns its argument)"""
    k = r.choice([1, 2, 3, 6, 6, 12, 171])
    R = r.choice([1, 1, 2, 3, 5, 10])
    top = r.choice([1, 3, 10, 1000, 10 ** 6, 2 ** 40])
    if i % 2 == 0:
        obs = [r.choice([0, 0, r.randint(0, top)]) for _ in range(k)]
        if i % 5 == 0:
            nulls = [list(obs) for _ in range(R)]
        else:
            nulls = [[r.choice([0, o, r.randint(0, top), max(0, o + r.randint(-2, 2))]) for o in obs] for _ in range(R)]
        return {"kind": "stats", "mode": "u", "obs": obs, "nulls": nulls}
    keys = r.sample(range(1, 400), k + 3)
    okeys = keys[:k]
    obs = [[x, r.randint(1, top)] for x in okeys]
    nulls = []
    for _ in range(R):
        rk = [x for x in keys if r.random() < r.choice([0.0, 0.5, 0.9])]
        r.shuffle(rk)
        nulls.append([[x, r.choice([1, r.randint(1, top), dict(map(tuple, obs)).get(x, 1)])] for x in rk])
    return {"kind": "stats", "mode": "d", "obs": obs, "nulls": nulls}


def close(x, y):
    try:
        return abs(float(x) - float(y)) <= STATS_TOL * max(1.0, abs(float(y)))
    except Exception:  # noqa: BLE001
        return False


def exact_norm(d):
    """norm_vector by its documentation, on exact entries -> (list of floats, exact sum of squares)"""
    import math
    M = sum(x * x for x in d)
    if M == 0:
        return [float(x) for x in d], M
    s = math.sqrt(M)
    return [float(x) / s for x in d], M


def judge_vector(ctx, case, what, got, want, as_violation=True):
    ok = isinstance(got, (list, tuple)) and len(got) == len(want) and all(close(g, w) for g, w in zip(got, want))
    if not ok:
        msg = f"{what}: implementation {list(got)[:6] if isinstance(got, (list, tuple)) else got!r}, expected {[float(w) for w in want][:6]}"
        (ctx.violation if as_violation else ctx.disagree)(case, msg)
    return ok


def model_stats(ctx, drv, case, line, d_exact, nv_impl, d_impl):
    """the model's diff_sum must be the exact formula; its norm_vector with the harness' square root must be what the
    implementation returned"""
    import math
    from fractions import Fraction
    ans = ask(drv, [line])[0]
    try:
        if case["mode"] in ("u", "real_u"):
            dm, M = ans.split("|")
            dm, M = hgxv.dec_list(dm), hgxv.dec_num(M)
        else:
            dm = hgxv.dec_list(ans)
            M = sum(Fraction(x) * Fraction(x) for x in dm)
    except Exception:  # noqa: BLE001
        ctx.disagree(case, f"model answer {ans[:200]!r} to {line[:120]!r}")
        return
    if [Fraction(x) for x in dm] != list(d_exact) or M != sum(x * x for x in d_exact):
        ctx.disagree(case, f"diff_sum: model {ans[:200]!r}, formula {[str(x) for x in d_exact][:6]}")
        return
    if not all(close(g, w) for g, w in zip(d_impl, dm)):
        ctx.disagree(case, f"diff_sum: model {ans[:200]!r}, implementation {list(d_impl)[:6]}")
    if nv_impl is None:
        return
    s = Fraction(math.sqrt(M)) if M != 0 else Fraction(0)
    ans2 = ask(drv, [f"normvec {hgxv.enc_num(s)} {hgxv.enc_list(dm)}"])[0]
    try:
        nm = hgxv.dec_list(ans2)
    except Exception:  # noqa: BLE001
        nm = None
    if nm is None or len(nm) != len(nv_impl) or not all(close(g, w) for g, w in zip(nv_impl, nm)):
        ctx.disagree(case, f"norm_vector: model {ans2[:200]!r}, implementation {list(nv_impl)[:6]}")


def stats_formula(obs, sums, R):
    from fractions import Fraction
    out = []
    for o, s_ in zip(obs, sums):
        u = Fraction(s_, R)
        out.append((o - u) / (o + u + 4))
    return out


def check_stats(ctx, drv, sess, case):
    from fractions import Fraction
    from hypergraphx.motifs import utils
    mode = case["mode"]
    if mode in ("real_u", "real_d"):
        return check_stats_real(ctx, drv, case)
    if mode == "u":
        obs, nulls = list(case["obs"]), [list(m) for m in case["nulls"]]
        observed = [("class%d" % i, int(str(c))) for i, c in enumerate(obs)]
        rounds = [[("class%d" % i, int(str(c))) for i, c in enumerate(m)] for m in nulls]
        ctx.case(("stats", "u", tuple(obs), tuple(map(tuple, nulls))), len(set(obs)) > 1 and len(nulls) > 1, sample=case)
        ctx.count("stats_undirected_tables")
        st, d = guarded(utils.diff_sum, observed, rounds)
        sums = [sum(m[i] for m in nulls) for i in range(len(obs))]
        keysum = sums
        line = f"diffsum {hgxv.enc_list(obs)} {hgxv.enc_lists(nulls)}"
    else:
        obs = [(int(k), int(c)) for k, c in case["obs"]]
        nulls = [[(int(k), int(c)) for k, c in m] for m in case["nulls"]]
        observed = [((("s", int(str(k))),), int(str(c))) for k, c in obs]
        rounds = [[((("s", int(str(k))),), int(str(c))) for k, c in m] for m in nulls]
        ctx.case(("stats", "d", tuple(obs), tuple(map(tuple, nulls))), len(obs) > 1 and len(nulls) > 1, sample=case)
        ctx.count("stats_directed_tables")
        st, d = guarded(utils.directed_diff_sum, observed, rounds)
        keysum = [sum(c for m in nulls for k2, c in m if k2 == k) for k, _ in obs]
        if any(all(k2 != k for m in nulls for k2, _ in m) for k, _ in obs):
            ctx.count("stats_directed_tables_with_a_key_no_round_reported")
        line = (f"ddiffsum {hgxv.enc_list([k for k, _ in obs])} {hgxv.enc_list([c for _, c in obs])} "
                f"{hgxv.enc_lists([[k for k, _ in m] for m in nulls])} {hgxv.enc_lists([[c for _, c in m] for m in nulls])}")
        obs = [c for _, c in obs]
    if st != "ok":
        ctx.violation(case, f"diff_sum on well-formed count tables failed: {d}")
        return
    d = list(d)
    d_exact = stats_formula(obs, keysum, len(nulls))
    ok = judge_vector(ctx, case, "diff_sum differs from (observed - mean) / (observed + mean + 4)", d, d_exact)
    if ok and not all(-1 < x < 1 for x in d):
        ctx.violation(case, f"diff_sum entry outside (-1, 1): {d[:6]}")
    st2, nv = guarded(utils.norm_vector, list(d))
    if st2 != "ok":
        ctx.violation(case, f"norm_vector failed: {nv}")
        nv = None
    elif ok:
        want, M = exact_norm(d_exact)
        if M == 0:
            ctx.count("stats_zero_vectors")
        judge_vector(ctx, case, "norm_vector differs from a / sqrt(sum of squares) (a itself when that is 0)", list(nv), want)
    if drv is not None and ok:
        model_stats(ctx, drv, case, line, d_exact, None if nv is None else list(nv), d)


def check_stats_real(ctx, drv, case):
    """compute_motifs / compute_directed_motifs with runs_config_model=2: 'norm_delta' must be
    norm_vector(diff_sum('observed', 'config_model')) of that very result, keys of 'observed' in order.  A call that
    fails or is slow concludes nothing (the configuration model is not this property's business)."""
    mode, n = case["mode"], case["n"]
    if mode == "real_u":
        from hypergraphx.motifs.motifs import compute_motifs as f
        st, h = guarded(build, [tuple(e) for e in case["edges"]])
    else:
        from hypergraphx.motifs.directed_motifs import compute_directed_motifs as f
        st, h = guarded(dbuild, [(tuple(e[0]), tuple(e[1])) for e in case["edges"]])
    if st != "ok":
        ctx.count("stats_real_failed")
        return
    import random
    import numpy as np
    keep = random.getstate(), np.random.get_state()
    random.seed(case.get("seed", 0))            # the rounds are random: a replay must draw the same ones
    np.random.seed(case.get("seed", 0))
    try:
        st, res = guarded(f, h, n, runs_config_model=2, secs=20)
    finally:
        random.setstate(keep[0])
        np.random.set_state(keep[1])
    if st != "ok":
        ctx.count("stats_real_failed")
        return
    ctx.case(("stats", mode, n, repr(case["edges"])), True, sample=case)
    ctx.count("stats_real_calls")
    try:
        okeys = [k for k, _ in res["observed"]]
        obs = [int(c) for _, c in res["observed"]]
        rounds = [[(k, int(c)) for k, c in m] for m in res["config_model"]]
        nd = [(k, float(v)) for k, v in res["norm_delta"]]
    except Exception as e:  # noqa: BLE001
        ctx.violation(case, f"result of the call with runs_config_model=2 is unreadable: {e!r}")
        return
    if [k for k, _ in nd] != okeys or len(rounds) != 2:
        ctx.violation(case, "'norm_delta' does not list the keys of 'observed' in order / 'config_model' has not 2 rounds")
        return
    if mode == "real_u":
        if any([k for k, _ in m] != okeys for m in rounds):
            ctx.violation(case, "a configuration-model census lists other classes than 'observed'")
            return
        nulls = [[c for _, c in m] for m in rounds]
        sums = [sum(m[i] for m in nulls) for i in range(len(obs))]
        line = f"diffsum {hgxv.enc_list(obs)} {hgxv.enc_lists(nulls)}"
    else:
        ids = {}
        for k in okeys + [k for m in rounds for k, _ in m]:
            ids.setdefault(k, len(ids) + 1)
        sums = [sum(c for m in rounds for k2, c in m if k2 == k) for k in okeys]
        line = (f"ddiffsum {hgxv.enc_list([ids[k] for k in okeys])} {hgxv.enc_list(obs)} "
                f"{hgxv.enc_lists([[ids[k] for k, _ in m] for m in rounds])} {hgxv.enc_lists([[c for _, c in m] for m in rounds])}")
    d_exact = stats_formula(obs, sums, 2)
    want, _ = exact_norm(d_exact)
    ok = judge_vector(ctx, case, "'norm_delta' differs from norm_vector(diff_sum('observed', 'config_model')) of the same result",
                      [v for _, v in nd], want)
    if drv is not None and ok and obs:
        model_stats(ctx, drv, case, line, d_exact, [v for _, v in nd], [float(x) for x in d_exact])


def run_stats(ctx, drv):
    import random
    r = random.Random(f"C11 null-model arithmetic, seed {ctx.seed}")
    for i in range(ctx.scale(60, 1500)):
        run_step(ctx, drv, Session(), gen_stats(r, i))
        if out_of_time(ctx):
            return
    for i in range(ctx.scale(2, 16)):
        if i % 2 == 0:
            labels, edges = gen_hg(r, src=range(12))
            step = {"kind": "stats", "mode": "real_u", "n": 3 if i % 4 == 0 else 4, "memo": i % 4 != 0,
                    "seed": r.randrange(1 << 30), "edges": [list(e) for e in edges]}
        else:
            labels, edges = gen_dhg(r, src=range(12))
            step = {"kind": "stats", "mode": "real_d", "n": 3 if i % 4 == 1 else 4,
                    "seed": r.randrange(1 << 30), "edges": [[list(e[0]), list(e[1])] for e in edges]}
        run_step(ctx, drv, Session(), step)
        if out_of_time(ctx):
            return


KINDS = {"tables": check_tables, "undirected": check_hg, "directed": check_dhg, "stats": check_stats}


def norm_step(st):
    """a step as read back from JSON"""
    st = {k: v for k, v in st.items() if k != "history"}
    kind = st.get("kind")
    if kind == "undirected":
        st["edges"] = [tuple(e) for e in st["edges"]]
    elif kind == "directed":
        st["edges"] = [(tuple(e[0]), tuple(e[1])) for e in st["edges"]]
    st.setdefault("perm_seed", 0)
    return st


def run_step(ctx, drv, sess, step):
    """one step = all implementation calls and all judgements for one (hypergraph, order).  Findings of the step get
    `history` = the steps to re-run first."""
    hist = list(sess.steps)
    case = {**step, "history": hist}
    nv, nd = len(ctx.violations), len(ctx.disagreements)
    try:
        with (Memo() if step.get("memo") else contextlib.nullcontext()):
            KINDS[step["kind"]](ctx, drv, sess, case)
    except ToolFailure:
        raise
    except Exception as e:  # noqa: BLE001  (an output shape nobody foresaw is an observation, not a tool failure)
        import traceback
        where = traceback.extract_tb(e.__traceback__)[-1]
        ctx.disagree(case, f"the harness could not interpret what the implementation returned: {e!r} "
                           f"(at {os.path.basename(where.filename)}:{where.lineno})")
    sess.steps.append(step)
    LOG.append(step)
    found = ctx.violations[nv:] + ctx.disagreements[nd:]
    if found and CONFIRM and not isinstance(ctx, Mute):
        settle_history(ctx, found, len(ctx.violations) > nv, step, hist)


def fresh_process_finds(case, want_violation, timeout):
    """does a new Python process that re-runs `case` (history first) report the finding again?"""
    try:
        p = subprocess.run([sys.executable, os.path.abspath(__file__), "--confirm"],
                           input=json.dumps(hgxv.jsonable(case)), capture_output=True, text=True, timeout=timeout)
        r = json.loads(p.stdout.strip().splitlines()[-1])
        return r["v"] > 0 if want_violation else r["v"] + r["d"] > 0
    except Exception:  # noqa: BLE001
        return False


def settle_history(ctx, found, want_violation, step, hist):
    """choose the history stored with the findings of a step: the first of (nothing, the session so far, the last 12 /
    60 / all steps of this process) with which a fresh process reproduces the finding"""
    earlier = LOG[:-1]
    cands = [[]] if hist else []
    cands.append(hist)
    for k in (12, 60, len(earlier)):
        tail = earlier[-k:] if k else []
        if tail not in cands:
            cands.append(tail)
    chosen = None
    if CONFIRMS_LEFT[0] > 0:
        CONFIRMS_LEFT[0] -= 1
        for cand in cands:
            left = ctx.time_left()
            if left is not None and left < 10:
                break
            if fresh_process_finds({**step, "history": cand}, want_violation, 45 if left is None else min(45, left - 4)):
                chosen = cand
                break
    for c, _ in found:
        c["history"] = hist if chosen is None else chosen
        c["history_confirmed_in_fresh_process"] = chosen is not None


def too_many(ctx):
    return len(ctx.violations) >= 5 or len(ctx.disagreements) >= 30


def out_of_time(ctx, margin=4):
    return too_many(ctx) or (ctx.time_left() is not None and ctx.time_left() < margin)


def run(ctx):
    import random
    drv = ctx.driver() if ctx.model_available else None
    prng = random.Random(f"C11 un-instrumented processes, seed {ctx.seed}")
    pool = Pristine([gen_pristine(prng, p, ctx.seed) for p in range(ctx.scale(5, 72))], ctx.scale(5, 3))
    try:
        pool.pump(ctx, drv)          # the first processes run next to the main stream
        boot = Session()
        for n in (3, 4):
            run_step(ctx, drv, boot, {"kind": "tables", "n": n})
        t0 = time.time()
        run_stats(ctx, drv)
        ctx.count("stats_stream_ms", int(1000 * (time.time() - t0)))
        run_main(ctx, drv, pool)
        pool.drain(ctx, drv)
        if pool.started and not ctx.extra.get("pristine_processes"):
            raise ToolFailure(f"none of the {pool.started} un-instrumented processes got as far as importing "
                              f"hypergraphx: {pool.last_err!r}")
    finally:
        pool.kill()


def run_main(ctx, drv, pool):
    rng = ctx.rng
    n_u = ctx.scale(16, 430)     # undirected sessions (3-4 hypergraphs each, both orders)
    n_d = ctx.scale(11, 340)     # directed sessions
    raw4 = ctx.scale(1, 12)      # sessions whose order-4 steps run without the memo
    for i in range(n_u):
        # label universe of the session: recipe i (session 0: small labels)
        labels0, edges0 = gen_hg(rng)
        labels, lpool = universe(ctx.seed, f"u{i}", i, len(labels0))
        edges = place(labels0, edges0, labels)
        npmap = numpy_types(ctx.seed, f"u{i}", lpool, i % 3)      # for the third hypergraph of the session
        ctx.count("undirected_sessions_over:" + recipe_name(i))
        if i == 0 and 0 not in labels:          # the falsy label takes part in every run
            edges = [tuple(0 if x == labels[0] else x for x in e) for e in edges]
            labels = [0] + labels[1:]
            lpool = sorted(set(lpool) | {0})
        sess = Session()
        for j in range(rng.randint(3, 4)):
            if j:
                op, edges = mutate_hg(rng, labels, edges)
                ctx.count("edit_" + op)
            seed = rng.randrange(1 << 30)
            for n in (3, 4):
                raw = n == 4 and i < raw4
                run_step(ctx, drv, sess, {"kind": "undirected", "n": n, "labels": labels, "edges": edges,
                                          "perm_seed": seed, "pool": lpool, "np": npmap if j == 2 else None, "np_alt": i % 3 == 2,
                                          "memo": n == 4 and not raw,
                                          "passes": not raw or (i == 0 and j == 0), "null_model": j == 1 and i % 2 == 0})
                if raw:
                    ctx.count("order4_cases_without_memo")
                if out_of_time(ctx):
                    break
            if out_of_time(ctx):
                break
        pool.pump(ctx, drv)
        if out_of_time(ctx):
            break
    ctx.count("undirected_sessions", i + 1 if n_u else 0)
    for i in range(n_d):
        recipe = 3 * i + 1                       # 1, 4, 7, 10, 13, 0, 3, 6, 9, 12, 15, ...
        labels0, edges0 = gen_dhg(rng)
        labels, lpool = universe(ctx.seed, f"d{i}", recipe, len(labels0))
        edges = place(labels0, edges0, labels)
        npmap = numpy_types(ctx.seed, f"d{i}", lpool, (i + 1) % 3)
        ctx.count("directed_sessions_over:" + recipe_name(recipe))
        sess = Session()
        for j in range(rng.randint(3, 4)):
            if j:
                op, edges = mutate_dhg(rng, labels, edges)
                ctx.count("directed_edit_" + op)
            seed = rng.randrange(1 << 30)
            for n in (3, 4):
                run_step(ctx, drv, sess, {"kind": "directed", "n": n, "labels": labels, "edges": edges,
                                          "perm_seed": seed, "pool": lpool, "np": npmap if j == 2 else None,
                                          "np_alt": (i + 1) % 3 == 2,
                                          "null_model": j == 1 and i % 2 == 0})
                if out_of_time(ctx):
                    break
            if out_of_time(ctx):
                break
        pool.pump(ctx, drv)
        if out_of_time(ctx):
            break
    ctx.count("directed_sessions", i + 1 if n_d else 0)


def replay(ctx, case):
    """re-run the steps of `case['history']` silently (same calls in the same order, same long-lived objects), then
    the case itself with all judgements"""
    global CONFIRM
    CONFIRM = False
    drv = ctx.driver() if ctx.model_available else None
    if case.get("kind") == "pristine":
        job = start_pristine(case["steps"])
        recs = None
        while recs is None:
            time.sleep(0.05)
            left = ctx.time_left()
            recs = finish_pristine(job, PRISTINE_HARD_S if left is None else max(5, min(PRISTINE_HARD_S, left - 3)))
        judge_pristine(ctx, drv, job.steps, recs)
        return
    sess = Session()
    for st in case.get("history") or []:
        run_step(Mute(ctx), None, sess, norm_step(st))
        if ctx.time_left() is not None and ctx.time_left() < 2:
            break
    run_step(ctx, drv, sess, norm_step(case))


if __name__ == "__main__" and sys.argv[1:] == ["--confirm"]:
    _case = json.load(sys.stdin)
    hgxv.use_repo()
    _ctx = hgxv.Ctx("C11", "quick", 0)
    _ctx.model_available = os.path.exists(os.path.join(hgxv.LEAN_DIR, ".lake", "build", "bin", "driver_c11"))
    _ctx.known_findings = []
    _ctx.deadline = time.time() + 60
    try:
        replay(_ctx, _case)
    finally:
        _ctx.close()
    print(json.dumps({"v": len(_ctx.violations), "d": len(_ctx.disagreements)}))
