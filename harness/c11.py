"""C11 - motif census: correspondence of lean/Hgxv/Model/C11.lean with hypergraphx.motifs.* and
independent property oracles (exhaustive enumeration of node subsets) on the implementation."""
import contextlib
import io
import itertools
import signal

import hgxv

RULE = ("(a) generate_motifs(3) and generate_motifs(4) compared IN FULL with the model's tables (classes, mapping, "
        "labeling keys, _is_connected on all 16 / 2048 labelled patterns); (b) random Hypergraph instances (4-8 nodes "
        "from a sparse integer universe, 2-16 hyperedges of size 1-6, dense dyadic part, nested and overlapping "
        "hyperedges injected), orders 3 and 4: compute_motifs(h, n, 0)['observed'] and the three passes against the "
        "model and against exhaustive enumeration of all n-subsets; the same hypergraph relabelled by a random "
        "permutation of a fresh label universe and rebuilt in 5 random insertion orders (node order inside hyperedges "
        "shuffled too); (c) random DirectedHypergraph instances (4-7 nodes, disjoint non-empty sides, size 2-6) with "
        "compute_directed_motifs likewise (canonical keys, relabelling, removal/addition of larger hyperedges, "
        "enumeration). A case is distinct by (kind, order, canonical hyperedge list); non-trivial when at least 3 "
        "classes have a non-zero count")
ASSUMPTIONS = ["integer node labels; hyperedge sizes 1..6 (the property's quantifier); labels reach the model as ranks",
               "directed hyperedges have disjoint non-empty source and target sets (the property's quantifier)",
               "most order-4 calls run with hypergraphx.motifs.utils.generate_motifs memoised by the harness (the "
               "function itself is compared in full with the model once per run and a few calls per run are made "
               "without the memo); the memo returns a fresh copy of the counting dict on every call"]
TRUSTED = ["Python set/dict iteration order does not influence the counted node subsets (the model pops the head of a "
           "list where graph_extend pops an arbitrary set element; only counts are compared)"]
BUDGET_S = {"quick": 50, "thorough": 800}


class Timeout(Exception):
    pass


def _alarm(signum, frame):
    raise Timeout()


def guarded(f, *a, secs=8, **k):
    """run an implementation call: stdout swallowed, exceptions and hangs become observations"""
    old = signal.signal(signal.SIGALRM, _alarm)
    signal.alarm(secs)
    try:
        with contextlib.redirect_stdout(io.StringIO()):
            return ("ok", f(*a, **k))
    except Timeout:
        return ("exc", "timeout after %ds" % secs)
    except Exception as e:  # noqa: BLE001
        return ("exc", type(e).__name__ + ": " + str(e)[:200])
    finally:
        signal.alarm(0)
        signal.signal(signal.SIGALRM, old)


# ------------------------------------------------------------------------------------------
# patterns as masks (independent of the implementation)

def hyperedge_list(n):
    """the list A of generate_motifs over nodes 1..n"""
    A = []
    for r in range(n, 1, -1):
        A.extend(itertools.combinations(range(1, n + 1), r))
    return A


AIDX = {n: {e: i for i, e in enumerate(hyperedge_list(n))} for n in (3, 4)}


def mask_of(n, pat):
    """labelled pattern (iterable of node tuples over 1..n) -> mask; None when it is not a set of hyperedges of size 2..n"""
    m = 0
    try:
        for e in pat:
            i = AIDX[n][tuple(sorted(e))]
            if m >> i & 1:
                return None
            m |= 1 << i
    except (KeyError, TypeError):
        return None
    return m


def pat_of(n, m):
    A = hyperedge_list(n)
    return tuple(sorted(A[i] for i in range(len(A)) if m >> i & 1))


def canon_pat(n, edges):
    """minimum over the n! relabellings of the sorted tuple of sorted hyperedges (nodes 1..n)"""
    best = None
    for p in itertools.permutations(range(1, n + 1)):
        c = tuple(sorted(tuple(sorted(p[v - 1] for v in e)) for e in edges))
        if best is None or c < best:
            best = c
    return best


def connected_sets(nodes, edges):
    """do the hyperedges (each inside `nodes`) connect all of `nodes`? (union-find)"""
    par = {x: x for x in nodes}

    def find(x):
        while par[x] != x:
            par[x] = par[par[x]]
            x = par[x]
        return x
    for e in edges:
        for y in e[1:]:
            par[find(e[0])] = find(y)
    return len({find(x) for x in nodes}) == 1


def brute_census(E, n):
    """the property's words: every n-subset, its hyperedges of size >= 2, kept when connected, classified up to permutation"""
    nodes = sorted({x for e in E for x in e})
    Es = [tuple(sorted(e)) for e in E if 2 <= len(e)]
    out = {}
    for T in itertools.combinations(nodes, n):
        Ts = set(T)
        inner = [e for e in Es if set(e) <= Ts]
        if not inner or not connected_sets(T, inner):
            continue
        rank = {x: i + 1 for i, x in enumerate(T)}
        key = canon_pat(n, [tuple(rank[x] for x in e) for e in inner])
        out[key] = out.get(key, 0) + 1
    return out


# ------------------------------------------------------------------------------------------
# (a) tables

def check_tables(ctx, drv, n):
    from hypergraphx.motifs import utils
    case = {"kind": "tables", "n": n}
    st, res = guarded(utils.generate_motifs, n, secs=25)
    if st != "ok":
        ctx.violation(case, f"generate_motifs({n}) failed: {res}")
        return None
    try:
        mapping, labeling = res
        cls = {}
        for k, labs in mapping.items():
            cls[mask_of(n, k)] = sorted(mask_of(n, l) for l in labs)
        labkeys = sorted(mask_of(n, l) for l in labeling)
        zero = all(v == 0 for v in labeling.values())
    except Exception as e:  # noqa: BLE001
        ctx.violation(case, f"generate_motifs({n}) returned something unreadable: {e!r}")
        return None
    want = {3: 6, 4: 171}[n]
    # property oracle, independent of the model: number of classes, pairwise non-isomorphic, every connected
    # labelled pattern is a relabelling of exactly one class
    if len(mapping) != want:
        ctx.violation(case, f"generate_motifs({n}) yields {len(mapping)} classes, expected {want}")
    if None in cls or any(None in v for v in cls.values()):
        ctx.violation(case, f"generate_motifs({n}) yields a pattern that is not a set of hyperedges of size 2..{n}")
        return None
    canon_of = {}
    for c in cls:
        canon_of.setdefault(canon_pat(n, pat_of(n, c)), []).append(c)
    dup = [v for v in canon_of.values() if len(v) > 1]
    if dup:
        ctx.violation(case, f"generate_motifs({n}): classes {dup[0]} are isomorphic (reported more than once)")
    A = hyperedge_list(n)
    conn = []
    for m in range(1 << len(A)):
        es = [A[i] for i in range(len(A)) if m >> i & 1]
        if es and connected_sets(list(range(1, n + 1)), es) and {x for e in es for x in e} == set(range(1, n + 1)):
            conn.append(m)
            owners = [c for c, labs in cls.items() if m in labs]
            if len(owners) != 1:
                ctx.violation({**case, "pattern": pat_of(n, m)},
                              f"connected labelled pattern {pat_of(n, m)} belongs to {len(owners)} classes of generate_motifs({n})")
                break
            if canon_pat(n, es) != canon_pat(n, pat_of(n, owners[0])):
                ctx.violation({**case, "pattern": pat_of(n, m)}, "pattern filed under a non-isomorphic class")
                break
    if sorted(set(labkeys)) != conn:
        ctx.violation(case, f"labeling keys of generate_motifs({n}) are not exactly the connected labelled patterns "
                            f"({len(set(labkeys))} keys, {len(conn)} connected patterns)")
    if not zero:
        ctx.violation(case, f"generate_motifs({n}) returns non-zero initial counts")
    ic = []
    bad_calls = 0
    for m in range(1 << len(A)):
        es = [A[i] for i in range(len(A)) if m >> i & 1]
        st2, r2 = guarded(utils._is_connected, es, n, secs=3)
        if st2 == "ok" and r2:
            ic.append(m)
        elif st2 != "ok":
            bad_calls += 1
            if bad_calls >= 3:
                ctx.violation(case, f"_is_connected raises / hangs on labelled patterns: {r2}")
                break
    ctx.case(("tables", n), True, sample=case)
    ctx.count(f"table_entries_n{n}", len(labkeys) + len(cls))
    if drv is not None:
        ans = drv.batch([f"classes {n}", f"orbits {n}", f"labeling {n}", f"connected {n}"])
        if sorted(hgxv.dec_list(ans[0])) != sorted(cls):
            ctx.disagree(case, f"class representatives differ: model {ans[0][:200]}, implementation {sorted(cls)[:40]}")
        morb = {}
        for item in ans[1].split(";"):
            c, labs = item.split("=")
            morb[int(c)] = hgxv.dec_list(labs)
        if morb != cls:
            bad = [c for c in cls if morb.get(c) != cls[c]][:3]
            ctx.disagree(case, f"mapping differs from the model's orbits at classes {bad}")
        if hgxv.dec_list(ans[2]) != labkeys:
            ctx.disagree(case, "labeling keys differ from the model's")
        if hgxv.dec_list(ans[3]) != ic:
            ctx.disagree(case, f"_is_connected differs from the model on {len(set(ic) ^ set(hgxv.dec_list(ans[3])))} of the labelled patterns")
    return res


class Memo:
    """memoised generate_motifs (fresh counting dict per call); installed around most order-4 calls"""

    def __init__(self):
        from hypergraphx.motifs import utils
        self.utils = utils
        self.real = utils.generate_motifs
        self.cache = {}

    def __call__(self, n):
        if n not in self.cache:
            self.cache[n] = self.real(n)
        mapping, labeling = self.cache[n]
        return mapping, dict.fromkeys(labeling, 0)

    def __enter__(self):
        self.utils.generate_motifs = self
        return self

    def __exit__(self, *a):
        self.utils.generate_motifs = self.real


# ------------------------------------------------------------------------------------------
# (b) undirected census

def gen_hg(rng):
    n = rng.randint(4, 8)
    labels = sorted(rng.sample(range(0, 40), n))
    edges = []
    k = rng.randint(2, 16)
    style = rng.random()
    for _ in range(k):
        if style < 0.25:
            size = rng.choice([2, 2, 2, 2, 3, 1])
        elif style < 0.5:
            size = rng.choice([2, 3, 3, 4, 4, 3])
        else:
            size = rng.choice([1, 2, 2, 2, 3, 3, 3, 4, 4, 5, 6])
        size = min(size, n)
        e = tuple(rng.sample(labels, size))
        edges.append(e)
        r = rng.random()
        if r < 0.25 and size >= 3:
            edges.append(tuple(rng.sample(e, size - 1)))          # nested hyperedge
        elif r < 0.4 and size >= 2:
            extra = [x for x in labels if x not in e]
            if extra:
                edges.append(tuple(rng.sample(e, rng.randint(1, min(2, size))) + [rng.choice(extra)]))  # attached
    return labels, edges


def build(edges):
    from hypergraphx import Hypergraph
    h = Hypergraph()
    for e in edges:
        h.add_edge(e)
    return h


def observed(h, n, secs=8):
    from hypergraphx.motifs.motifs import compute_motifs
    st, res = guarded(compute_motifs, h, n, runs_config_model=0, secs=secs)
    if st != "ok":
        return st, res
    try:
        out = res["observed"]
        d = {}
        for k, c in out:
            m = mask_of(n, k)
            if m is None or m in d:
                return "exc", f"key {k!r} is not a pattern / is repeated"
            d[m] = int(c)
            if c != int(c):
                return "exc", "non-integer count"
        return "ok", d
    except Exception as e:  # noqa: BLE001
        return "exc", f"unreadable result: {e!r}"


def tally_to_dict(s):
    d = {}
    if s != "-":
        for item in s.split(","):
            c, v = item.split(":")
            d[int(c)] = int(v)
    return d


def nz(d):
    return {k: v for k, v in d.items() if v}


def check_hg(ctx, drv, labels, edges, n, perm_seed, passes=True):
    import random
    from hypergraphx.motifs import utils
    case = {"kind": "undirected", "n": n, "labels": labels, "edges": edges, "perm_seed": perm_seed}
    st, h = guarded(build, edges)
    if st != "ok":
        ctx.violation(case, "Hypergraph construction failed: " + h)
        return
    E = [tuple(e) for e in h.get_edges()]
    key = ("u", n, tuple(sorted(tuple(sorted(e)) for e in E)))
    st, obs = observed(h, n)
    if st != "ok":
        ctx.violation(case, f"compute_motifs(h, {n}, 0) failed: {obs}")
        ctx.case(key, False, sample=case)
        return
    want = {3: 6, 4: 171}[n]
    if len(obs) != want:
        ctx.violation(case, f"compute_motifs reports {len(obs)} classes, expected {want} (each exactly once)")
    # property oracle: exhaustive enumeration
    brute = brute_census(E, n)
    got = {}
    for m, c in nz(obs).items():
        k = canon_pat(n, pat_of(n, m))
        got[k] = got.get(k, 0) + c
    if got != brute:
        diff = [(k, got.get(k, 0), brute.get(k, 0)) for k in set(got) | set(brute) if got.get(k, 0) != brute.get(k, 0)][:3]
        ctx.violation(case, f"order-{n} census differs from exhaustive enumeration: (class, reported, enumerated) = {diff}")
    ctx.case(key, len(nz(obs)) >= 3, sample=case)
    ctx.count(f"order{n}_cases")
    ctx.count(f"order{n}_subsets_counted", sum(obs.values()))
    if any(len(e) > n for e in h.get_edges()):
        ctx.count(f"order{n}_cases_with_larger_hyperedges")
    # metamorphic oracles: relabelling, insertion order
    r = random.Random(perm_seed)
    fresh = r.sample(range(0, 60), len(labels))
    pi = dict(zip(labels, fresh))
    st2, obs2 = observed(build([tuple(pi[x] for x in e) for e in edges]), n)
    if st2 != "ok" or obs2 != obs:
        ctx.violation({**case, "relabel": pi}, f"order-{n} census changes under the relabelling {pi}: "
                      + (obs2 if st2 != "ok" else str(sorted(set(nz(obs).items()) ^ set(nz(obs2).items()))[:4])))
        if st2 != "ok":
            return
    for j in range(5):
        es = [tuple(r.sample(e, len(e))) for e in edges]
        r.shuffle(es)
        st3, obs3 = observed(build(es), n)
        if st3 != "ok" or obs3 != obs:
            ctx.violation({**case, "order": es}, f"order-{n} census changes with the insertion order {es}: "
                          + (obs3 if st3 != "ok" else str(sorted(set(nz(obs).items()) ^ set(nz(obs3).items()))[:4])))
            break
    if drv is None:
        return
    rank = {x: i for i, x in enumerate(sorted(labels))}
    enc = hgxv.enc_lists([[rank[x] for x in e] for e in E])
    lines = [f"census {n} {enc}"]
    if passes:
        lines += [f"passes {n} {enc}", f"visited {n} {enc}"]
    ans = drv.batch(lines)
    if tally_to_dict(ans[0]) != obs:
        mod = tally_to_dict(ans[0])
        diff = [(pat_of(n, k), mod.get(k), obs.get(k)) for k in set(mod) | set(obs) if mod.get(k) != obs.get(k)][:3]
        ctx.disagree(case, f"census: (pattern, model, implementation) = {diff}")
    if passes:
        Eup = [e for e in E if len(e) <= n]
        pf = guarded(utils._motifs_ho_full, list(Eup), n)
        ok = pf[0] == "ok"
        if ok:
            full, vis = pf[1]
            v1 = sorted(sorted(rank[x] for x in s) for s in vis)
            vis = dict(vis)
            if n == 4:
                pn = guarded(utils._motifs_ho_not_full, list(Eup), n, vis)
                ok = pn[0] == "ok"
                if ok:
                    nf, vis = pn[1]
            else:
                nf = [(k, 0) for k, _ in full]
        if ok:
            v2 = sorted(sorted(rank[x] for x in s) for s in vis)
            ps = guarded(utils._motifs_standard, list(Eup), n, dict(vis))
            ok = ps[0] == "ok"
        if not ok:
            ctx.disagree(case, "a pass raised / timed out while compute_motifs succeeded")
            return
        std = ps[1]
        mp = [tally_to_dict(t) for t in ans[1].split("|")]
        for name, impl, mod in (("full", full, mp[0]), ("not_full", nf, mp[1]), ("standard", std, mp[2])):
            d = {mask_of(n, k): c for k, c in impl}
            if d != mod:
                diff = [(pat_of(n, k), mod.get(k), d.get(k)) for k in set(mod) | set(d) if k is not None and mod.get(k) != d.get(k)][:3]
                ctx.disagree(case, f"pass {name}: (pattern, model, implementation) = {diff}")
        mv = ans[2].split("|")
        if hgxv.dec_lists(mv[0]) != v1 or hgxv.dec_lists(mv[1]) != v2:
            ctx.disagree(case, f"visited sets differ: model {ans[2][:200]}, implementation {v1} | {v2}")


# ------------------------------------------------------------------------------------------
# (c) directed census

def gen_dhg(rng):
    n = rng.randint(4, 7)
    labels = sorted(rng.sample(range(0, 40), n))
    edges = []
    for _ in range(rng.randint(2, 12)):
        size = min(n, rng.choice([2, 2, 3, 3, 3, 4, 4, 4, 5, 6]))
        nodes = rng.sample(labels, size)
        k = rng.randint(1, size - 1)
        e = (tuple(nodes[:k]), tuple(nodes[k:]))
        edges.append(e)
        r = rng.random()
        if r < 0.2:
            edges.append((e[1], e[0]))
        elif r < 0.5:
            extra = [x for x in labels if x not in nodes]
            a = rng.choice(nodes)
            if extra:
                b = rng.choice(extra)
                edges.append(((a,), (b,)) if rng.random() < 0.5 else ((b,), (a,)))
        elif r < 0.65 and size >= 3:
            sub = rng.sample(nodes, size - 1)
            k2 = rng.randint(1, size - 2)
            edges.append((tuple(sub[:k2]), tuple(sub[k2:])))
    return labels, edges


def dbuild(edges):
    from hypergraphx import DirectedHypergraph
    h = DirectedHypergraph()
    for e in edges:
        h.add_edge(e)
    return h


def dcanon_key(n, pat):
    best = None
    for p in itertools.permutations(range(1, n + 1)):
        c = tuple(sorted((tuple(sorted(p[v - 1] for v in e[0])), tuple(sorted(p[v - 1] for v in e[1]))) for e in pat))
        if best is None or c < best:
            best = c
    return best


def dobserved(h, n, secs=8):
    from hypergraphx.motifs.directed_motifs import compute_directed_motifs
    st, res = guarded(compute_directed_motifs, h, n, runs_config_model=0, secs=secs)
    if st != "ok":
        return st, res
    try:
        d = {}
        for k, c in res["observed"]:
            k = tuple((tuple(e[0]), tuple(e[1])) for e in k)
            if k in d:
                return "exc", f"pattern {k!r} reported twice"
            d[k] = int(c)
        return "ok", d
    except Exception as e:  # noqa: BLE001
        return "exc", f"unreadable result: {e!r}"


def dbrute(E, n):
    """node subsets spanned by one hyperedge, or (n = 4) by a 3-node hyperedge plus a hyperedge that
    contains the fourth node; pattern = all hyperedges inside the subset; classified up to permutation"""
    nodes = sorted({x for e in E for x in e[0] + e[1]})
    Es = [e for e in E if len(e[0]) + len(e[1]) <= n]
    out = {}
    for T in itertools.combinations(nodes, n):
        Ts = set(T)
        inner = [e for e in Es if set(e[0] + e[1]) <= Ts]
        span = [set(e[0] + e[1]) for e in inner]
        keep = any(len(s) == n for s in span)
        if not keep and n == 4:
            keep = any(len(s) == 3 and any((Ts - s) <= t for t in span) for s in span)
        if not keep:
            continue
        rank = {x: i + 1 for i, x in enumerate(T)}
        key = dcanon_key(n, [(tuple(rank[x] for x in e[0]), tuple(rank[x] for x in e[1])) for e in inner])
        out[key] = out.get(key, 0) + 1
    return out


def parse_dcensus(s):
    d = {}
    if s == "-":
        return d
    for item in s.split("|"):
        pat, c = item.split("=")
        key = []
        if pat != "-":
            for e in pat.split(";"):
                a, b = e.split(">")
                key.append((tuple(int(x) for x in a.split(".")) if a != "_" else (),
                            tuple(int(x) for x in b.split(".")) if b != "_" else ()))
        d[tuple(key)] = int(c)
    return d


def check_dhg(ctx, drv, labels, edges, n, perm_seed):
    import random
    case = {"kind": "directed", "n": n, "labels": labels, "edges": edges, "perm_seed": perm_seed}
    st, h = guarded(dbuild, edges)
    if st != "ok":
        ctx.violation(case, "DirectedHypergraph construction failed: " + h)
        return
    E = [(tuple(e[0]), tuple(e[1])) for e in h.get_edges()]
    key = ("d", n, tuple(sorted(E)))
    st, obs = dobserved(h, n)
    if st != "ok":
        ctx.violation(case, f"compute_directed_motifs(h, {n}, 0) failed: {obs}")
        ctx.case(key, False, sample=case)
        return
    ctx.case(key, len(obs) >= 3, sample=case)
    ctx.count(f"directed_order{n}_cases")
    for k in obs:
        if dcanon_key(n, k) != k:
            ctx.violation(case, f"reported directed pattern {k} is not the minimum of its relabellings {dcanon_key(n, k)}")
            break
    r = random.Random(perm_seed)
    fresh = r.sample(range(0, 60), len(labels))
    pi = dict(zip(labels, fresh))
    st2, obs2 = dobserved(dbuild([(tuple(pi[x] for x in e[0]), tuple(pi[x] for x in e[1])) for e in edges]), n)
    if st2 != "ok" or obs2 != obs:
        ctx.violation({**case, "relabel": pi}, f"directed order-{n} census changes under the relabelling {pi}")
    es = [(tuple(r.sample(e[0], len(e[0]))), tuple(r.sample(e[1], len(e[1])))) for e in edges]
    r.shuffle(es)
    st3, obs3 = dobserved(dbuild(es), n)
    if st3 != "ok" or obs3 != obs:
        ctx.violation({**case, "order": es}, f"directed order-{n} census changes with the insertion order")
    small = [e for e in edges if len(e[0]) + len(e[1]) <= n]
    big = list(edges)
    if len(labels) > n:
        nodes = r.sample(labels, r.randint(n + 1, len(labels)))
        k = r.randint(1, len(nodes) - 1)
        big.append((tuple(nodes[:k]), tuple(nodes[k:])))
    for name, ee in (("removing", small), ("adding", big)):
        st4, obs4 = dobserved(dbuild(ee), n) if ee else ("ok", {})
        if st4 != "ok" or obs4 != obs:
            ctx.violation({**case, "variant": ee}, f"directed order-{n} census changes when {name} hyperedges of size > {n}")
    brute = dbrute(E, n)
    if brute != obs:
        diff = [(k, obs.get(k, 0), brute.get(k, 0)) for k in set(obs) | set(brute) if obs.get(k, 0) != brute.get(k, 0)][:2]
        ctx.violation(case, f"directed order-{n} census differs from the enumeration of node subsets: (pattern, reported, enumerated) = {diff}")
    if drv is None:
        return
    rank = {x: i for i, x in enumerate(sorted(labels))}
    a = hgxv.enc_lists([[rank[x] for x in e[0]] for e in E])
    b = hgxv.enc_lists([[rank[x] for x in e[1]] for e in E])
    ans = drv.ask(f"dcensus {n} {a} {b}")
    try:
        mod = parse_dcensus(ans)
    except Exception:  # noqa: BLE001
        mod = None
    if mod != obs:
        ctx.disagree(case, f"directed census: model {ans[:300]!r}, implementation {sorted(obs.items())[:4]}")


# ------------------------------------------------------------------------------------------

def out_of_time(ctx, margin=4):
    return ctx.too_many() or (ctx.time_left() is not None and ctx.time_left() < margin)


def run(ctx):
    drv = ctx.driver() if ctx.model_available else None
    for n in (3, 4):
        check_tables(ctx, drv, n)
    rng = ctx.rng
    n_u = ctx.scale(55, 1500)
    n_d = ctx.scale(40, 1200)
    raw4 = ctx.scale(2, 40)      # order-4 cases run without the memo
    for i in range(n_u):
        labels, edges = gen_hg(rng)
        seed = rng.randrange(1 << 30)
        check_hg(ctx, drv, labels, edges, 3, seed)
        if out_of_time(ctx):
            break
        if i < raw4:
            check_hg(ctx, drv, labels, edges, 4, seed, passes=(i == 0))
            ctx.count("order4_cases_without_memo")
        else:
            with Memo():
                check_hg(ctx, drv, labels, edges, 4, seed)
        if out_of_time(ctx):
            break
    for i in range(n_d):
        labels, edges = gen_dhg(rng)
        seed = rng.randrange(1 << 30)
        for n in (3, 4):
            check_dhg(ctx, drv, labels, edges, n, seed)
        if out_of_time(ctx):
            break


def replay(ctx, case):
    drv = ctx.driver() if ctx.model_available else None
    kind = case.get("kind")
    if kind == "tables":
        check_tables(ctx, drv, case["n"])
    elif kind == "undirected":
        check_hg(ctx, drv, case["labels"], [tuple(e) for e in case["edges"]], case["n"], case.get("perm_seed", 0))
    elif kind == "directed":
        check_dhg(ctx, drv, case["labels"], [(tuple(e[0]), tuple(e[1])) for e in case["edges"]], case["n"],
                  case.get("perm_seed", 0))
