"""C01 - Hypergraph answers every query as the abstract hypergraph of its history.

Three parties run the same generated history (commands in rank/token space):
  * REAL   hypergraphx.Hypergraph objects (public API only), labels/values/weights mapped back to ranks/tokens/quanta;
  * ORACLE `PySpec` below: the property's own words - a plain dict of nodes and a dict from node sets to
            [weight, metadata] - written independently of the Lean text;
  * MODEL  lean/Driver/C01.lean: the concrete whole-object model `C01.fstep` (tables of `C01.apply` + incidence metadata +
            empty-hyperedge registry + the extraction routines `C01.extract`) and the Lean spec `C01.FSpec.step` in lock step
            (the driver prints SPECDIFF when they differ, `chk` compares `fabs concrete = spec`).
REAL != ORACLE is a violation of the property (failing input = the history);  REAL != MODEL breaks the correspondence.
"""
import collections
import copy
import itertools
import signal
import warnings
import zlib
from fractions import Fraction

import numpy as np

import hgxv

RULE = ("random histories of 1-40 public calls on 2 Hypergraph slots (+1 scratch slot for constructor calls) over a universe "
        "of 3-6 mutually comparable labels of one of 14 kinds (small / shifted / negative ints, ints beyond the small-int cache "
        "up to 10**30 incl. hash-colliding pairs, mixed int/float incl. +-inf, short strings, odd strings incl. '', strings "
        "built at run time, tuple labels of mixed length, (str, int) tuples, nested tuples, universes of integers that share "
        "ONE hash value (-1 / -2 / -2**61, 0 / 2**61-1 / 2*(2**61-1), ...) and tuples over them), hyperedge sizes 0-4 drawn "
        "mostly from a pool of 4-6 favourite node sets given in permuted node order, metadata over 4 attribute names; "
        "weights are exact multiples of 1/4 written as a number of a given Python type - one of three profiles per history: "
        "small values as int / float; the same values as int, float, bool, numpy.float64 / float32 / int64 / int32, Fraction "
        "next to each other; integers beyond 2**53 / 2**63 / 10**30 and floats up to 1e300 next to small floats and ints, 80% "
        "of the weighted batches of such a history mixing an integer beyond 2**53 with a float (resp. two number types) in "
        "ONE weights list; 40% of the histories concentrate on calls that store / replace / add up weights; a call whose "
        "weight additions Python itself cannot do exactly (2**53 + 1 + 0.5) is not generated, a history ends before it; "
        "besides fresh objects a history starts again from objects made by OTHER parts of the library: copy(), "
        "copy.deepcopy, pickle, save_hypergraph(binary) + load_hypergraph, populate_from_dict(expose_data_structures()) "
        "(must hold the same abstract hypergraph), subhypergraph, subhypergraph_by_orders, subhypergraph_largest_component, "
        "get_edges(subhypergraph=True), filter_hypergraph, add_random_edge(s), random_hypergraph / random_uniform_hypergraph "
        "(whatever the new object reports through the getters is the abstract hypergraph the rest of the history starts "
        "from; in 40% it goes to the other slot and the source stays observed), and batched calls get the library's own "
        "listings handed back (remove_edges(h.get_edges(..)), remove_nodes(h.get_nodes()), add_edges(g.get_edges(), "
        "g.get_weights())); after a rejected call the next 1-3 calls go through OTHER entry points on the members of the "
        "rejected call; every accepted batched call (60%) and constructor call is also compared with the same members one "
        "call each on a copy taken before (implementation against implementation); "
        "a constructor call is ONE model call (`ctor` line = C01.construct, Spec.construct beside it); after every query round "
        "expose_attributes_for_hashing(), get_mapping() (classes; transform of present nodes, of absent ones against numeric "
        "class arrays; int < 2**53 / str universes), get_adj_dict() read through _reverse_edge_list and the round trip "
        "populate_from_dict(expose_data_structures()) are compared with model and abstract hypergraph (`x` lines); "
        "subhypergraph_largest_component() is sent to the model as a call (`lcc` line = C01.subLcc) when the largest component "
        "of the abstract hypergraph is unique, its object compared through a query round, then adopted as before; "
        "every call is WRITTEN anew (presentation, derived from the case's `pres` seed and the call): each label is a freshly "
        "constructed equal object (int(str(x)), float / numpy.int64 / bool where exactly equal, re-joined strings, rebuilt "
        "tuples), hyperedges / node lists / hyperedge lists / weight lists / metadata lists come as tuple, list, set, frozenset, "
        "range, iterator, generator, dict, dict keys, numpy array, deque, str (where the callee can take them), optional "
        "arguments are left out / given as None or False / given by keyword / given by position; ~12% malformed calls (a "
        "quarter of the batched removals) (missing node/hyperedge/attribute, weight on unweighted, short weight/metadata "
        "lists, repeated members in batches - also spelled in another node order -, order and size together); after every "
        "call the caller overwrites every container he handed in, and the touched slot is asked a sampled set of queries "
        "(after a rejected call: the whole unfiltered observable state); every container a query returns is overwritten by "
        "the caller once its answer is read (4% are kept across the next mutating call first and must read the same then) "
        "and a digest of queries is asked again; at the end of a history every query with every filter order in -1..4 / "
        "size in 0..5 / up_to; thorough adds all histories of length <= 3 (unweighted; <= 2 weighted) over a "
        "26-call alphabet on 3 nodes with the boundary filters at the end. "
        "~5% of the calls go to the two side tables of the object: set_incidence_metadata (hyperedge AS WRITTEN - a tuple in "
        "permuted node order -, any node of the universe; present / absent hyperedges, a second call on a stored key, the "
        "reversed spelling) and add_empty_edge (3 names; a name freed by clear() is registered again), both asked back through "
        "get_all_incidences_metadata and get_incidence_metadata (every stored entry, its reversed spelling, absent entries); "
        "subhypergraph / subhypergraph_by_orders / get_edges(subhypergraph=True) are run BY THE MODEL (driver command "
        "`extract`), a quarter of the subhypergraph calls with a node list that is not clamped to the nodes at hand, ~10% of the "
        "other two with orders and sizes both / neither given resp. order and size both given: those must raise and change nothing. "
        "A history is distinct by its canonical command text and non-trivial when it has >= 1 accepted removal and >= 1 "
        "insertion of a hyperedge that is or was present")
ASSUMPTIONS = ["hyperedges are given as duplicate-free node collections (the quantifier says node sets)",
               "node labels are mutually comparable and hashable; they reach the model as their rank in the label universe; "
               "equal objects of different type (1, 1.0, True, numpy.int64(1); 'a', numpy.str_('a')) are ONE label, as for a "
               "Python dict; numpy scalars are used only where numpy compares them exactly (|x| <= 2**53); NaN is no label",
               "weights are multiples of 1/4 of any magnitude given as int, float, bool, numpy scalar or Fraction; a weight is "
               "compared by its exact VALUE (3 and 3.0 are the same weight), its type matters only through Python's own +: the "
               "histories contain only additions that Python does exactly on the objects a plain map would hold (an int plus a "
               "float beyond 2**53, numpy int64 overflow, float32 rounding, int too large for a float are left out - there a "
               "plain Python map itself would not 'add the weight'); weight and metadata lists are sequences (list, tuple, numpy "
               "array of one number type or of objects, deque, pandas Series - the code indexes them; a caller who puts 2**53+1 "
               "and 0.5 into ONE float array has rounded himself); with weights the hyperedges of one batch are hashable and of one type "
               "(tuple, frozenset or range - the code builds set(edge_list)); the constructor gets sized hyperedge lists "
               "when it is weighted with weights (it takes len)",
               "metadata dictionaries are stored and returned BY REFERENCE (design of the library, see C07): the caller passes a "
               "fresh dictionary per call and never mutates it afterwards, nor a dictionary returned by get_*_metadata / "
               "get_all_*_metadata / get_hypergraph_metadata / inside get_nodes(metadata=True) / get_edges(metadata=True); every "
               "OTHER container handed in or returned is the caller's and he overwrites it; subhypergraph* / "
               "get_edges(subhypergraph=True) hand the source's metadata dictionaries on to the new object (same design): when the "
               "source stays observed the caller first sets deep copies through set_node_metadata / set_edge_metadata",
               "objects made by subhypergraph_largest_component, filters and generators are taken as they report themselves (their "
               "content is the subject of C05 / C06 / C13); this check demands that they are consistent and behave as the abstract "
               "hypergraph they report for the rest of the history, and that copies hold what the source holds; subhypergraph, "
               "subhypergraph_by_orders and get_edges(subhypergraph=True) are inside the Lean model (the model is told the call and "
               "must report the same object; the Python oracle still adopts the read-out); copies made through "
               "expose_data_structures / the binary file format hold the node and hyperedge tables only (no incidence metadata, no "
               "empty hyperedges: C06_hgx_roundtrip)",
               "set_incidence_metadata gets its hyperedge as a tuple (the table is keyed by the object as written; a list is "
               "unhashable)",
               "a call is 'rejected' when it raises any exception; exception classes are not compared"]
TRUSTED = ["harness/c01.py PySpec: the abstract hypergraph used as the property oracle (60 lines of dict code)",
           "label genericity: the same abstract history gives the same answers whatever the labels are "
           "(exercised: each history draws one of 12 label kinds and every call re-creates its label objects; the model only "
           "sees ranks)"]
BUDGET_S = {"quick": 75, "thorough": 1300}

KEYS = ["weighted", "type", "color", "since"]          # attribute tokens 0..3
VALS = [False, True, "Hypergraph", 5, "x", 2.5, [1, 2], {"a": 1}, None, ""]   # value tokens 0..9
NSLOT = 3
ONE = 4


# ------------------------------------------------------------------------------------------------
# weights.  The abstract history carries a weight as a TOKEN: (q, kind) = the exact value q/4 written as a number of the
# given Python type (an old-style token is the bare int q; its type then follows from the call, see wkind).  The model
# and the oracle compute with the exact quanta q (Lean `Int`, any magnitude); next to it the oracle keeps what a plain
# Python map would hold: the very kind of object the caller passed, accumulated with Python's `+` (`pv`).  A history is
# generated / continued only while that Python value IS the exact value (Python's + on the types at hand is exact), so
# that "adds its weight" has one meaning for the implementation, the plain map and the model.
WKINDS = {"i": "int", "f": "float", "F": "numpy.float64", "I": "numpy.int64", "b": "bool", "q": "fractions.Fraction",
          "h": "numpy.float32", "j": "numpy.int32"}


def wq(t):
    return t if isinstance(t, int) else t[0]


def wkind(t, flip=0):
    if isinstance(t, int):
        return "i" if (t % 4 == 0 and flip % 2 == 0) else "f"
    return t[1]


def mkw(t, flip=0):
    """the number q/4 as a freshly built object of the token's type"""
    if t is None:
        return None
    q, k = wq(t), wkind(t, flip)
    if k == "i":
        return int(str(q // 4))
    if k == "f":
        return q / 4
    if k == "F":
        return np.float64(q / 4)
    if k == "I":
        return np.int64(q // 4)
    if k == "j":
        return np.int32(q // 4)
    if k == "b":
        return bool(q // 4)
    if k == "h":
        return np.float32(q / 4)
    if k == "q":
        return Fraction(q, 4)
    raise ValueError(k)


def exactq(w):
    """the exact value of a number object in quanta of 1/4 (a Fraction), or None"""
    try:
        if isinstance(w, (bool, np.bool_)):
            return Fraction(int(w)) * 4
        if isinstance(w, (int, np.integer)):
            return Fraction(int(w)) * 4
        if isinstance(w, (float, np.floating)):
            return Fraction(float(w)) * 4
        if isinstance(w, Fraction):
            return w * 4
    except (OverflowError, ValueError):
        return None
    return None


def wtoken_of(w):
    """the token of a weight object the hypergraph handed out (None when it is not a multiple of 1/4 of a known type)"""
    kinds = [(bool, "b"), (np.float64, "F"), (float, "f"), (np.int64, "I"), (np.int32, "j"), (np.float32, "h"), (int, "i"),
             (Fraction, "q")]
    q = exactq(w)
    if q is None or q.denominator != 1:
        return None
    for t, k in kinds:
        if type(w) is t:
            return (int(q), k)
    return None


def wtoken_ok(t, flip=0):
    """the token denotes what it says: the object of that type has exactly the value q/4"""
    try:
        with warnings.catch_warnings():
            warnings.simplefilter("ignore")
            return exactq(mkw(t, flip)) == wq(t)
    except Exception:
        return False


# ------------------------------------------------------------------------------------------------
# rendering (mirror of showAns in lean/Driver/C01.lean) and order-normalisation

def r_meta(m, empty="-"):
    return ",".join(f"{k}:{v}" for k, v in m.items()) if m else empty


def r_edge(e):
    return ",".join(str(x) for x in e) if len(e) else "_"


def r_list(xs):
    xs = list(xs)
    return ",".join(str(x) for x in xs) if xs else "-"


def r_edges(es):
    es = list(es)
    return ";".join(r_edge(e) for e in es) if es else "-"


def r_xmetas(d, rk):
    return ";".join(f"{rk(k)}={r_meta(m, '_')}" for k, m in d.items()) if d else "-"


def r_ews(d):
    return ";".join(f"{r_edge(e)}={w}" for e, w in d.items()) if d else "-"


def r_pairs(d):
    return ",".join(f"{a}:{b}" for a, b in d.items()) if d else "-"


def r_bool(b):
    return "1" if b else "0"


def norm(kind, s):
    if s in ("rej", "-") or kind == "scalar":
        return s
    if kind == "comma":
        return ",".join(sorted(s.split(",")))
    if kind == "semi":
        return ";".join(sorted(s.split(";")))
    if kind == "semimeta":
        out = []
        for ent in s.split(";"):
            x, _, m = ent.partition("=")
            out.append(x + "=" + (m if m == "_" else ",".join(sorted(m.split(",")))))
        return ";".join(sorted(out))
    raise ValueError(kind)


KIND = {"nodes": "comma", "nodesmeta": "semimeta", "checknode": "scalar", "numnodes": "scalar", "edges": "semi",
        "edgesmeta": "semimeta", "numedges": "scalar", "len": "scalar", "iter": "semi", "checkedge": "scalar",
        "weight": "scalar", "weights": "comma", "weightsdict": "semi", "incident": "semi", "neighbors": "comma",
        "degree": "scalar", "degreeseq": "comma", "degreedist": "comma", "sizes": "comma", "orders": "comma",
        "sizedist": "comma", "maxsize": "scalar", "maxorder": "scalar", "isuniform": "scalar", "isweighted": "scalar",
        "nodemeta": "comma", "edgemeta": "comma", "allnodesmeta": "semimeta", "alledgesmeta": "semimeta",
        "hmeta": "comma", "isolated": "comma", "isisolated": "scalar", "incmeta": "comma", "allincmeta": "semimeta"}
ENAMES = ["empty-a", 0, ("e", 1)]       # names of empty hyperedges (tokens 0..2)


def r_raw(e):
    """a hyperedge as the caller spelled it (key of the incidence metadata table): node order kept"""
    return ",".join(str(x) for x in e) if len(e) else "_"


def r_incs(d):
    return ";".join(f"{r_raw(k[0])}@{k[1]}={r_meta(m, '_')}" for k, m in d.items()) if d else "-"


# ------------------------------------------------------------------------------------------------
# the oracle: a plain set of nodes + a map from node sets to [weight, metadata]  (rank / token / quanta space)

def r_smeta(m, empty="_"):
    """metadata with its entries sorted (dict order is not part of the hashing view comparison)"""
    return ",".join(sorted(f"{k}:{v}" for k, v in m.items())) if m else empty


def norm_x(line, a):
    """normal form of the model's answer to an `x` line: metadata entries sorted, every list ORDER kept"""
    if not line.endswith(" hashing") or a == "rej" or a.startswith("SPECDIFF"):
        return a
    w, hm, es, ns = a.split("|")
    sm = lambda m, empty: m if m in ("-", "_") else ",".join(sorted(m.split(",")))
    es2 = es if es == "-" else ";".join("=".join(e.split("=")[:2] + [sm(e.split("=")[2], "_")]) for e in es.split(";"))
    ns2 = ns if ns == "-" else ";".join(x.split("=")[0] + "=" + sm(x.split("=")[1], "_") for x in ns.split(";"))
    return "|".join([w, sm(hm, "-"), es2, ns2])


def spec_hashing(sp):
    es = sorted((sorted(k), v[0], v[1]) for k, v in sp.edges.items())
    return "|".join([r_bool(sp.w), r_smeta(sp.hm, "-"),
                     ";".join(f"{r_edge(k)}={w}={r_smeta(m)}" for k, w, m in es) or "-",
                     ";".join(f"{n}={r_smeta(m)}" for n, m in sorted(sp.nodes.items())) or "-"])


class Rej(Exception):
    pass


class PySpec:
    def __init__(self, weighted=False, hm=None):
        self.w = bool(weighted)
        self.nodes = {}                      # node -> {attr: val}
        self.edges = {}                      # frozenset -> [weight in quanta, {attr: val}, weight as the Python object of a plain map]
        self.inexact = False                 # a Python `+` of the history was not exact (or raised): the history ends before it
        self.hm = dict(hm or {})
        self.hm[0] = 1 if weighted else 0
        self.hm[1] = 2
        self.inc = {}                        # (hyperedge as spelled, node) -> {attr: val}; never pruned
        self.empties = {}                    # name token -> {attr: val}
        self.old_empties = set()             # (generation only) names registered before a clear(): free again

    # -- mutations: each raises Rej before changing anything, or completes ---------------------
    def _add_node(self, n, md=None):
        if n not in self.nodes:
            self.nodes[n] = {}
        if not self.nodes[n]:
            self.nodes[n] = dict(md or {})

    def _add_edge(self, e, w=None, md=None, flip=0, pv=None):
        """w: a weight token (or None); pv: the Python object when the weight is one the hypergraph holds (remove_node)"""
        q = None if w is None else wq(w)
        if w is not None and pv is None:
            pv = mkw(w, flip)
        if not self.w and q is not None and q != ONE:
            raise Rej
        k = frozenset(e)
        if k in self.edges:
            if self.w:
                ent = self.edges[k]
                ent[0] += ONE if q is None else q
                try:
                    with warnings.catch_warnings():
                        warnings.simplefilter("ignore")
                        ent[2] = ent[2] + (1 if pv is None else pv)
                    if exactq(ent[2]) != ent[0]:
                        self.inexact = True
                except Exception:
                    self.inexact = True
            self.edges[k][1] = dict(md or {})
        else:
            self.edges[k] = [(ONE if q is None else q), dict(md or {}), (1 if pv is None else pv)] if self.w else [ONE, dict(md or {}), 1]
            for n in sorted(k):
                self._add_node(n)

    def _remove_edge(self, e):
        k = frozenset(e)
        if k not in self.edges:
            raise Rej
        del self.edges[k]

    def _remove_node(self, n, keep):
        if n not in self.nodes:
            raise Rej
        inc = [k for k in self.edges if n in k]
        if keep:
            for k in inc:
                w, md, pv = self.edges[k]
                self._add_edge(k - {n}, w, md, pv=pv)
        for k in inc:
            del self.edges[k]
        del self.nodes[n]

    def do(self, c):
        """apply an operation tuple atomically; True = accepted.  When a Python `+` of the operation is not exact nothing is
        applied and `self.inexact` is set (the caller ends / regenerates the history there)"""
        t = copy.deepcopy(self)
        try:
            t._do(c)
        except Rej:
            return False
        if t.inexact:
            self.inexact = True
            return True
        self.__dict__ = t.__dict__
        return True

    def _edge_of(self, e):
        k = frozenset(e)
        if k not in self.edges:
            raise Rej
        return self.edges[k]

    def _do(self, c):
        op = c[0]
        if op == "addnode":
            self._add_node(c[1], c[2])
        elif op == "addnodes":
            if c[2] is not None and any(n not in c[2] for n in c[1]):
                raise Rej
            for n in c[1]:
                self._add_node(n, None if c[2] is None else c[2][n])
        elif op == "addedge":
            self._add_edge(c[1], c[2], c[3], flip=len(c[1]))
        elif op == "addedges":
            es, ws, mds = c[1], c[2], c[3]
            if ws is not None and (len(set(map(tuple, es))) != len(es) or len(ws) != len(es)):
                raise Rej
            if mds is not None and len(mds) < len(es):
                raise Rej
            if ws is not None:
                self.w = True
            for i, e in enumerate(es):
                self._add_edge(e, None if ws is None else ws[i], None if mds is None else mds[i], flip=i)
        elif op == "rmedge":
            self._remove_edge(c[1])
        elif op == "rmedges":
            ks = [frozenset(e) for e in c[1]]
            if len(set(ks)) != len(ks):
                raise Rej
            for e in c[1]:
                self._remove_edge(e)
        elif op == "rmnode":
            self._remove_node(c[1], c[2])
        elif op == "rmnodes":
            if len(set(c[1])) != len(c[1]) or any(n not in self.nodes for n in c[1]):
                raise Rej
            for n in c[1]:
                self._remove_node(n, c[2])
        elif op == "setw":
            if not self.w and wq(c[2]) != ONE:
                raise Rej
            ent = self._edge_of(c[1])
            ent[0], ent[2] = wq(c[2]), mkw(c[2], len(c[1]))
        elif op == "setnmeta":
            if c[1] not in self.nodes:
                raise Rej
            self.nodes[c[1]] = dict(c[2])
        elif op == "setemeta":
            self._edge_of(c[1])[1] = dict(c[2])
        elif op == "sethmeta":
            self.hm = dict(c[1])
        elif op == "attrh":
            self.hm[c[1]] = c[2]
        elif op == "attrn":
            if c[1] not in self.nodes:
                raise Rej
            self.nodes[c[1]][c[2]] = c[3]
        elif op == "attre":
            self._edge_of(c[1])[1][c[2]] = c[3]
        elif op == "delattrn":
            if c[1] not in self.nodes or c[2] not in self.nodes[c[1]]:
                raise Rej
            del self.nodes[c[1]][c[2]]
        elif op == "delattre":
            md = self._edge_of(c[1])[1]
            if c[2] not in md:
                raise Rej
            del md[c[2]]
        elif op == "clear":
            self.nodes, self.edges, self.hm = {}, {}, {}
            self.old_empties |= set(self.empties)
            self.inc, self.empties = {}, {}
        elif op == "setinc":
            self._edge_of(c[1])
            self.inc[(tuple(c[1]), c[2])] = dict(c[3])
        elif op == "addempty":
            if c[1] in self.empties:
                raise Rej
            self.empties[c[1]] = dict(c[2])
        else:
            raise ValueError(op)

    # -- queries: rendered strings -------------------------------------------------------------
    @staticmethod
    def _flt(f):
        """returns predicate on a key, or None when order and size are both given"""
        o, k, up = f
        if o is not None and k is not None:
            return None
        if o is None and k is None:
            return lambda e: True
        size = k if k is not None else o + 1
        return (lambda e: len(e) <= size) if up else (lambda e: len(e) == size)

    def ask(self, q):
        name = q[0]
        E = {tuple(sorted(k)): v for k, v in self.edges.items()}
        if name == "nodes":
            return r_list(self.nodes)
        if name in ("nodesmeta", "allnodesmeta"):
            return r_xmetas(self.nodes, str)
        if name == "checknode":
            return r_bool(q[1] in self.nodes)
        if name == "numnodes":
            return str(len(self.nodes))
        if name in ("edges", "edgesmeta", "numedges", "weights", "weightsdict"):
            p = self._flt(q[1])
            if p is None:
                return "rej"
            sel = {e: v for e, v in E.items() if p(e)}
            if name == "edges":
                return r_edges(sel)
            if name == "edgesmeta":
                return r_xmetas({e: v[1] for e, v in sel.items()}, r_edge)
            if name == "numedges":
                return str(len(sel))
            if name == "weights":
                return r_list(v[0] for v in sel.values())
            return r_ews({e: v[0] for e, v in sel.items()})
        if name == "len":
            return str(len(E))
        if name == "iter":
            return r_edges(E)
        if name == "checkedge":
            return r_bool(frozenset(q[1]) in self.edges)
        if name == "weight":
            return str(self.edges[frozenset(q[1])][0]) if frozenset(q[1]) in self.edges else "rej"
        if name in ("incident", "neighbors", "degree", "isisolated"):
            n, f = q[1], (q[2][0], q[2][1], False)
            p = self._flt(f)
            if p is None or n not in self.nodes:
                return "rej"
            inc = [e for e in E if n in e and p(e)]
            nb = set(x for e in inc for x in e) - {n}
            return {"incident": lambda: r_edges(inc), "neighbors": lambda: r_list(nb), "degree": lambda: str(len(inc)),
                    "isisolated": lambda: r_bool(not nb)}[name]()
        if name in ("degreeseq", "degreedist", "isolated"):
            p = self._flt((q[1][0], q[1][1], False))
            if p is None:
                return "rej"
            deg = {n: sum(1 for e in E if n in e and p(e)) for n in self.nodes}
            if name == "degreeseq":
                return r_pairs(deg)
            if name == "degreedist":
                dist = {}
                for d in deg.values():
                    dist[d] = dist.get(d, 0) + 1
                return r_pairs(dist)
            return r_list(n for n in self.nodes if not any(n in e and p(e) and len(e) > 1 for e in E))
        if name in ("sizes", "orders", "sizedist", "maxsize", "maxorder", "isuniform"):
            sz = [len(e) for e in E]
            if name == "sizes":
                return r_list(sz)
            if name == "orders":
                return r_list(s - 1 for s in sz)
            if name == "sizedist":
                return r_pairs({s: sz.count(s) for s in sz})
            if name == "maxsize":
                return str(max(sz)) if sz else "rej"
            if name == "maxorder":
                return str(max(sz) - 1) if sz else "rej"
            return r_bool(len(set(sz)) <= 1)
        if name == "isweighted":
            return r_bool(self.w)
        if name == "nodemeta":
            return r_meta(self.nodes[q[1]]) if q[1] in self.nodes else "rej"
        if name == "edgemeta":
            return r_meta(self.edges[frozenset(q[1])][1]) if frozenset(q[1]) in self.edges else "rej"
        if name == "alledgesmeta":
            return r_xmetas({e: v[1] for e, v in E.items()}, r_edge)
        if name == "hmeta":
            return r_meta(self.hm)
        if name == "incmeta":
            k = (tuple(q[1]), q[2])
            return r_meta(self.inc[k]) if (frozenset(q[1]) in self.edges and k in self.inc) else "rej"
        if name == "allincmeta":
            return r_incs(self.inc)
        raise ValueError(name)

    def digest(self):
        return (self.w, sorted(self.nodes.items()), sorted((sorted(k), v[:2]) for k, v in self.edges.items()), sorted(self.hm.items()),
                sorted(self.inc.items()), sorted(self.empties.items()))


# ------------------------------------------------------------------------------------------------
# presentation: HOW the caller writes a call.  The abstract history fixes WHAT is called (ranks, tokens, quanta); the
# presentation picks, per call and deterministically from (case["pres"], step, text of the call), the label OBJECTS
# (a freshly constructed object equal to the label: int(str(x)), float(x), numpy scalars, bool for 0/1, re-joined strings,
# rebuilt tuples), the CONTAINER types of hyperedges / node lists / hyperedge lists / weight lists / metadata lists, and
# the calling style (optional arguments left out, given as None / False, given by position or by keyword).

class Mini:
    """tiny deterministic stream (cheap to seed: one per call, so that a replay asks every call the same way)"""
    M = (1 << 64) - 1

    def __init__(self, seed, text):
        self.s = ((zlib.crc32(text.encode()) << 21) ^ (int(seed) * 0x9E3779B97F4A7C15) ^ 0x5851F42D4C957F2D) & self.M
        self.random()
        self.random()

    def random(self):
        self.s = (self.s * 6364136223846793005 + 1442695040888963407) & self.M
        return (self.s >> 11) / 9007199254740992.0

    def randrange(self, n):
        return int(self.random() * n)

    def choice(self, xs):
        return xs[int(self.random() * len(xs))]


class Pres:
    def __init__(self, seed, step, text):
        self.plain = seed is None
        self.r = Mini(seed or 0, f"{step}|{text}")
        self.handed = []          # mutable containers built by the harness and handed to the call

    def give(self, x):
        self.handed.append(x)
        return x


def enc_label(x):
    """labels in a stored case (JSON): ints and strings as they are, floats by repr, tuples tagged"""
    if isinstance(x, tuple):
        return {"t": [enc_label(y) for y in x]}
    if isinstance(x, float):
        return {"f": repr(x)}
    return x


def dec_label(j):
    if isinstance(j, dict):
        if "f" in j:
            return float(j["f"])
        return tuple(dec_label(y) for y in j["t"])
    if isinstance(j, list):
        return tuple(dec_label(y) for y in j)
    return j


def fresh(x, r):
    """an object equal to x (same hash) that is constructed now - never the object stored in the hypergraph"""
    if isinstance(x, tuple):
        return tuple([fresh(y, r) for y in x])
    if isinstance(x, str):
        y = "".join(list(x))
        return np.str_(y) if r.random() < 0.06 else y
    if isinstance(x, bool):
        return x
    if isinstance(x, int):
        c = r.random()
        if c < 0.5:
            return int(str(x))
        if c < 0.72:
            try:
                f = float(x)
                if int(f) == x:
                    return f
            except OverflowError:
                pass
        elif c < 0.9:
            if abs(x) <= 2 ** 53:         # beyond, numpy compares an int64 with a float after rounding: not an equal object
                return np.int64(x)
        elif c < 0.96:
            if x in (0, 1):
                return bool(x)
        return int(str(x))
    if isinstance(x, float):
        # (numpy compares its float with a Python int after ROUNDING the int: next to integer labels beyond 2**53 a numpy
        # float is not an equal object any more - it equals several of them)
        return np.float64(x) if (r.random() < 0.25 and (abs(x) <= 2 ** 53 or x in (float("inf"), float("-inf")))) else float(repr(x))
    return x


def as_range(base):
    """range object listing exactly the int labels `base` in this order, or None"""
    if not all(type(x) is int for x in base):
        return None
    if len(base) == 0:
        return range(0)
    if len(base) == 1:
        return range(base[0], base[0] + 1)
    d = base[1] - base[0]
    if d == 0 or any(base[j + 1] - base[j] != d for j in range(len(base) - 1)):
        return None
    return range(base[0], base[-1] + (1 if d > 0 else -1), d)


def as_array(objs):
    """1-d numpy array whose elements are equal (and hash-equal) to the given labels, or None"""
    try:
        if any(isinstance(x, (int, float)) and abs(x) > 2 ** 53 for x in objs):
            return None
        with warnings.catch_warnings():
            warnings.simplefilter("ignore")
            a = np.array(list(objs))
        if a.ndim != 1 or a.dtype == object or len(a) != len(objs):
            return None
        for u, v in zip(a, objs):
            if not (u == v and hash(u) == hash(v)):
                return None
        return a
    except Exception:
        return None


def scribble(x, junk):
    """what a caller may do with a container that is HIS: empty it and put something else in"""
    try:
        if isinstance(x, list):
            x.clear()
            x.append(junk)
        elif isinstance(x, (set, collections.deque)):
            x.clear()
            (x.add if isinstance(x, set) else x.append)(junk)
        elif isinstance(x, dict):
            x.clear()
            x[junk] = junk
        elif isinstance(x, np.ndarray):
            if x.size:
                x[...] = x.flat[0]
                if x.dtype.kind in "iuf":
                    x += 977
    except Exception:
        pass


ONCE = ["tuple"] * 5 + ["list"] * 4 + ["set", "set", "frozenset", "frozenset", "range", "range", "np", "np", "iter", "iter", "gen", "gen",
                                        "dictkeys", "dict", "str", "deque"]
TWICE = [k for k in ONCE if k not in ("iter", "gen")]
OUTER = ["list"] * 5 + ["tuple"] * 3 + ["iter", "iter", "gen", "gen", "dictkeys", "set", "frozenset", "np", "deque"]
POS = {"edges": ("order", "size", "up_to"), "edgesmeta": ("order", "size", "up_to"), "numedges": ("order", "size", "up_to"),
       "weights": ("order", "size", "up_to"), "weightsdict": ("order", "size", "up_to"),
       "incident": ("order", "size"), "neighbors": ("order", "size"), "degree": ("order", "size"),
       "degreeseq": ("order", "size"), "degreedist": ("order", "size"),
       "isolated": ("size", "order"), "isisolated": ("size", "order")}        # positional parameter order of the METHODS


# ------------------------------------------------------------------------------------------------
# the real objects

class Real:
    """one history's label universe + the slots of real Hypergraph objects"""

    def __init__(self, labels, pres=None):
        from hypergraphx import Hypergraph
        self.H = Hypergraph
        self.labels = list(labels)                      # rank -> label
        self.rank = {x: i for i, x in enumerate(self.labels)}
        self.pres = pres
        self.held = []
        self.chars = all(isinstance(x, str) and len(x) == 1 for x in self.labels)
        flat = []
        for x in self.labels:
            flat += list(x) if isinstance(x, tuple) else [x]
        while any(isinstance(x, tuple) for x in flat):
            flat = [z for x in flat for z in (x if isinstance(x, tuple) else [x])]
        if all(isinstance(x, str) for x in self.labels):
            self.junk = "~not a label~"
        elif all(isinstance(x, tuple) for x in self.labels):
            self.junk = ("~",) if any(isinstance(x, str) for x in flat) else (987654321, 1)
        else:
            self.junk = 987654321
        with warnings.catch_warnings():
            warnings.simplefilter("ignore")
            self.slots = [Hypergraph() for _ in range(NSLOT)]

    def P(self, step, text):
        return Pres(self.pres, step, text)

    # conversions model space -> python
    def lab(self, n, P):
        return self.labels[n] if P.plain else fresh(self.labels[n], P.r)

    def edge(self, e, P, ctx="once", kind=None):
        """the hyperedge with the ranks e as a python object; ctx: once (iterated once by the callee) | twice"""
        objs = [self.lab(n, P) for n in e]
        if P.plain:
            return tuple(objs)
        kind = kind or P.r.choice(ONCE if ctx == "once" else TWICE)
        return self._container(kind, objs, [self.labels[n] for n in e], P)

    def _container(self, kind, objs, base, P):
        if kind == "list":
            return P.give(list(objs))
        if kind == "set":
            return P.give(set(objs))
        if kind == "frozenset":
            return frozenset(objs)
        if kind == "range":
            r = as_range(base)
            return r if r is not None else P.give(list(objs))
        if kind == "np":
            a = as_array(objs)
            return P.give(a) if a is not None else P.give(list(objs))
        if kind == "iter":
            return iter(list(objs))
        if kind == "gen":
            return (x for x in list(objs))
        if kind == "dictkeys":
            try:
                return dict.fromkeys(objs).keys()
            except TypeError:
                return tuple(objs)
        if kind == "dict":
            try:
                return P.give(dict.fromkeys(objs, "v"))
            except TypeError:
                return tuple(objs)
        if kind == "str":
            return "".join(base) if (self.chars and len(set(base)) == len(base)) else tuple(objs)
        if kind == "deque":
            return P.give(collections.deque(objs))
        return tuple(objs)

    def nodes(self, ns, P):
        """(container, ranks in the order the container lists them) for a node list"""
        objs = [self.lab(n, P) for n in ns]
        if P.plain:
            return objs, list(ns)
        kind = P.r.choice(ONCE)
        if kind in ("dictkeys", "dict", "str") and len(set(ns)) != len(ns):
            kind = "list"
        c = self._container(kind, objs, [self.labels[n] for n in ns], P)
        if isinstance(c, (set, frozenset)):
            return c, [self.rank[x] for x in c]
        return c, list(ns)

    def edges(self, es, P, hashable=False, ordered=False, oneshot=True, ctx="once"):
        """(container, rank tuples in the order the container lists them) for a list of hyperedges.
        hashable: the callee builds set(edge_list) - one hashable hyperedge type for the whole batch;
        ordered: weight / metadata lists are aligned with it"""
        if P.plain:
            return [self.edge(e, P) for e in es], list(es)
        r = P.r
        outer = r.choice(OUTER)
        if outer in ("iter", "gen") and not oneshot:
            outer = "list"
        if outer in ("set", "frozenset") and ordered:
            outer = "tuple"
        if outer == "np" and (hashable or not es or len({len(e) for e in es}) != 1 or len(es[0]) == 0):
            outer = "list"
        es = [tuple(e) for e in es]
        if hashable or outer in ("dictkeys", "set", "frozenset"):
            kind = r.choice(["tuple", "tuple", "frozenset", "range"])
            if kind == "range" and any(as_range([self.labels[n] for n in e]) is None for e in es):
                kind = "tuple"
            if kind == "frozenset" and hashable:
                es = [tuple(sorted(e)) for e in es]      # a frozenset has no node order: the call is the call with sorted tuples
            items = [self.edge(e, P, kind=kind) for e in es]
        elif outer == "np":
            rows = [[self.lab(n, P) for n in e] for e in es]
            try:
                if any(isinstance(x, (int, float)) and abs(x) > 2 ** 53 for row in rows for x in row):
                    raise ValueError
                with warnings.catch_warnings():
                    warnings.simplefilter("ignore")
                    a = np.array(rows)
                ok = a.ndim == 2 and a.dtype != object and all(
                    u == v and hash(u) == hash(v) for ra, rb in zip(a, rows) for u, v in zip(ra, rb))
            except Exception:
                ok = False
            if ok:
                return P.give(a), es
            outer, items = "list", [tuple(row) for row in rows]
        else:
            items = [self.edge(e, P, ctx=ctx) for e in es]
        if outer == "list":
            return P.give(list(items)), es
        if outer == "tuple":
            return tuple(items), es
        if outer == "iter":
            return iter(list(items)), es
        if outer == "gen":
            return (x for x in list(items)), es
        if outer == "deque":
            return P.give(collections.deque(items)), es
        if outer == "dictkeys":
            d = {}
            back = {}
            for it, e in zip(items, es):
                if it not in d:
                    d[it] = None
                    back[len(back)] = e
            # with aligned lists a collapsed repetition would shift them: keep the list form then
            if ordered and len(d) != len(items):
                return P.give(list(items)), es
            return d.keys(), [back[j] for j in range(len(back))]
        # set / frozenset of hashable hyperedges: the order is the container's
        of = {}
        for it, e in zip(items, es):
            of.setdefault(it, e)
        c = set(items) if outer == "set" else frozenset(items)
        if outer == "set":
            P.give(c)
        return c, [of[it] for it in c]

    @staticmethod
    def md(m):
        return None if m is None else {KEYS[k]: copy.deepcopy(VALS[v]) for k, v in m.items()}

    @staticmethod
    def wt(t, flip=0, P=None):
        """the weight object of a token: its TYPE is part of the abstract call (Python's + depends on it), not of the presentation"""
        return mkw(t, flip)

    def wlist(self, ws, P):
        vals = [self.wt(w, j, P) for j, w in enumerate(ws)]
        if P.plain:
            return vals
        kinds = {wkind(w, j) for j, w in enumerate(ws)}
        k = P.r.choice(["list", "list", "list", "tuple", "tuple", "np", "np", "deque", "series", "npobj"])     # the code indexes it: sequences
        if k == "npobj" and vals:
            a = np.empty(len(vals), dtype=object)
            a[:] = vals
            return P.give(a)
        if k == "tuple":
            return tuple(vals)
        if k == "np" and vals:
            # an array has ONE element type: only where that is the type the caller's numbers have anyway (a caller who
            # puts 2**53 + 1 and 0.5 into one float array has rounded the integer himself)
            dt = (np.float64 if kinds <= {"f", "F"} else np.int64 if kinds == {"I"} else np.float32 if kinds == {"h"}
                  else np.int32 if kinds == {"j"} else None)
            try:
                a = np.array(vals, dtype=dt) if dt is not None else None
                if a is not None and all(exactq(u) == exactq(v) for u, v in zip(a, vals)):
                    return P.give(a)
            except Exception:
                pass
            return P.give(vals)
        if k == "series" and vals:
            try:
                import pandas as pd
                return pd.Series(vals, dtype=np.float64 if kinds <= {"f", "F"} else object)
            except Exception:
                return P.give(vals)
        if k == "deque":
            return P.give(collections.deque(vals))
        return P.give(vals)

    def mdlist(self, mds, P):
        vals = [self.md(m) for m in mds]
        if P.plain:
            return vals
        k = P.r.choice(["list", "list", "list", "tuple", "tuple", "deque"])
        if k == "tuple":
            return tuple(vals)
        if k == "deque":
            return P.give(collections.deque(vals))
        return P.give(vals)

    # conversions python -> model space (anything unexpected becomes a marker that cannot match)
    def rk(self, x):
        try:
            return self.rank.get(x, f"?{x!r}")
        except TypeError:
            return f"?{x!r}"

    def redge(self, e):
        try:
            return tuple(sorted(self.rk(x) for x in e))
        except TypeError:
            try:
                return ("?unsortable",) + tuple(str(self.rk(x)) for x in e)
            except TypeError:
                return (f"?{e!r}",)

    @staticmethod
    def rmd(m):
        if not isinstance(m, dict):
            return {"?": repr(m)}
        out = {}
        for k, v in m.items():
            kt = KEYS.index(k) if k in KEYS else f"?{k!r}"
            vt = next((i for i, x in enumerate(VALS) if type(x) is type(v) and x == v), f"?{v!r}")
            out[kt] = vt
        return out

    @staticmethod
    def rw(w):
        q = exactq(w)
        return int(q) if (q is not None and q.denominator == 1) else f"?{w!r}"

    # commands -------------------------------------------------------------------------------
    def prepare(self, i, c, P):
        """(operation as the containers list it, thunk that performs the call on slot i).
        The operation changes only where a container has no order of its own (set of nodes, set of hyperedges,
        frozenset hyperedges in a weighted batch): then the call IS the call in the container's order."""
        h = self.slots[i]
        r = P.r
        v = 0 if P.plain else r.randrange(4)
        op = c[0]
        if op == "addnode":
            n = self.lab(c[1], P)
            if c[2] is None:
                return c, [lambda: h.add_node(n), lambda: h.add_node(n, None), lambda: h.add_node(n, metadata=None),
                           lambda: h.add_node(node=n)][v]
            m = self.md(c[2])
            return c, [lambda: h.add_node(n, metadata=m), lambda: h.add_node(n, m), lambda: h.add_node(node=n, metadata=m),
                       lambda: h.add_node(metadata=m, node=n)][v]
        if op == "addnodes":
            ns, order = self.nodes(c[1], P)
            c = ("addnodes", order, c[2])
            if c[2] is None:
                return c, [lambda: h.add_nodes(ns), lambda: h.add_nodes(ns, None), lambda: h.add_nodes(node_list=ns),
                           lambda: h.add_nodes(ns, metadata=None)][v]
            m = {self.lab(n, P): self.md(x) for n, x in c[2].items()}
            if not P.plain:
                P.give(m)
            return c, [lambda: h.add_nodes(ns, metadata=m), lambda: h.add_nodes(ns, m),
                       lambda: h.add_nodes(node_list=ns, metadata=m), lambda: h.add_nodes(ns, metadata=m)][v]
        if op == "addedge":
            e = self.edge(c[1], P)
            w = self.wt(c[2], len(c[1]), P)
            m = self.md(c[3])
            if P.plain or v == 0:
                kw = {}
                if w is not None:
                    kw["weight"] = w
                if m is not None:
                    kw["metadata"] = m
                return c, lambda: h.add_edge(e, **kw)
            if v == 1:
                return c, lambda: h.add_edge(e, w, m)
            if v == 2:
                return c, lambda: h.add_edge(edge=e, weight=w, metadata=m)
            return c, (lambda: h.add_edge(e, w)) if m is None else (lambda: h.add_edge(e, w, metadata=m))
        if op == "addedges":
            es, order = self.edges(c[1], P, hashable=c[2] is not None, ordered=c[2] is not None or c[3] is not None)
            c = ("addedges", order, c[2], c[3])
            ws = None if c[2] is None else self.wlist(c[2], P)
            ms = None if c[3] is None else self.mdlist(c[3], P)
            if P.plain or v == 0:
                kw = {}
                if ws is not None:
                    kw["weights"] = ws
                if ms is not None:
                    kw["metadata"] = ms
                return c, lambda: h.add_edges(es, **kw)
            if v == 1:
                return c, lambda: h.add_edges(es, ws, ms)
            if v == 2:
                return c, lambda: h.add_edges(edge_list=es, weights=ws, metadata=ms)
            return c, lambda: h.add_edges(es, ws, metadata=ms)
        if op in ("rmedges*", "rmnodes*", "addedges*"):
            # the argument is a container the LIBRARY made: the listing of this / of the other hypergraph, handed back as it is
            with warnings.catch_warnings():
                warnings.simplefilter("ignore")
                if op == "rmedges*":
                    o, k, up = c[1]
                    kw = {}
                    if o is not None:
                        kw["order"] = o
                    if k is not None:
                        kw["size"] = k
                    if up:
                        kw["up_to"] = True
                    lst = h.get_edges(**kw)
                    c2 = ("rmedges", [self.redge(e) for e in lst])
                    thunk = (lambda: h.remove_edges(lst)) if v < 3 else (lambda: h.remove_edges(edge_list=lst))
                elif op == "rmnodes*":
                    lst = h.get_nodes()
                    keep = bool(c[1])
                    c2 = ("rmnodes", [self.rk(x) for x in lst], c[1])
                    thunk = (lambda: h.remove_nodes(lst, keep_edges=keep)) if v < 2 else (lambda: h.remove_nodes(lst, keep))
                else:
                    g = self.slots[c[1]]
                    lst = g.get_edges()
                    ws = g.get_weights() if g.is_weighted() else None
                    toks = None if ws is None else [wtoken_of(w) for w in ws]
                    c2 = ("addedges", [self.redge(e) for e in lst], toks, None)
                    if ws is not None:
                        P.give(ws)
                    thunk = (lambda: h.add_edges(lst)) if ws is None else \
                        ((lambda: h.add_edges(lst, ws)) if v < 2 else (lambda: h.add_edges(lst, weights=ws)))
            if isinstance(lst, list):
                P.give(lst)
            flat = [x for e in c2[1] for x in (e if isinstance(e, tuple) else (e,))]
            if any(not isinstance(x, int) for x in flat) or (op == "addedges*" and c2[2] is not None and None in c2[2]):
                raise ValueError(f"a listing holds something no call of the history put in: {c2!r}")
            return c2, thunk
        if op == "rmedge":
            e = self.edge(c[1], P)
            return c, (lambda: h.remove_edge(e)) if v < 3 else (lambda: h.remove_edge(edge=e))
        if op == "rmedges":
            es, order = self.edges(c[1], P, ctx="twice")
            c = ("rmedges", order)
            return c, (lambda: h.remove_edges(es)) if v < 3 else (lambda: h.remove_edges(edge_list=es))
        if op == "rmnode":
            n = self.lab(c[1], P)
            keep = bool(c[2])
            if keep:
                return c, [lambda: h.remove_node(n, keep_edges=True), lambda: h.remove_node(n, True),
                           lambda: h.remove_node(node=n, keep_edges=True), lambda: h.remove_node(n, keep_edges=True)][v]
            return c, [lambda: h.remove_node(n), lambda: h.remove_node(n, False), lambda: h.remove_node(n, keep_edges=False),
                       lambda: h.remove_node(node=n)][v]
        if op == "rmnodes":
            ns, order = self.nodes(c[1], P)
            keep = bool(c[2])
            c = ("rmnodes", order, c[2])
            if P.plain:
                return c, lambda: h.remove_nodes(ns, keep_edges=keep)
            if not keep and v == 0:
                return c, lambda: h.remove_nodes(ns)
            return c, [lambda: h.remove_nodes(ns, keep_edges=keep), lambda: h.remove_nodes(ns, keep),
                       lambda: h.remove_nodes(node_list=ns, keep_edges=keep), lambda: h.remove_nodes(ns, keep_edges=keep)][v]
        if op == "setw":
            e = self.edge(c[1], P)
            w = self.wt(c[2], len(c[1]), P)
            return c, (lambda: h.set_weight(e, w)) if v < 3 else (lambda: h.set_weight(edge=e, weight=w))
        if op == "setnmeta":
            n, m = self.lab(c[1], P), self.md(c[2])
            return c, (lambda: h.set_node_metadata(n, m)) if v < 3 else (lambda: h.set_node_metadata(node=n, metadata=m))
        if op == "setemeta":
            e, m = self.edge(c[1], P), self.md(c[2])
            return c, (lambda: h.set_edge_metadata(e, m)) if v < 3 else (lambda: h.set_edge_metadata(edge=e, metadata=m))
        if op == "sethmeta":
            m = self.md(c[1])
            return c, lambda: h.set_hypergraph_metadata(m)
        if op == "attrh":
            k, x = KEYS[c[1]], copy.deepcopy(VALS[c[2]])
            return c, lambda: h.set_attr_to_hypergraph_metadata(k, x)
        if op == "attrn":
            n, k, x = self.lab(c[1], P), KEYS[c[2]], copy.deepcopy(VALS[c[3]])
            return c, (lambda: h.set_attr_to_node_metadata(n, k, x)) if v < 3 else \
                (lambda: h.set_attr_to_node_metadata(node=n, field=k, value=x))
        if op == "attre":
            e, k, x = self.edge(c[1], P), KEYS[c[2]], copy.deepcopy(VALS[c[3]])
            return c, (lambda: h.set_attr_to_edge_metadata(e, k, x)) if v < 3 else \
                (lambda: h.set_attr_to_edge_metadata(edge=e, field=k, value=x))
        if op == "delattrn":
            n, k = self.lab(c[1], P), KEYS[c[2]]
            return c, lambda: h.remove_attr_from_node_metadata(n, k)
        if op == "delattre":
            e, k = self.edge(c[1], P), KEYS[c[2]]
            return c, lambda: h.remove_attr_from_edge_metadata(e, k)
        if op == "clear":
            return c, lambda: h.clear()
        if op == "setinc":
            # the table is keyed by the hyperedge AS WRITTEN (a tuple: it must be hashable) and the node
            e, n, m = tuple(self.lab(x, P) for x in c[1]), self.lab(c[2], P), self.md(c[3])
            return c, (lambda: h.set_incidence_metadata(e, n, m)) if v < 3 else \
                (lambda: h.set_incidence_metadata(edge=e, node=n, metadata=m))
        if op == "addempty":
            name, m = copy.deepcopy(ENAMES[c[1]]), self.md(c[2])
            return c, (lambda: h.add_empty_edge(name, m)) if v < 3 else (lambda: h.add_empty_edge(name=name, metadata=m))
        raise ValueError(op)

    def call(self, thunk, P):
        """run a prepared call; True = returned, False = raised.  Afterwards the caller re-uses HIS containers."""
        try:
            with warnings.catch_warnings():
                warnings.simplefilter("ignore")
                thunk()
            ok = True
        except AlarmTimeout:
            raise
        except Exception:
            ok = False
        for x in P.handed:
            scribble(x, self.junk)
        return ok

    def do(self, i, c, P=None):
        P = P or Pres(None, 0, "")
        c2, thunk = self.prepare(i, c, P)
        return self.call(thunk, P)

    def new(self, i, weighted, hm, P=None):
        P = P or Pres(None, 0, "")
        v = 0 if P.plain else P.r.randrange(4)
        H = self.H
        m = self.md(hm) if hm else None
        try:
            with warnings.catch_warnings():
                warnings.simplefilter("ignore")
                if not (hm or weighted) and v < 2:
                    self.slots[i] = H()
                elif v == 0:
                    self.slots[i] = H(weighted=weighted, hypergraph_metadata=m)
                elif v == 1:
                    self.slots[i] = H(None, weighted, None, m)
                elif v == 2:
                    self.slots[i] = H(edge_list=None, weighted=weighted, weights=None, hypergraph_metadata=m,
                                      node_metadata=None, edge_metadata=None)
                else:
                    self.slots[i] = H(hypergraph_metadata=m, weighted=weighted) if m is not None else H(weighted=weighted)
            return True
        except AlarmTimeout:
            raise
        except Exception:
            return False

    def prepare_ctor(self, c, P):
        """Hypergraph(edge_list=..., weighted=..., weights=..., hypergraph_metadata=..., node_metadata=..., edge_metadata=...)"""
        _, i, weighted, hm, nmeta, es, ws, mds = c
        H = self.H
        order = es
        el = None
        if es is not None:
            # the constructor tests `if edge_list:` and, for a weighted one with weights, len(edge_list): sized containers there
            el, order = self.edges(es, P, hashable=ws is not None, ordered=ws is not None or mds is not None,
                                   oneshot=bool(es) and not (weighted and ws is not None))   # (an empty iterator is true)
            if isinstance(el, np.ndarray):      # `if edge_list:` on an array raises: not a container the constructor takes
                el = [self.edge(e, P, kind="tuple") for e in order]
        wl = None if ws is None else self.wlist(ws, P)
        ml = None if mds is None else self.mdlist(mds, P)
        m = self.md(hm) if hm else None
        nm = None if nmeta is None else {self.lab(n, P): self.md(x) for n, x in nmeta.items()}
        if nm is not None and not P.plain:
            P.give(nm)
        c2 = ("ctor", i, weighted, hm, nmeta, order, ws, mds)
        v = 0 if P.plain else P.r.randrange(3)

        def thunk():
            if v == 0:
                h = H(edge_list=el, weighted=weighted, weights=wl, hypergraph_metadata=m, node_metadata=nm, edge_metadata=ml)
            elif v == 1:
                h = H(el, weighted, wl, m, nm, ml)
            else:
                kw = {}
                for k, x in (("edge_list", el), ("weights", wl), ("hypergraph_metadata", m), ("node_metadata", nm),
                             ("edge_metadata", ml)):
                    if x is not None:
                        kw[k] = x
                if weighted:
                    kw["weighted"] = True
                h = H(**kw)
            self.slots[i] = h
        return c2, thunk

    def copy(self, i, j, how="copy"):
        """slot j := an object that another part of the library / of Python makes from slot i and that must hold the same
        abstract hypergraph: copy(), copy.deepcopy, a pickle round trip, save_hypergraph(binary=True) + load_hypergraph,
        populate_from_dict of the (deep-copied) exposed data structures"""
        try:
            h = self.slots[i]
            with warnings.catch_warnings():
                warnings.simplefilter("ignore")
                if how == "copy":
                    g = h.copy()
                elif how == "deepcopy":
                    g = copy.deepcopy(h)
                elif how == "pickle":
                    import pickle
                    g = pickle.loads(pickle.dumps(h))
                elif how == "hgx":
                    import os
                    import tempfile
                    from hypergraphx.readwrite.load import load_hypergraph
                    from hypergraphx.readwrite.save import save_hypergraph
                    with tempfile.TemporaryDirectory() as d:
                        f = os.path.join(d, "h.hgx")
                        save_hypergraph(h, f, binary=True)
                        g = load_hypergraph(f)
                elif how == "expose":
                    g = self.H()
                    g.populate_from_dict(copy.deepcopy(h.expose_data_structures()))
                else:
                    raise ValueError(how)
            if not isinstance(g, self.H):
                return False
            self.slots[j] = g
            return True
        except AlarmTimeout:
            raise
        except Exception:
            return False

    def derive(self, i, how, arg, P, j=None):
        """slot j (default i) := a Hypergraph that another part of the library makes from slot i (or from nothing): the
        starting point of the rest of the history.  Returns None or the text of what went wrong.
        With j != i the source stays under observation; the subhypergraph routines hand the source's metadata
        dictionaries on by reference (by design, see ASSUMPTIONS), so the caller first gives the new object dictionaries of
        its own through the public setters - anything else the two objects share is the library's."""
        h = self.slots[i]
        j = i if j is None else j
        try:
            with warnings.catch_warnings():
                warnings.simplefilter("ignore")
                if how in ("sub", "sub!"):
                    ns = [self.lab(n, P) for n in arg]
                    g = h.subhypergraph(ns if P.r.random() < 0.6 else tuple(ns))
                elif how == "suborders":
                    orders, sizes, keep = arg
                    kw = {}
                    if orders is not None:
                        kw["orders"] = list(orders)
                    if sizes is not None:
                        kw["sizes"] = list(sizes)
                    if not keep or P.r.random() < 0.5:
                        kw["keep_nodes"] = bool(keep)
                    g = h.subhypergraph_by_orders(**kw)
                elif how == "sublcc":
                    g = h.subhypergraph_largest_component()
                elif how == "edgesub":
                    o, k, up, iso = arg
                    kw = {"subhypergraph": True}
                    if o is not None:
                        kw["order"] = o
                    if k is not None:
                        kw["size"] = k
                    if up:
                        kw["up_to"] = True
                    if iso:
                        kw["keep_isolated_nodes"] = True
                    g = h.get_edges(**kw)
                elif how == "filter":
                    from hypergraphx.filters.metadata_filters import filter_hypergraph
                    nc, ec, mode, keep = arg
                    cv = lambda c: None if c is None else {KEYS[int(k)]: [copy.deepcopy(VALS[v]) for v in vs] for k, vs in c.items()}
                    filter_hypergraph(h, node_criteria=cv(nc), edge_criteria=cv(ec), mode=mode, keep_edges=bool(keep))
                    g = h
                elif how == "addrand":
                    from hypergraphx.generation.random import add_random_edge, add_random_edges
                    size, inplace, seed, count = arg
                    if count is None:
                        g = add_random_edge(h, size=size, inplace=bool(inplace), seed=seed)
                    else:
                        g = add_random_edges(h, count, order=size - 1, inplace=bool(inplace), seed=seed)
                    if inplace:
                        g = h
                elif how == "random":
                    from hypergraphx.generation.random import random_hypergraph, random_uniform_hypergraph
                    n, by_size, seed = arg
                    by_size = {int(k): v for k, v in by_size.items()}
                    if len(by_size) == 1 and P.r.random() < 0.4:
                        (k, v), = by_size.items()
                        g = random_uniform_hypergraph(n, k, v, seed)
                    else:
                        g = random_hypergraph(n, by_size, seed=seed)
                else:
                    raise ValueError(how)
            if not isinstance(g, self.H):
                return f"returned a {type(g).__name__}, not a Hypergraph"
            if j != i:
                if g is h:
                    return "returned the hypergraph itself"
                with warnings.catch_warnings():
                    warnings.simplefilter("ignore")
                    for x in g.get_nodes():
                        g.set_node_metadata(x, copy.deepcopy(g.get_node_metadata(x)))
                    for e in g.get_edges():
                        g.set_edge_metadata(e, copy.deepcopy(g.get_edge_metadata(e)))
            self.slots[j] = g
            return None
        except AlarmTimeout:
            raise
        except Exception as ex:
            return f"raised {type(ex).__name__}: {ex}"

    def readout(self, i):
        """the abstract hypergraph an object holds, read through the public getters:
        (weighted, hypergraph metadata, {node: metadata}, [(hyperedge, quanta, metadata, weight object)]) in rank / token space"""
        h = self.slots[i]
        with warnings.catch_warnings():
            warnings.simplefilter("ignore")
            w = bool(h.is_weighted())
            hm = self.rmd(h.get_hypergraph_metadata())
            nodes = {self.rk(n): self.rmd(m) for n, m in h.get_nodes(metadata=True).items()}
            edges = []
            for e, m in h.get_edges(metadata=True).items():
                pv = h.get_weight(e)
                edges.append((self.redge(e), self.rw(pv), self.rmd(m), pv))
        bad = [x for x in nodes if not isinstance(x, int)] + [x for e in edges for x in e[0] if not isinstance(x, int)]
        if bad:
            raise ValueError(f"it holds labels that no call of the history named: {bad[:3]}")
        for d in [hm] + list(nodes.values()) + [e[2] for e in edges]:
            for k, v in d.items():
                if not isinstance(k, int) or not isinstance(v, int):
                    raise ValueError(f"it holds metadata that no call of the history gave: {k!r}: {v!r}")
        for e in edges:
            if not isinstance(e[1], int):
                raise ValueError(f"it holds the weight {e[1]} for the hyperedge {e[0]}")
        return w, hm, nodes, edges

    def observe(self, h):
        """the observable content of an object in rank / token space (for implementation-vs-implementation comparisons)"""
        with warnings.catch_warnings():
            warnings.simplefilter("ignore")
            nodes = {str(self.rk(n)): self.rmd(m) for n, m in h.get_nodes(metadata=True).items()}
            edges = {r_edge(self.redge(e)): (self.rw(h.get_weight(e)), self.rmd(m)) for e, m in h.get_edges(metadata=True).items()}
            inc = {str(self.rk(n)): sorted(r_edge(self.redge(e)) for e in h.get_incident_edges(n)) for n in h.get_nodes()}
            return {"weighted": bool(h.is_weighted()), "nodes": nodes, "edges": edges, "incident": inc,
                    "hmeta": self.rmd(h.get_hypergraph_metadata()), "num_edges": h.num_edges(), "len": len(h),
                    "weights": sorted(map(str, (self.rw(x) for x in h.get_weights())))}

    def one_by_one(self, twin, op, P):
        """the members of a batched call, one call each, on `twin`"""
        with warnings.catch_warnings():
            warnings.simplefilter("ignore")
            if op[0] == "addnodes":
                for n in op[1]:
                    twin.add_node(self.lab(n, P), None if op[2] is None else self.md(op[2][n]))
            elif op[0] == "addedges":
                es, ws, mds = op[1], op[2], op[3]
                if ws is not None and not twin.is_weighted():
                    twin.add_edges([], weights=[])          # the batch with weights switches the hypergraph to weighted
                for j, e in enumerate(es):
                    kw = {}
                    if ws is not None:
                        kw["weight"] = self.wt(ws[j], j)
                    if mds is not None:
                        kw["metadata"] = self.md(mds[j])
                    twin.add_edge(self.edge(e, P, kind="tuple"), **kw)
            elif op[0] == "rmedges":
                for e in op[1]:
                    twin.remove_edge(self.edge(e, P, kind="tuple"))
            elif op[0] == "rmnodes":
                for n in op[1]:
                    twin.remove_node(self.lab(n, P), keep_edges=bool(op[2]))
            else:
                raise ValueError(op[0])

    def ctor_one_by_one(self, c, P):
        """the constructor call written as single calls on an empty hypergraph"""
        _, i, weighted, hm, nmeta, es, ws, mds = c
        with warnings.catch_warnings():
            warnings.simplefilter("ignore")
            t = self.H(weighted=weighted, hypergraph_metadata=self.md(hm) if hm else None)
            for n, m in (nmeta or {}).items():
                t.add_node(self.lab(n, P), self.md(m))
            if es:
                self.one_by_one(t, ("addedges", es, ws, mds), P)
        return t

    # queries --------------------------------------------------------------------------------
    @staticmethod
    def _fargs(name, f, P, with_upto=True):
        """(positional, keyword) arguments for the filter f = (order, size, up_to) of query `name`"""
        o, k, up = f[0], f[1], bool(f[2]) if with_upto else False
        if not P.plain and P.r.random() < 0.1:
            o = None if o is None else np.int64(o)
            k = None if k is None else np.int64(k)
        v = 0 if P.plain else P.r.randrange(4)
        if v <= 1:                  # only what is set, by keyword
            kw = {}
            if o is not None:
                kw["order"] = o
            if k is not None:
                kw["size"] = k
            if with_upto and (up or v == 1):
                kw["up_to"] = up
            return (), kw
        if v == 2:                  # everything, by keyword
            kw = {"order": o, "size": k}
            if with_upto:
                kw["up_to"] = up
            return (), kw
        d = {"order": o, "size": k, "up_to": up}      # everything, by position
        return tuple(d[p] for p in POS[name]), {}

    def ask(self, i, q, P=None):
        try:
            return self._ask(self.slots[i], q, P or Pres(None, 0, ""))
        except AlarmTimeout:
            raise
        except Exception:
            return "rej"

    def _mine(self, P, res, render, hold=True):
        """the answer is rendered from the returned container `res`; then the caller uses `res` as HIS object: mostly he
        overwrites it at once, sometimes he keeps it across the next mutating call (it must not change) and overwrites it then"""
        s = render(res)
        if hold and not P.plain and len(self.held) < 6 and P.r.random() < 0.04:   # (metadata dicts are shared by design)
            self.held.append((res, render, s))
        else:
            scribble(res, self.junk)
        return s

    def check_held(self):
        """None, or what is wrong with an answer that the caller kept while the hypergraph was mutated"""
        bad = None
        for res, render, s in self.held:
            try:
                s2 = render(res)
            except AlarmTimeout:
                raise
            except Exception as ex:
                s2 = f"exc {type(ex).__name__}"
            if s2 != s and bad is None:
                bad = f"an answer {s!r} (a {type(res).__name__}) kept by the caller reads {s2!r} after the next mutating call"
            scribble(res, self.junk)
        self.held = []
        return bad

    def _ask(self, h, q, P):
        from hypergraphx.measures.degree import degree, degree_sequence, degree_distribution
        from hypergraphx.utils.cc import isolated_nodes, is_isolated
        name = q[0]
        v = 0 if P.plain else P.r.randrange(3)
        if name == "nodes":
            res = [h.get_nodes, lambda: h.get_nodes(False), lambda: h.get_nodes(metadata=False)][v]()
            return self._mine(P, res, lambda res: r_list(self.rk(x) for x in res))
        if name == "nodesmeta":
            res = h.get_nodes(metadata=True) if v else h.get_nodes(True)
            return self._mine(P, res, lambda res: r_xmetas({self.rk(n): self.rmd(m) for n, m in res.items()}, str), hold=False)
        if name == "checknode":
            n = self.lab(q[1], P)
            return r_bool(h.check_node(n) if v else h.check_node(node=n))
        if name == "numnodes":
            return str(h.num_nodes())
        if name in ("edges", "edgesmeta"):
            a, kw = self._fargs(name, q[1], P)
            md = name == "edgesmeta"
            if a:
                res = h.get_edges(*a, False, False, True) if md else (h.get_edges(*a) if v else h.get_edges(*a, False, False, False))
            else:
                if md:
                    kw["metadata"] = True
                elif v == 2:
                    kw["metadata"] = False
                if v == 1:
                    kw["subhypergraph"] = False
                res = h.get_edges(**kw)
            if md:
                return self._mine(P, res, lambda res: r_xmetas({self.redge(e): self.rmd(m) for e, m in res.items()}, r_edge), hold=False)
            return self._mine(P, res, lambda res: r_edges(self.redge(e) for e in res))
        if name == "numedges":
            a, kw = self._fargs(name, q[1], P)
            return str(h.num_edges(*a, **kw))
        if name == "len":
            return str(len(h))
        if name == "iter":
            items = list(iter(h))
            ids = [b for _, b in items]
            if len(set(ids)) != len(ids):
                return "?edge ids not distinct"
            return r_edges(self.redge(e) for e, _ in items)
        if name == "checkedge":
            e = self.edge(q[1], P)
            return r_bool(h.check_edge(e) if v else h.check_edge(edge=e))
        if name == "weight":
            e = self.edge(q[1], P)
            return str(self.rw(h.get_weight(e) if v else h.get_weight(edge=e)))
        if name in ("weights", "weightsdict"):
            a, kw = self._fargs(name, q[1], P)
            asd = name == "weightsdict"
            if a:
                res = h.get_weights(*a, asd) if (asd or v) else h.get_weights(*a)
            else:
                if asd:
                    kw["asdict"] = True
                elif v == 2:
                    kw["asdict"] = False
                res = h.get_weights(**kw)
            if asd:
                return self._mine(P, res, lambda res: r_ews({self.redge(e): self.rw(w) for e, w in res.items()}))
            return self._mine(P, res, lambda res: r_list(self.rw(w) for w in res))
        if name == "incident":
            a, kw = self._fargs(name, q[2], P, False)
            res = h.get_incident_edges(self.lab(q[1], P), *a, **kw)
            return self._mine(P, res, lambda res: r_edges(self.redge(e) for e in res))
        if name == "neighbors":
            a, kw = self._fargs(name, q[2], P, False)
            res = h.get_neighbors(self.lab(q[1], P), *a, **kw)
            return self._mine(P, res, lambda res: r_list(self.rk(x) for x in res))
        if name == "degree":
            a, kw = self._fargs(name, q[2], P, False)
            x = degree(h, self.lab(q[1], P), *a, **kw)
            y = h.degree(self.lab(q[1], P), *a, **kw)
            return str(x) if x == y else f"?degree {x} vs method {y}"
        if name == "degreeseq":
            a, kw = self._fargs(name, q[1], P, False)
            x = degree_sequence(h, *a, **kw)
            y = h.degree_sequence(*a, **kw)
            s = r_pairs({self.rk(n): d for n, d in x.items()}) if x == y else "?degree_sequence differs from method"
            self._mine(P, x, lambda _: s)
            return self._mine(P, y, lambda _: s)
        if name == "degreedist":
            a, kw = self._fargs(name, q[1], P, False)
            x = degree_distribution(h, *a, **kw)
            y = h.degree_distribution(*a, **kw)
            s = r_pairs(x) if x == y else "?degree_distribution differs from method"
            self._mine(P, x, lambda _: s)
            return self._mine(P, y, lambda _: s)
        if name == "sizes":
            res = h.get_sizes()
            return self._mine(P, res, lambda res: r_list(res))
        if name == "orders":
            res = h.get_orders()
            return self._mine(P, res, lambda res: r_list(res))
        if name == "sizedist":
            res = h.distribution_sizes()
            return self._mine(P, res, lambda res: r_pairs(res))
        if name == "maxsize":
            return str(h.max_size())
        if name == "maxorder":
            return str(h.max_order())
        if name == "isuniform":
            return r_bool(h.is_uniform())
        if name == "isweighted":
            return r_bool(h.is_weighted())
        if name == "nodemeta":
            n = self.lab(q[1], P)
            return r_meta(self.rmd(h.get_node_metadata(n) if v else h.get_node_metadata(node=n)))
        if name == "edgemeta":
            e = self.edge(q[1], P)
            return r_meta(self.rmd(h.get_edge_metadata(e) if v else h.get_edge_metadata(edge=e)))
        if name == "allnodesmeta":
            return r_xmetas({self.rk(n): self.rmd(m) for n, m in h.get_all_nodes_metadata().items()}, str)
        if name == "alledgesmeta":
            # the table is keyed by edge id; ids are public through __iter__: join them
            tab = h.get_all_edges_metadata()
            items = list(iter(h))
            if sorted(tab, key=repr) != sorted((b for _, b in items), key=repr):
                return "?edge metadata table keys differ from the ids of __iter__"
            return r_xmetas({self.redge(e): self.rmd(tab[b]) for e, b in items}, r_edge)
        if name == "hmeta":
            return r_meta(self.rmd(h.get_hypergraph_metadata()))
        if name == "incmeta":
            e, n = tuple(self.lab(x, P) for x in q[1]), self.lab(q[2], P)
            return r_meta(self.rmd(h.get_incidence_metadata(e, n) if v else h.get_incidence_metadata(edge=e, node=n)))
        if name == "allincmeta":
            res = h.get_all_incidences_metadata()
            return self._mine(P, res, lambda res: r_incs({(tuple(self.rk(x) for x in k[0]), self.rk(k[1])): self.rmd(m)
                                                          for k, m in res.items()}), hold=False)
        if name == "isolated":
            a, kw = self._fargs(name, q[1], P, False)
            if v == 0 and not a:
                res = isolated_nodes(h, **kw)           # the function of utils/cc.py
            else:
                res = h.isolated_nodes(*a, **kw)
            return self._mine(P, res, lambda res: r_list(self.rk(x) for x in res))
        if name == "isisolated":
            a, kw = self._fargs(name, q[2], P, False)
            n = self.lab(q[1], P)
            if v == 0 and not a:
                return r_bool(is_isolated(h, n, **kw))
            return r_bool(h.is_isolated(n, *a, **kw))
        raise ValueError(name)

    def xobs(self, i, sp, probe):
        """second extension: (model line, implementation's answer, abstract hypergraph's answer | None) for the hashing view,
        get_mapping (plain int / str universes: what numpy sorts like Python), the raw tables read id-free, the table route"""
        h = self.slots[i]
        out = []
        try:
            v = h.expose_attributes_for_hashing()
            r = "|".join([r_bool(v["weighted"]) if v.get("type") == "Hypergraph" and isinstance(v["weighted"], bool) else "?",
                          r_smeta(self.rmd(v["hypergraph_metadata"]), "-"),
                          ";".join(f"{r_edge([self.rk(x) for x in e['nodes']])}={self.rw(e['weight'])}={r_smeta(self.rmd(e['metadata']))}"
                                   for e in v["edges"]) or "-",
                          ";".join(f"{self.rk(d['node'])}={r_smeta(self.rmd(d['metadata']))}" for d in v["nodes"]) or "-"])
        except AlarmTimeout:
            raise
        except Exception as ex:
            r = "rej"
        out.append((f"x {i} hashing", r, spec_hashing(sp)))
        plain = (all(type(x) is int and abs(x) < 2 ** 53 for x in self.labels) or all(type(x) is str for x in self.labels))
        if plain:
            try:
                with warnings.catch_warnings():
                    warnings.simplefilter("ignore")
                    enc = h.get_mapping()
                    r = r_list(self.rk(x.item() if hasattr(x, "item") else x) for x in enc.classes_)
            except AlarmTimeout:
                raise
            except Exception as ex:
                enc, r = None, f"exc {type(ex).__name__}"
            nodes = sorted(sp.nodes)
            out.append((f"x {i} mapping", r, r_list(nodes)))
            # (sklearn casts the asked label to the dtype of the class array first: 'n10' -> 'n1' in a '<U2' array, 4 -> True in a
            # bool array; an unseen label is therefore probed only against int / float class arrays)
            if enc is not None:
                numeric = getattr(getattr(enc, "classes_", None), "dtype", None) is not None and enc.classes_.dtype.kind in "if"
                for n in probe:
                    if n not in sp.nodes and not numeric:
                        continue
                    try:
                        with warnings.catch_warnings():
                            warnings.simplefilter("ignore")
                            r = str(int(enc.transform([self.labels[n]])[0]))
                    except AlarmTimeout:
                        raise
                    except Exception:
                        r = "rej"
                    out.append((f"x {i} indexof {n}", r, str(nodes.index(n)) if n in sp.nodes else "rej"))
        try:
            adj, rev = h.get_adj_dict(), h.expose_data_structures()["reverse_edge_list"]
            ents, bad = [], None
            for n, ids in adj.items():
                ks = [tuple(self.rk(x) for x in rev[j]) if j in rev else "?" for j in ids]
                want = sorted(tuple(sorted(k)) for k in sp.edges if self.rk(n) in k)
                if sorted(map(str, ks)) != sorted(map(str, want)):
                    bad = f"node {self.rk(n)!r}: adjacency ids {list(ids)!r} stand for {ks!r}, its hyperedges are {want!r}"
                ents.append(f"{self.rk(n)}=" + ("/".join(r_edge(k) if k != "?" else "?" for k in ks) or "_"))
            r = ";".join(sorted(ents)) or "-"
            if bad:
                r = "bad: " + bad
        except AlarmTimeout:
            raise
        except Exception as ex:
            r = f"exc {type(ex).__name__}"
        out.append((f"x {i} adjkeys", r, None))
        try:
            with warnings.catch_warnings():
                warnings.simplefilter("ignore")
                g = self.H()
                d = h.expose_data_structures()
                g.populate_from_dict(d)
                d2 = g.expose_data_structures()
                ok = (d2 == d and g.get_edge_list() == h.get_edge_list() and g.get_adj_dict() == h.get_adj_dict()
                      and g.get_edge_list() == d["_edge_list"] and g.get_adj_dict() == d["_adj"]
                      and set(d) == {"type", "_weighted", "_adj", "_edge_list", "_weights", "hypergraph_metadata", "node_metadata",
                                     "edge_metadata", "reverse_edge_list", "next_edge_id"}
                      and all(j < d["next_edge_id"] for j in d["reverse_edge_list"]))
            r = r_bool(ok)
        except AlarmTimeout:
            raise
        except Exception as ex:
            r = f"exc {type(ex).__name__}"
        out.append((f"x {i} roundtrip", r, "1"))
        return out

    def str_ok(self, i):
        """__str__ is derived from num_nodes / num_edges / distribution_sizes"""
        import ast
        h = self.slots[i]
        try:
            s = str(h)
            head, _, tail = s.partition("\n")
            d = ast.literal_eval(tail[len("Distribution of hyperedge sizes: "):])
            return head == f"Hypergraph with {h.num_nodes()} nodes and {h.num_edges()} edges." and d == h.distribution_sizes()
        except AlarmTimeout:
            raise
        except Exception:
            return False


class AlarmTimeout(Exception):
    pass


def _alarm(signum, frame):
    raise AlarmTimeout()


# ------------------------------------------------------------------------------------------------
# wire lines

def w_opt(x, f):
    return "~" if x is None else f(x)


def w_meta(m, empty="-"):
    return r_meta(m, empty)


def w_nats(xs):
    return ",".join(str(x) for x in xs) if len(xs) else "-"


def w_natss(xss):
    return ";".join((",".join(str(x) for x in xs) if len(xs) else "_") for xs in xss) if len(xss) else "-"


def w_filter(f):
    return f"{w_opt(f[0], str)} {w_opt(f[1], str)} {1 if f[2] else 0}"


def op_line(i, c):
    op = c[0]
    if op == "addnode":
        a = f"{c[1]} {w_opt(c[2], w_meta)}"
    elif op == "addnodes":
        a = f"{w_nats(c[1])} " + w_opt(c[2], lambda d: ";".join(f"{n}={w_meta(m, '_')}" for n, m in d.items()) if d else "-")
    elif op == "addedge":
        a = f"{w_nats(c[1])} {w_opt(c[2], lambda t: str(wq(t)))} {w_opt(c[3], w_meta)}"
    elif op == "addedges":
        a = (f"{w_natss(c[1])} {w_opt(c[2], lambda l: w_nats([wq(t) for t in l]))} "
             + w_opt(c[3], lambda l: ";".join(w_meta(m, "_") for m in l) if l else "-"))
    elif op in ("rmedge",):
        a = w_nats(c[1])
    elif op == "rmedges":
        a = w_natss(c[1])
    elif op == "rmnode":
        a = f"{c[1]} {1 if c[2] else 0}"
    elif op == "rmnodes":
        a = f"{w_nats(c[1])} {1 if c[2] else 0}"
    elif op == "setw":
        a = f"{w_nats(c[1])} {wq(c[2])}"
    elif op == "setnmeta":
        a = f"{c[1]} {w_meta(c[2])}"
    elif op == "setemeta":
        a = f"{w_nats(c[1])} {w_meta(c[2])}"
    elif op == "sethmeta":
        a = w_meta(c[1])
    elif op == "attrh":
        a = f"{c[1]} {c[2]}"
    elif op == "attrn":
        a = f"{c[1]} {c[2]} {c[3]}"
    elif op == "attre":
        a = f"{w_nats(c[1])} {c[2]} {c[3]}"
    elif op == "delattrn":
        a = f"{c[1]} {c[2]}"
    elif op == "delattre":
        a = f"{w_nats(c[1])} {c[2]}"
    elif op == "clear":
        return f"op {i} clear"
    elif op == "setinc":
        a = f"{w_nats(c[1])} {c[2]} {w_meta(c[3])}"
    elif op == "addempty":
        a = f"{c[1]} {w_meta(c[2])}"
    else:
        raise ValueError(op)
    return f"op {i} {op} {a}"


def q_line(i, q):
    name = q[0]
    if name in ("checknode", "nodemeta"):
        return f"q {i} {name} {q[1]}"
    if name in ("checkedge", "weight", "edgemeta"):
        return f"q {i} {name} {w_nats(q[1])}"
    if name == "incmeta":
        return f"q {i} incmeta {w_nats(q[1])} {q[2]}"
    if name in ("edges", "edgesmeta", "numedges", "weights", "weightsdict", "degreeseq", "degreedist", "isolated"):
        return f"q {i} {name} {w_filter(q[1])}"
    if name in ("incident", "neighbors", "degree", "isisolated"):
        return f"q {i} {name} {q[1]} {w_filter(q[2])}"
    return f"q {i} {name}"


# ------------------------------------------------------------------------------------------------
# query sets

PLAIN = ["nodes", "nodesmeta", "numnodes", "len", "iter", "sizes", "orders", "sizedist", "maxsize", "maxorder",
         "isuniform", "isweighted", "allnodesmeta", "alledgesmeta", "hmeta", "allincmeta"]
EDGE_F = ["edges", "edgesmeta", "numedges", "weights", "weightsdict"]
NODE_F = ["incident", "neighbors", "degree", "isisolated"]
ALLN_F = ["degreeseq", "degreedist", "isolated"]
FILTERS = [(None, None)] + [(o, None) for o in range(-1, 5)] + [(None, k) for k in range(0, 6)]


def full_queries(n_nodes, pool):
    qs = [(p,) for p in PLAIN]
    for f in FILTERS + [(1, 2)]:
        for up in (False, True):
            for name in EDGE_F:
                qs.append((name, (f[0], f[1], up)))
        for name in ALLN_F:
            qs.append((name, (f[0], f[1], False)))
        for n in range(n_nodes):
            for name in NODE_F:
                qs.append((name, n, (f[0], f[1], False)))
    for n in range(n_nodes):
        qs += [("checknode", n), ("nodemeta", n)]
    for e in pool:
        for name in ("checkedge", "weight", "edgemeta"):
            qs.append((name, tuple(e)))
            qs.append((name, tuple(reversed(e))))
    return qs


def medium_queries(n_nodes, pool):
    """every query, unfiltered and with the boundary filters; used at the end of the exhaustive short histories"""
    qs = [(p,) for p in PLAIN]
    for f in [(None, None), (0, None), (None, 1), (None, 0), (1, None), (None, 3), (1, 2)]:
        for up in (False, True):
            for name in ("edges", "numedges", "weightsdict"):
                qs.append((name, (f[0], f[1], up)))
        for name in ALLN_F:
            qs.append((name, (f[0], f[1], False)))
        for n in range(n_nodes):
            qs.append(("incident", n, (f[0], f[1], False)))
    for n in range(n_nodes):
        qs += [("checknode", n), ("nodemeta", n), ("neighbors", n, (None, None, False)), ("isisolated", n, (None, None, False))]
    for e in pool:
        qs += [("checkedge", tuple(reversed(e))), ("weight", tuple(e)), ("edgemeta", tuple(e))]
    return qs


def light_queries(rng, n_nodes, pool):
    qs = [(p,) for p in PLAIN]
    fs = [(None, None, False)] + [rng.choice(FILTERS) + (rng.random() < 0.5,) for _ in range(2)]
    fs.append(rng.choice([(0, None), (None, 1), (None, 0), (-1, None), (4, None), (None, 5)]) + (rng.random() < 0.5,))
    if rng.random() < 0.1:
        fs.append((rng.randint(0, 3), rng.randint(1, 4), False))
    for f in fs:
        for name in EDGE_F:
            qs.append((name, f))
        for name in ALLN_F:
            qs.append((name, (f[0], f[1], False)))
    for n in range(n_nodes):
        qs += [("checknode", n), ("nodemeta", n)]
        f = rng.choice(fs)
        for name in NODE_F:
            qs.append((name, n, (f[0], f[1], False)))
    for e in pool:
        p = list(e)
        rng.shuffle(p)
        qs += [("checkedge", tuple(p)), ("weight", tuple(p)), ("edgemeta", tuple(p))]
    return qs


# ------------------------------------------------------------------------------------------------
# generation

COPYHOW = ["copy", "copy", "deepcopy", "pickle", "hgx", "expose"]

BIG = ([0, 1] + list(range(257, 262)) + [300, 1000, 1001, 1002, 4096, 65535, 2 ** 61 - 1, 2 ** 61,   # hash(2**61-1) == hash(0)
        2 ** 31 - 1, 2 ** 31, 2 ** 32 + 5, 2 ** 53 - 1, 2 ** 53,
                                 2 ** 63 - 1, 2 ** 63, 2 ** 64 + 3, 10 ** 30, 10 ** 30 + 1])
BIGNEG = ([-2, -1] + list(range(-12, -5)) + [-300,     # hash(-1) == hash(-2)
          -1000, -1001, -2 ** 31 - 1, -2 ** 53 - 1, -2 ** 63, -2 ** 63 - 1, -10 ** 30]
          + [0, 7, 300, 2 ** 40])
MIXNUM = [float("-inf"), -1e300, -1000.75, -3.5, -1, -0.5, 0, 0.25, 1, 1.5, 2, 2.5, 3, 255.5, 257, 1000.75, 2 ** 60, 1.5e300,
          float("inf")]
STRLONG = (["node-%d" % i for i in range(12)] + ["n_%03d" % i for i in (1, 10, 100)] + ["v" * 30 + str(i) for i in range(3)]
           + ["\u00e9l\u00e9ment-%d" % i for i in range(3)] + ["gene:BRCA%d" % i for i in (1, 2)] + ["ab", "abc", "a b", "A-1"])
P61 = 2 ** 61 - 1          # CPython: hash(int) = int mod P61 (sign kept), and hash(-1) == -2
COLLIDE = [-2 * P61 - 1, -P61 - 2, -P61 - 1, -P61, -2, -1, 0, 1, P61 - 1, P61, P61 + 1, 2 * P61 - 1, 2 * P61, 2 * P61 + 1, 3 * P61, 3 * P61 + 1]
TUPCOLL = [(a, b) for a in (-2, -1, 0, P61) for b in (-2, -1, P61 - 1, 2 * P61 - 2)] + [(-1,), (-2,), (0,), (P61,), ()]
TUPLES = [(), (0,), (0, 0), (0, 1), (0, 1, 2), (1,), (1, 0), (1, 2), (2,), (2, 5, 1), (300, 1), (1000, -7), (-1, 4), (2 ** 40, 0)]
TUPSTR = [(a, i) for a in ("a", "layer-1", "layer-2", "") for i in (0, 1, 2, 1000)]
TUPNEST = [((a, b), c) for a in (0, 1) for b in (0, 2, 500) for c in (0, 1, 999)]


def gen_labels(rng, n):
    """a universe of n mutually comparable labels in increasing order (rank = position)"""
    kind = rng.choice(["int", "int", "shift", "neg", "big", "big", "bigneg", "mixnum", "str", "str2", "strlong", "strlong",
                       "tuple", "tupstr", "tupnest", "collide", "collide", "tupcoll"])
    if kind == "int":
        return kind, list(range(n))
    if kind == "shift":
        return kind, sorted(rng.sample(range(100, 160), n))
    if kind == "neg":
        return kind, sorted(rng.sample(range(-20, 20), n))
    if kind == "str":
        return kind, sorted(rng.sample(["a", "b", "c", "d", "e", "f", "g", "h", "aa", "ab", "B", "Z"], n))
    if kind == "str2":
        return kind, sorted(rng.sample(["n10", "n9", "n1", "x", "y", "E1", "E", "", " ", "10", "9"], n))
    if kind == "collide":
        # labels that share their hash in pairs / triples (-1 / -2 / -P61-1, 0 / P61 / 2*P61 ...): hyperedge tuples over
        # them collide too, so every dict / set of the implementation must tell them apart by equality
        cls = rng.choice([[-2, -1, -P61 - 1, -P61 - 2, -2 * P61 - 1], [0, P61, 2 * P61, -P61, 3 * P61],
                          [1, P61 + 1, 2 * P61 + 1, 3 * P61 + 1], [-2, -1, 0, P61, -P61 - 1, P61 - 2]])
        more = [x for x in COLLIDE if x not in cls]
        k = min(len(cls), max(2, n - rng.randint(0, 2)))
        return kind, sorted(rng.sample(cls, k) + rng.sample(more, n - k))
    pool = {"big": BIG, "bigneg": BIGNEG, "mixnum": MIXNUM, "strlong": STRLONG, "tuple": TUPLES, "tupstr": TUPSTR,
            "tupnest": TUPNEST, "tupcoll": TUPCOLL}[kind]
    return kind, sorted(rng.sample(pool, n))


def gen_meta(rng, allow_none=True):
    r = rng.random()
    if allow_none and r < 0.45:
        return None
    k = rng.choice([0, 1, 1, 1, 2])
    ks = rng.sample(range(len(KEYS)), k)
    return {a: rng.randrange(len(VALS)) for a in ks}


GRID = [2, 4, 4, 6, 8, 8, 12, 1, 0, -4]
BIGW_INT = [2 ** 53 + 1, 2 ** 53 + 1, 2 ** 53, 2 ** 53 - 1, 2 ** 53 + 3, 2 ** 63, 2 ** 63 - 1, 2 ** 63 + 1, 2 ** 64 + 3, 10 ** 30 + 1, 2 ** 24 + 1,
            2 ** 31, 2 ** 62 + 1, -(2 ** 53 + 1), -(2 ** 63) - 1, 3 * 2 ** 70 + 7]
BIGW_FLOAT = [2.0 ** 53, 2.0 ** 53 + 2, 2.0 ** 60 + 256, 1e300, -2.0 ** 53, 2.0 ** 52 + 0.5, 2.0 ** 51 + 0.25, 2.0 ** 24 + 1, 2.0 ** 63,
              2.0 ** 64, 16777217.5, 8388608.25, 1048576.75 + 2.0 ** 30, 3.5e38, 65504.25, 2049.25]


def one_token(rng):
    """the weight 1 in one of its spellings (an unweighted hypergraph takes them all)"""
    return (ONE, rng.choice(["i", "i", "f", "b", "F", "I", "q", "h"]))


def gen_weight(rng, profile="grid"):
    """a weight token (q, kind).  Profiles: grid = small multiples of 1/4 written as int / float (as before);
    types = the same values as int, float, bool, numpy scalars, Fractions next to each other;
    big = integers beyond 2**53 / 2**63, large floats, next to small floats and ints"""
    if profile == "grid":
        q = rng.choice(GRID)
        return (q, "i" if (q % 4 == 0 and rng.random() < 0.5) else "f")
    if profile == "types" or rng.random() < 0.45:
        q = rng.choice(GRID)
        ks = ["f", "f", "F", "q", "h"]
        if q % 4 == 0:
            ks += ["i", "i", "i", "I", "I", "j"]
        if q in (0, 4):
            ks += ["b", "b"]
        return (q, rng.choice(ks))
    if rng.random() < 0.6:
        v = rng.choice(BIGW_INT)
        if rng.random() < 0.3:
            v += rng.choice([-2, -1, 1, 2, 5])
        k = "I" if (abs(v) < 2 ** 62 and rng.random() < 0.15) else ("q" if rng.random() < 0.1 else "i")
        return (4 * v, k)
    x = rng.choice(BIGW_FLOAT)
    t = (int(Fraction(x) * 4), "F" if rng.random() < 0.25 else "f")
    return t


def perm(rng, e):
    e = list(e)
    rng.shuffle(e)
    return tuple(e)


class Gen:
    def __init__(self, rng):
        self.rng = rng
        self.n = rng.randint(3, 6)
        self.kind, self.labels = gen_labels(rng, self.n)
        self.profile = rng.choice(["grid", "grid", "types", "types", "big", "big", "big"])
        self.flavour = rng.choice(["mix", "mix", "mix", "weights", "weights"])
        self.hot = None          # (slot, node ranks) of the last rejected call: the next calls go through OTHER entry points
        self.jsonable = self.kind in ("int", "shift", "neg", "big", "bigneg", "collide", "str", "str2", "strlong")
        pool = set()
        for _ in range(rng.randint(4, 6)):
            k = rng.choice([0, 1, 1, 2, 2, 2, 3, 3, 3, 4])
            pool.add(tuple(sorted(rng.sample(range(self.n), min(k, self.n)))))
        self.pool = sorted(pool)
        # one nested pair (e and e minus a node) so that shrink-merge is likely
        big = [e for e in self.pool if len(e) >= 2]
        if big:
            e = rng.choice(big)
            self.pool.append(tuple(x for x in e if x != rng.choice(e)))
            self.pool = sorted(set(self.pool))
        # universes whose labels share hash values: favourite node sets come in pairs that differ by one node of equal hash
        # (their tuples then have equal hashes too), and batches are built from such pairs (collide_op)
        self.hashes = {i: hash(x) for i, x in enumerate(self.labels)}
        self.colliding = len(set(self.hashes.values())) < self.n
        if self.colliding:
            extra = []
            for e in self.pool:
                for x in e:
                    for y in range(self.n):
                        if y not in e and self.hashes[y] == self.hashes[x]:
                            extra.append(tuple(sorted(y if z == x else z for z in e)))
            rng.shuffle(extra)
            self.pool = sorted(set(self.pool) | set(extra[:3]))

    def weight(self):
        return gen_weight(self.rng, self.profile)

    def batch_weights(self, k):
        """the weights of ONE batch: next to each other an integer beyond 2**53 and a float (profile big), numbers of
        different Python types (profile types)"""
        rng = self.rng
        ws = [self.weight() for _ in range(k)]
        if k >= 2 and self.profile != "grid" and rng.random() < 0.85:
            a, b = rng.sample(range(k), 2)
            if self.profile == "big":
                mode = rng.random()
                if mode < 0.6:            # an integer beyond 2**53 next to a float
                    v = rng.choice(BIGW_INT) + rng.choice([0, 0, 1, -1, 2])
                    ws[a] = (4 * v, "i")
                    q = rng.choice([2, 6, 1, 10, 4, 8, int(Fraction(rng.choice(BIGW_FLOAT)) * 4)])
                    ws[b] = (q, rng.choice(["f", "f", "f", "F", "h" if abs(q) < 64 else "f"]))
                elif mode < 0.8:          # floats only, one of them with more digits than a float32 / beyond its range
                    ws = [(q, "f") if wkind(t) not in ("f", "F") and wtoken_ok((q, "f")) else t for t in ws for q in [wq(t)]]
                    ws = [t if wkind(t) in ("f", "F") else (rng.choice([2, 6, 1, 10]), "f") for t in ws]
                    ws[a] = (int(Fraction(rng.choice(BIGW_FLOAT)) * 4), rng.choice(["f", "f", "F"]))
                else:                     # Python ints only, one of them beyond 2**53 / 2**63
                    ws = [t if wkind(t) == "i" else (4 * rng.choice([1, 2, 3, 0, -1, 7]), "i") for t in ws]
                    ws[a] = (4 * (rng.choice(BIGW_INT) + rng.choice([0, 1, -1])), "i")
            elif wkind(ws[a]) == wkind(ws[b]):
                q = rng.choice([4, 8, 12, 0, -4])
                ws[b] = (q, rng.choice([x for x in ["i", "f", "F", "I", "q", "h", "j"] if x != wkind(ws[a])]))
        return ws

    def ehash(self, e):
        return hash(tuple(sorted(self.labels[x] for x in e)))

    def collide_op(self, spec):
        """a batched call whose members are DIFFERENT but have EQUAL hashes (or None)"""
        rng = self.rng
        r = rng.random()
        if r < 0.35:
            ns = sorted(spec.nodes)
            pairs = [(a, b) for a in ns for b in ns if a < b and self.hashes[a] == self.hashes[b]]
            if not pairs:
                return None
            mem = list(rng.choice(pairs))
            mem += [x for x in ns if x not in mem and rng.random() < 0.3]
            rng.shuffle(mem)
            return ("rmnodes", mem, rng.random() < 0.5)
        present = [tuple(sorted(k)) for k in spec.edges]
        if r < 0.7:
            pairs = [(a, b) for a in present for b in present if a < b and self.ehash(a) == self.ehash(b)]
            if not pairs:
                return None
            mem = list(rng.choice(pairs))
            mem += [e for e in present if e not in mem and rng.random() < 0.25]
            rng.shuffle(mem)
            return ("rmedges", [perm(rng, e) for e in mem])
        cands = sorted(set(present) | set(self.pool))
        pairs = [(a, b) for a in cands for b in cands if a < b and self.ehash(a) == self.ehash(b)]
        if not pairs:
            return None
        mem = list(rng.choice(pairs))
        rng.shuffle(mem)
        if rng.random() < 0.6:
            return ("addedges", mem, self.batch_weights(len(mem)), None)
        return ("addedges", [perm(rng, e) for e in mem], None, [gen_meta(rng, allow_none=False) for _ in mem] if rng.random() < 0.5 else None)

    def weight_op(self, spec):
        """calls that store, replace and add up weights"""
        rng = self.rng
        r = rng.random()
        if r < 0.45:
            es = []
            for _ in range(rng.choice([1, 2, 2, 3, 3, 4])):
                e = self.edge(spec, present=rng.random() < 0.4)
                if e not in es:
                    es.append(e)
            return ("addedges", es, self.batch_weights(len(es)), [gen_meta(rng, allow_none=False) for _ in es] if rng.random() < 0.2 else None)
        if r < 0.7:
            return ("addedge", self.edge(spec, present=rng.random() < 0.7), self.weight() if rng.random() < 0.9 else None, gen_meta(rng))
        if r < 0.82:
            return ("setw", self.edge(spec, present=True), self.weight())
        if r < 0.94:
            return ("rmnode", self.node(spec, True), True)
        ns = sorted(spec.nodes)
        rng.shuffle(ns)
        return ("rmnodes", ns[:rng.randint(1, 2)], True)

    def edge(self, spec=None, present=None):
        rng = self.rng
        r = rng.random()
        if self.hot is not None and spec is not None and rng.random() < 0.7:
            # a hyperedge that meets the members of the call that was just rejected
            hot = self.hot[1]
            cands = [sorted(k) for k in spec.edges if hot & set(k)] + [list(e) for e in self.pool if hot & set(e)]
            if cands:
                return perm(rng, rng.choice(cands))
        if present is not None and spec is not None and spec.edges and r < (0.8 if present else 0.0):
            return perm(rng, rng.choice(sorted(map(sorted, spec.edges))))
        if r < 0.85:
            return perm(rng, rng.choice(self.pool))
        k = rng.choice([0, 1, 2, 2, 3, 3, 4])
        return tuple(rng.sample(range(self.n), min(k, self.n)))

    def node(self, spec=None, present=True):
        rng = self.rng
        if self.hot is not None and rng.random() < 0.7:
            return rng.choice(sorted(self.hot[1]))
        if spec is not None and spec.nodes and rng.random() < (0.88 if present else 0.3):
            return rng.choice(sorted(spec.nodes))
        return rng.randrange(self.n)

    def op(self, spec):
        """one operation for a slot whose oracle state is `spec`"""
        rng = self.rng
        if self.colliding and rng.random() < 0.15:
            c = self.collide_op(spec)
            if c is not None:
                return c
        if self.flavour == "weights" and rng.random() < 0.5:
            return self.weight_op(spec)
        r = rng.random() * 100
        bad = rng.random() < 0.12
        free = sorted(spec.old_empties - set(spec.empties))
        if free and rng.random() < 0.25:
            # a name that was registered before the last clear() must be free again
            return ("addempty", rng.choice(free), gen_meta(rng, allow_none=False))
        if (spec.empties or spec.inc) and rng.random() < 0.03:
            return ("clear",)
        if rng.random() < 0.045:
            # the other two tables of the object: incidence metadata (keyed by the hyperedge as written) and empty hyperedges
            if rng.random() < 0.7:
                if spec.inc and rng.random() < 0.35:
                    e, n = rng.choice(sorted(spec.inc))          # second call on a key: replaces
                    if rng.random() < 0.3:
                        e = tuple(reversed(e))
                else:
                    e, n = self.edge(spec, present=not bad), rng.randrange(self.n)
                return ("setinc", tuple(e), n, gen_meta(rng, allow_none=False))
            if (spec.empties or spec.inc) and rng.random() < 0.25:
                return ("clear",)                             # clear() empties both tables: a name is free again
            free = sorted(spec.old_empties - set(spec.empties))
            name = rng.choice(free) if free and rng.random() < 0.7 else rng.randrange(len(ENAMES))
            return ("addempty", name, gen_meta(rng, allow_none=False))
        if rng.random() < 0.03:
            # a listing of the library handed straight back to it
            return rng.choice([("rmedges*", rng.choice(FILTERS) + (rng.random() < 0.5,)), ("rmedges*", (None, None, False)),
                               ("rmnodes*", rng.random() < 0.5), ("addedges*", rng.randrange(2)), ("addedges*", rng.randrange(2))])
        if r < 22:
            if spec.w:
                w = None if rng.random() < 0.15 else self.weight()
            else:
                w = rng.choice([None, None, None, one_token(rng), one_token(rng)]) if not bad else self.weight()
            return ("addedge", self.edge(spec, present=rng.random() < 0.35), w, gen_meta(rng))
        if r < 30:
            k = rng.choice([0, 1, 1, 2, 2, 3, 4])
            es = [self.edge(spec, present=rng.random() < 0.3) for _ in range(k)]
            mode = rng.random()
            ws = None
            if mode < (0.75 if spec.w else 0.15):
                # raw tuples must be distinct when weights are given
                seen, es2 = set(), []
                for e in es:
                    if e not in seen:
                        seen.add(e)
                        es2.append(e)
                es = es2
                ws = self.batch_weights(len(es))
                if bad:
                    b = rng.random()
                    if b < 0.4 and ws:
                        ws = ws[:-1]
                    elif b < 0.7:
                        ws = ws + [self.weight()]
                    elif es:
                        es = es + [es[0]]
                        ws = ws + [self.weight()]
            mds = None
            if rng.random() < 0.4:
                mds = [gen_meta(rng, allow_none=False) for _ in es]
                if rng.random() < 0.15 and mds:
                    mds = mds[:-1]
                elif rng.random() < 0.1:
                    mds = mds + [{}]
            return ("addedges", es, ws, mds)
        if r < 40:
            return ("rmedge", self.edge(spec, present=not bad))
        if r < 45:
            ks = sorted(map(sorted, spec.edges))
            rng.shuffle(ks)
            es = [perm(rng, e) for e in ks[:rng.randint(0, 3)]]
            if bad or rng.random() < 0.2:      # batches are where validation lives: a quarter of them is malformed
                if es and rng.random() < 0.6:
                    # one member twice, spelled in another node order when it has one; anywhere in the batch
                    j = max(range(len(es)), key=lambda t: (len(es[t]) >= 2, rng.random()))
                    d = perm(rng, es[j])
                    if len(d) >= 2 and d == es[j] and rng.random() < 0.8:
                        d = d[1:] + d[:1]
                    es.insert(rng.randint(0, len(es)), d)
                else:
                    es.insert(rng.randint(0, len(es)), self.edge())
            return ("rmedges", es)
        if r < 54:
            return ("rmnode", self.node(spec, not bad), rng.random() < 0.55)
        if r < 58:
            ns = sorted(spec.nodes)
            rng.shuffle(ns)
            ns = ns[:rng.randint(0, 3)]
            if bad or rng.random() < 0.15:
                if ns and rng.random() < 0.5:
                    ns.insert(rng.randint(0, len(ns)), rng.choice(ns))
                else:
                    ns.insert(rng.randint(0, len(ns)), rng.randrange(self.n))
            return ("rmnodes", ns, rng.random() < 0.5)
        if r < 64:
            return ("addnode", rng.randrange(self.n), gen_meta(rng))
        if r < 68:
            ns = [rng.randrange(self.n) for _ in range(rng.randint(0, 4))]
            mds = None
            if rng.random() < 0.6:
                mds = {n: gen_meta(rng, allow_none=False) for n in set(ns)}
                if bad and mds:
                    del mds[rng.choice(sorted(mds))]
                elif rng.random() < 0.2:
                    mds[rng.randrange(self.n)] = {}
            return ("addnodes", ns, mds)
        if r < 74:
            w = self.weight() if (spec.w or bad) else one_token(rng)
            return ("setw", self.edge(spec, present=not bad), w)
        if r < 77:
            return ("setnmeta", self.node(spec, not bad), gen_meta(rng, allow_none=False))
        if r < 80:
            return ("setemeta", self.edge(spec, present=not bad), gen_meta(rng, allow_none=False))
        if r < 81:
            return ("sethmeta", gen_meta(rng, allow_none=False))
        if r < 83:
            return ("attrh", rng.randrange(len(KEYS)), rng.randrange(len(VALS)))
        if r < 87:
            return ("attrn", self.node(spec, not bad), rng.randrange(len(KEYS)), rng.randrange(len(VALS)))
        if r < 91:
            return ("attre", self.edge(spec, present=not bad), rng.randrange(len(KEYS)), rng.randrange(len(VALS)))
        if r < 94:
            n = self.node(spec, not bad)
            ks = sorted(spec.nodes.get(n, {}))
            return ("delattrn", n, rng.choice(ks) if ks and rng.random() < 0.8 else rng.randrange(len(KEYS)))
        if r < 98:
            e = self.edge(spec, present=not bad)
            ks = sorted(spec.edges.get(frozenset(e), [0, {}, 0])[1])
            return ("delattre", e, rng.choice(ks) if ks and rng.random() < 0.8 else rng.randrange(len(KEYS)))
        return ("clear",)

    def derive(self, i, spec):
        """('derive', i, how, arg): slot i becomes an object made by another part of the library"""
        rng = self.rng
        hows = ["sub", "sub", "suborders", "suborders", "sublcc", "edgesub", "edgesub", "filter", "addrand", "addrand"]
        if self.kind == "int":
            hows += ["random"] * 3
        how = rng.choice(hows)
        if how == "sub":
            ns = sorted(spec.nodes)
            rng.shuffle(ns)
            ns = ns[:rng.randint(max(0, len(ns) - 2), len(ns))]
            if rng.random() < 0.25:
                # not clamped to the nodes at hand: an absent node makes get_node_metadata raise; a node listed twice is fine
                ns.insert(rng.randint(0, len(ns)), rng.randrange(self.n))
                return ("derive", i, "sub!", ns)
            return ("derive", i, how, ns)
        if how == "suborders":
            xs = [rng.randint(-1, 3) for _ in range(rng.randint(1, 3))]
            if rng.random() < 0.12:
                return ("derive", i, how, (None, None, rng.random() < 0.6) if rng.random() < 0.5 else (xs, [x + 1 for x in xs], rng.random() < 0.6))
            if rng.random() < 0.5:
                return ("derive", i, how, (xs, None, rng.random() < 0.6))
            return ("derive", i, how, (None, [x + 1 for x in xs], rng.random() < 0.6))
        if how == "sublcc":
            return ("derive", i, how, None)
        if how == "edgesub":
            f = rng.choice(FILTERS) if rng.random() < 0.9 else (rng.randint(0, 3), rng.randint(1, 4))
            return ("derive", i, how, (f[0], f[1], rng.random() < 0.5, rng.random() < 0.5))
        if how == "filter":
            def crit():
                return {rng.randrange(len(KEYS)): rng.sample(range(len(VALS)), rng.randint(1, 5))}
            nc = crit() if rng.random() < 0.6 else None
            ec = crit() if (nc is None or rng.random() < 0.4) else None
            return ("derive", i, how, (nc, ec, rng.choice(["keep", "remove", "remove"]),
                                       self.profile == "grid" and rng.random() < 0.5))
        if how == "addrand":
            return ("derive", i, how, (rng.randint(0, 4), rng.random() < 0.5, rng.randrange(1000),
                                       None if rng.random() < 0.5 else rng.randint(0, 3)))
        by = {}
        for _ in range(rng.randint(1, 3)):
            by[rng.randint(1, min(4, self.n))] = rng.randint(0, 4)
        return ("derive", i, how, (self.n, by, rng.randrange(1000)))

    def command(self, specs):
        """('on', i, op) | ('new', i, w, hm) | ('copy', i, j[, how]) | ('ctor', i, w, hm, nmeta, es, ws, mds) |
        ('derive', i, how, arg)"""
        rng = self.rng
        r = rng.random()
        if self.hot is not None:
            # right after a rejected call: other entry points on its members (and sometimes a copy first)
            if r < 0.06:
                i = self.hot[0]
                return ("copy", i, 1 - i, rng.choice(COPYHOW))
            return ("on", self.hot[0], self.op(specs[self.hot[0]]))
        if r < 0.045:
            i, j = rng.sample(range(2), 2)
            return ("copy", i, j, rng.choice(COPYHOW))
        if r < 0.085:
            i = rng.randrange(2)
            c = self.derive(i, specs[i])
            return c + (1 - i,) if rng.random() < 0.4 else c
        if r < 0.10:
            return ("new", rng.randrange(2), rng.random() < 0.5, gen_meta(rng, allow_none=False) if rng.random() < 0.4 else {})
        if r < 0.125:
            w = rng.random() < 0.5
            es = [self.edge() for _ in range(rng.randint(0, 4))]
            es = list(dict.fromkeys(es))
            ws = None
            if rng.random() < (0.8 if w else 0.15):
                ws = self.batch_weights(len(es))
                if rng.random() < 0.2 and ws:
                    ws = ws[:-1]
            mds = [gen_meta(rng, allow_none=False) for _ in es] if rng.random() < 0.3 else None
            nmeta = {n: gen_meta(rng, allow_none=False) for n in rng.sample(range(self.n), rng.randint(0, 2))} \
                if rng.random() < 0.4 else None
            return ("ctor", rng.randrange(2), w, gen_meta(rng, allow_none=False) if rng.random() < 0.3 else {}, nmeta,
                    es if (es or rng.random() < 0.5) else None, ws, mds)
        i = 0 if rng.random() < 0.75 else 1
        return ("on", i, self.op(specs[i]))


# ------------------------------------------------------------------------------------------------
# running one history

def tup(x):
    """JSON round trip: lists back to tuples for hyperedges is not needed (we index only); dict keys back to int"""
    return x


def fix_cmd(c):
    """normalise a command read back from JSON (dict keys became strings)"""
    def fm(m):
        return None if m is None else {int(k): v for k, v in m.items()}

    def fw(t):
        return tuple(t) if isinstance(t, list) else t
    c = list(c)
    if c[0] == "on":
        o = list(c[2])
        if o[0] == "addnode":
            o[2] = fm(o[2])
        elif o[0] == "addnodes":
            o[2] = None if o[2] is None else {int(k): fm(v) for k, v in o[2].items()}
        elif o[0] == "addedge":
            o[1] = tuple(o[1]); o[2] = fw(o[2]); o[3] = fm(o[3])
        elif o[0] == "addedges":
            o[1] = [tuple(e) for e in o[1]]; o[3] = None if o[3] is None else [fm(m) for m in o[3]]
            o[2] = None if o[2] is None else [fw(t) for t in o[2]]
        elif o[0] == "setw":
            o[1] = tuple(o[1]); o[2] = fw(o[2])
        elif o[0] == "rmedges*":
            o[1] = tuple(o[1])
        elif o[0] in ("rmedge", "attre", "delattre"):
            o[1] = tuple(o[1])
        elif o[0] == "rmedges":
            o[1] = [tuple(e) for e in o[1]]
        elif o[0] == "setnmeta":
            o[2] = fm(o[2])
        elif o[0] == "setemeta":
            o[1] = tuple(o[1]); o[2] = fm(o[2])
        elif o[0] == "sethmeta":
            o[1] = fm(o[1])
        elif o[0] == "setinc":
            o[1] = tuple(o[1]); o[3] = fm(o[3])
        elif o[0] == "addempty":
            o[2] = fm(o[2])
        c[2] = tuple(o)
    elif c[0] == "new":
        c[3] = fm(c[3]) or {}
    elif c[0] == "ctor":
        c[3] = fm(c[3]) or {}
        c[4] = None if c[4] is None else {int(k): fm(v) for k, v in c[4].items()}
        c[5] = None if c[5] is None else [tuple(e) for e in c[5]]
        c[6] = None if c[6] is None else [fw(t) for t in c[6]]
        c[7] = None if c[7] is None else [fm(m) for m in c[7]]
    elif c[0] == "derive":
        a = c[3]
        if c[2] == "filter":
            fc = lambda d: None if d is None else {int(k): list(v) for k, v in d.items()}
            a = (fc(a[0]), fc(a[1]), a[2], a[3])
        elif c[2] == "random":
            a = (a[0], {int(k): v for k, v in a[1].items()}, a[2])
        elif isinstance(a, list) and c[2] not in ("sub", "sub!"):
            a = tuple(a)
        c[3] = a
    return tuple(c)


def ctor_lines(c):
    """the constructor call as ONE model call (`C01.construct`, second extension)"""
    _, i, w, hm, nmeta, es, ws, mds = c
    nm = ";".join(f"{n}={w_meta(m, '_')}" for n, m in (nmeta or {}).items()) or "-"
    return [f"ctor {i} {1 if w else 0} {w_meta(hm)} {nm} {w_natss(es or [])} "
            f"{w_opt(ws, lambda l: w_nats([wq(t) for t in l]))} "
            + w_opt(mds, lambda l: ";".join(w_meta(m, "_") for m in l) if l else "-")]


def spec_components(sp):
    """the connected components (node sets) of the abstract hypergraph"""
    comp = {x: {x} for x in sp.nodes}
    for e in sp.edges:
        es = [x for x in e if x in comp]
        for x in es[1:]:
            a, b = comp[es[0]], comp[x]
            if a is not b:
                a |= b
                for y in b:
                    comp[y] = a
    out = []
    for c in comp.values():
        if not any(c is d for d in out):
            out.append(c)
    return out


def ctor_spec(c):
    _, i, w, hm, nmeta, es, ws, mds = c
    s = PySpec(w, hm)
    for n, m in (nmeta or {}).items():
        s._add_node(n, m)
    if es:
        if not s.do(("addedges", es, ws, mds)):
            return None
    return s


class Problem(Exception):
    def __init__(self, kind, what, step):
        self.kind, self.what, self.step = kind, what, step


BATCHED = ("addnodes", "addedges", "rmedges", "rmnodes")


def batched_vs_single(real, h, twin, singles):
    """None, or how the hypergraph `h` left by a batched call differs from `twin` after `singles(twin)` (which may also
    build the twin).  Both sides are the implementation: no oracle, no model - the property's "single or batched"."""
    try:
        t = singles(twin)
        if twin is None:
            twin = t
        a, b = real.observe(h), real.observe(twin)
    except AlarmTimeout:
        raise
    except Exception as ex:
        return f"the single calls raised {type(ex).__name__}: {ex}"
    for k in a:
        if a[k] != b[k]:
            return f"{k}: batched {a[k]!r}, one by one {b[k]!r}"
    return None


def clamp_derive(how, arg, spec, n):
    """the arguments the unchanged routines take on the hypergraph at hand (a function of the abstract state only)"""
    import math
    nn = len(spec.nodes)
    if how == "sub":
        return [x for x in arg if x in spec.nodes]
    if how == "sublcc" and nn == 0:
        return None
    if how == "addrand":
        size, inplace, seed, count = arg
        size = min(size, nn)
        if count is not None:
            count = min(count, math.comb(nn, size))
        return (size, inplace, seed, count)
    if how == "random":
        m, by, seed = arg
        return (m, {int(k): v for k, v in by.items() if int(k) <= m}, seed)
    return arg


def digest_queries(n_nodes):
    """asked again after the answers of a round were handed to the caller (who empties / overwrites the returned containers)"""
    f0 = (None, None, False)
    qs = [(p,) for p in PLAIN]
    qs += [("edges", f0), ("edgesmeta", f0), ("weights", f0), ("weightsdict", f0), ("numedges", f0), ("degreeseq", f0),
           ("degreedist", f0), ("isolated", f0)]
    for n in range(n_nodes):
        qs += [("checknode", n), ("incident", n, f0), ("neighbors", n, f0), ("degree", n, f0)]
    return qs


def run_history(case, drv, rng, stats=None, full_every=False, small=False):
    """Runs the commands of `case` on REAL, ORACLE and MODEL.  Raises Problem at the first difference.
    Returns facts about the history (for the non-triviality rule)."""
    labels = [dec_label(x) for x in case["labels"]]
    cmds, n, pool = case["cmds"], len(labels), [tuple(e) for e in case["pool"]]
    real = Real(labels, case.get("pres"))
    specs = [PySpec() for _ in range(NSLOT)]
    lines, expect = ["reset %d" % NSLOT], [("ctl", "ok", None)]
    facts = {"removal": False, "reinsertion": False, "rejected": 0, "accepted": 0, "merge": False, "fresh_shrink": False}
    ever = [set(), set()]

    def flush(step):
        if drv is None:
            lines.clear(); expect.clear()
            return
        ans = drv.batch(lines)
        for ln, a, (kind, want, qname) in zip(lines, ans, expect):
            if a.startswith("SPECDIFF"):
                raise Problem("disagree", f"Lean concrete model and Lean spec differ on {ln!r}: {a}", step)
            got = norm_x(ln, a) if kind == "x" else (a if kind != "q" else norm(KIND[qname], a))
            if kind == "x" and ln.endswith(" adjkeys") and not a.startswith("SPECDIFF"):
                got = ";".join(sorted(a.split(";")))
            if got != want:
                raise Problem("disagree", f"model answers {a!r} to {ln!r}, implementation gives {want!r}", step)
        lines.clear(); expect.clear()

    def queries(i, qs, step):
        # every stored incidence entry under its own spelling and under the reversed one (another key), + one absent entry
        qs = list(qs) + [("incmeta", k[0], k[1]) for k in specs[i].inc] \
            + [("incmeta", tuple(reversed(k[0])), k[1]) for k in specs[i].inc] \
            + [("incmeta", tuple(e), 0) for e in pool[:2]]
        for rnd, batch in ((0, qs), (1, digest_queries(n) if real.pres is not None else [])):
            for q in batch:
                kind = KIND[q[0]]
                ql = q_line(i, q)
                r = norm(kind, real.ask(i, q, real.P(step, f"{rnd}{ql}")))
                o = norm(kind, specs[i].ask(q))
                if r != o:
                    raise Problem("violation", f"after step {step} query {ql!r}{' (asked again after the caller overwrote the containers returned by the queries before)' if rnd else ''}: "
                                               f"implementation answers {r!r}, the abstract hypergraph of the history gives {o!r}", step)
                if rnd == 0:
                    lines.append(ql); expect.append(("q", r, q[0]))
        # second extension: hashing view, label mapping, raw tables (id-free) and the table route, after every query round
        for ql, r, o in real.xobs(i, specs[i], sorted({0, n - 1, step % max(n, 1)})):
            if o is not None and r != o:
                raise Problem("violation", f"after step {step} {ql!r}: implementation gives {r!r}, the abstract hypergraph of "
                                           f"the history gives {o!r}", step)
            if r.startswith(("bad", "exc")):
                raise Problem("violation", f"after step {step} {ql!r}: {r}", step)
            lines.append(ql); expect.append(("x", r, None))
        # filter laws on the implementation itself: size=k is order=k-1
        if not real.str_ok(i):
            raise Problem("violation", f"after step {step}: str() does not report num_nodes/num_edges/distribution_sizes", step)
        lines.append(f"chk {i}"); expect.append(("ctl", "1", None))

    for step, c in enumerate(cmds):
        touched = None
        if c[0] == "on":
            _, i, op = c
            P = real.P(step, "op" + repr((i, op)))
            if stats is not None and op[0].endswith("*"):
                stats["arg:library_listing"] = stats.get("arg:library_listing", 0) + 1
            try:
                op, thunk = real.prepare(i, op, P)     # the operation in the order its containers list it
            except AlarmTimeout:
                raise
            except Exception as ex:
                if not op[0].endswith("*"):
                    raise
                raise Problem("violation", f"step {step} {op!r}: reading the listing to hand back raised / gave {type(ex).__name__}: {ex}", step)
            before = [copy.deepcopy(specs[i].digest())]
            if op[0] in ("addedge", "addedges"):
                es = [op[1]] if op[0] == "addedge" else op[1]
                if any(frozenset(e) in ever[i] for e in es if i < 2):
                    facts["reinsertion_try"] = True
            specs[i].inexact = False
            o_ok = specs[i].do(op)
            if specs[i].inexact:
                # Python cannot add the weights of this call exactly in the order the containers list them: "adds its
                # weight" would mean something else for a plain Python map than for the model.  The history ends here.
                specs[i].inexact = False
                facts["cut"] = True
                break
            twin = None
            if op[0] in BATCHED and o_ok and real.pres is not None and P.r.random() < 0.6:
                try:
                    twin = real.slots[i].copy()
                except AlarmTimeout:
                    raise
                except Exception:
                    twin = None
            r_ok = real.call(thunk, P)
            kept = real.check_held()
            if kept:
                raise Problem("violation", f"step {step} {op_line(i, op)!r}: {kept}", step)
            lines.append(op_line(i, op)); expect.append(("ctl", "ok" if r_ok else "rej", None))
            if r_ok != o_ok:
                raise Problem("violation", f"step {step} {op_line(i, op)!r}: implementation "
                              f"{'accepts' if r_ok else 'rejects'}, the abstract hypergraph {'accepts' if o_ok else 'rejects'}", step)
            if stats is not None:
                stats["op:" + op[0]] = stats.get("op:" + op[0], 0) + 1
                stats["accepted" if r_ok else "rejected"] = stats.get("accepted" if r_ok else "rejected", 0) + 1
                if op[0] == "addedges" and op[2] is not None and r_ok:
                    ks = {wkind(t, j) for j, t in enumerate(op[2])}
                    big = any(abs(wq(t)) > 2 ** 55 for t in op[2])
                    if len(ks) > 1:
                        stats["batch_mixed_types"] = stats.get("batch_mixed_types", 0) + 1
                    if big and ks & {"f", "F", "h"} and ks & {"i", "q", "I"}:
                        stats["batch_bigint_next_to_float"] = stats.get("batch_bigint_next_to_float", 0) + 1
            if twin is not None:
                diff = batched_vs_single(real, real.slots[i], twin, lambda t: real.one_by_one(t, op, real.P(step, "twin" + repr(op))))
                if stats is not None:
                    stats["batched_vs_one_by_one"] = stats.get("batched_vs_one_by_one", 0) + 1
                if diff:
                    raise Problem("violation", f"step {step} {op_line(i, op)!r}: the batched call and the same members one "
                                               f"call each (on a copy taken before) leave different hypergraphs: {diff}", step)
            if r_ok:
                facts["accepted"] += 1
                if op[0] in ("rmedge", "rmedges", "rmnode", "rmnodes") and specs[i].digest()[2] != before[0][2]:
                    facts["removal"] = True
                if facts.pop("reinsertion_try", False):
                    facts["reinsertion"] = True
                if op[0] in ("rmnode", "rmnodes") and op[2] and i < 2:
                    # shrink-merge: fewer hyperedges lost than the removed node(s) would account for is hard to see;
                    # record when a kept hyperedge met an existing one
                    facts["merge"] = facts["merge"] or (len(specs[i].edges) < len(before[0][2]))
                    gone = {op[1]} if op[0] == "rmnode" else set(op[1])
                    if real.pres is not None and any(len(k) > 1 and gone & set(k) for k, _ in before[0][2]):
                        facts["fresh_shrink"] = True
                if i < 2:
                    ever[i] |= set(specs[i].edges)
            else:
                facts["rejected"] += 1
                facts.pop("reinsertion_try", None)
            touched = i
            if small:
                qs = medium_queries(n, pool) if not r_ok else []
            elif full_every:
                qs = full_queries(n, pool)
            else:
                qs = light_queries(rng, n, pool)
                if not r_ok:       # the whole observable state (every filtered answer is a view of it; full sweep at the end)
                    f0 = (None, None, False)
                    qs += [(name, x, f0) for x in range(n) for name in NODE_F]
                    qs += [(name, tuple(e)) for e in pool for name in ("checkedge", "weight", "edgemeta")]
            queries(i, qs, step)   # after a rejected call the oracle state is the state before: full comparison
        elif c[0] == "new":
            _, i, w, hm = c
            ok = real.new(i, w, hm, real.P(step, repr(c)))
            specs[i] = PySpec(w, hm)
            if i < 2:
                ever[i] = set()
            lines.append(f"new {i} {1 if w else 0} {w_meta(hm)}"); expect.append(("ctl", "ok" if ok else "rej", None))
            if not ok:
                raise Problem("violation", f"step {step}: Hypergraph(weighted={w}, hypergraph_metadata=...) raised", step)
            queries(i, light_queries(rng, n, pool), step)
        elif c[0] == "copy":
            i, j = c[1], c[2]
            how = c[3] if len(c) > 3 else "copy"
            ok = real.copy(i, j, how)
            if stats is not None:
                stats["start:" + how] = stats.get("start:" + how, 0) + 1
            specs[j] = copy.deepcopy(specs[i])
            if j < 2:
                ever[j] = set(ever[i]) if i < 2 else set()
            if how in ("expose", "hgx"):
                # expose_data_structures() (also what the binary file format stores, see C06_hgx_roundtrip) lists neither the
                # incidence metadata nor the empty hyperedges: the rebuilt object holds the node / hyperedge tables only
                # (model: fresh object that takes the tables of slot i)
                specs[j].inc, specs[j].empties = {}, {}
                lines.append(f"new {j} 0 -"); expect.append(("ctl", "ok", None))
                lines.append(f"rebase {i} {j}"); expect.append(("ctl", "ok" if ok else "rej", None))
            else:
                lines.append(f"copy {i} {j}"); expect.append(("ctl", "ok" if ok else "rej", None))
            if not ok:
                raise Problem("violation", f"step {step}: making a copy of the hypergraph ({how}) raised", step)
            queries(j, light_queries(rng, n, pool), step)
            queries(i, light_queries(rng, n, pool), step)
        elif c[0] == "ctor":
            i = c[1]
            P = real.P(step, repr(c))
            c, thunk = real.prepare_ctor(c, P)
            s = ctor_spec(c)
            if s is not None and s.inexact:
                facts["cut"] = True
                break
            ok = real.call(thunk, P)
            if ok and s is not None and real.pres is not None and P.r.random() < 0.6:
                diff = batched_vs_single(real, real.slots[i], None, lambda _: real.ctor_one_by_one(c, real.P(step, "twin" + repr(c))))
                if stats is not None:
                    stats["batched_vs_one_by_one"] = stats.get("batched_vs_one_by_one", 0) + 1
                if diff:
                    raise Problem("violation", f"step {step}: the constructor call {c!r} and the same nodes / hyperedges "
                                               f"one call each on an empty hypergraph give different hypergraphs: {diff}", step)
            if ok != (s is not None):
                raise Problem("violation", f"step {step}: constructor {'returned' if ok else 'raised'} but the same calls on "
                              f"the abstract hypergraph are {'rejected' if ok else 'accepted'}: {c!r}", step)
            cl = ctor_lines(c)
            if ok:
                specs[i] = s
                if i < 2:
                    ever[i] = set(s.edges)
                for ln in cl:
                    lines.append(ln); expect.append(("ctl", "ok", None))
            else:
                # the model must reject one of the calls; the target slot keeps its content
                if drv is not None:
                    flush(step)
                    outs = []
                    for ln in cl:
                        outs.append(drv.ask(ln))
                        if outs[-1] != "ok":
                            break
                    if outs[-1] != "rej":
                        raise Problem("disagree", f"constructor raised, model accepts every call of {cl!r}", step)
            queries(i, light_queries(rng, n, pool), step)
        elif c[0] == "derive":
            i, how, arg = c[1], c[2], c[3]
            src = i
            if len(c) > 4 and c[4] is not None and how not in ("filter", "random") and not (how == "addrand" and arg[1]):
                i = c[4]          # the new object goes to another slot, the source stays under observation
            arg = clamp_derive(how, arg, specs[src], n)
            if how == "sublcc" and not specs[src].nodes:       # (max() of no components raises in the unchanged code)
                how, arg = "sub", []
            P = real.P(step, repr(c))
            if stats is not None:
                stats["start:" + how] = stats.get("start:" + how, 0) + 1
            # the three extraction routines of core/hypergraph.py are INSIDE the model: it is told the call, not the result
            xline, must_raise = None, False
            if how in ("sub", "sub!"):
                xline = f"extract {src} {i} sub {w_nats(arg)}"
                must_raise = any(x not in specs[src].nodes for x in arg)
            elif how == "suborders":
                xline = (f"extract {src} {i} orders {w_opt(arg[0], w_nats)} {w_opt(arg[1], w_nats)} {1 if arg[2] else 0}")
                must_raise = (arg[0] is None) == (arg[1] is None)
            elif how == "edgesub":
                xline = f"extract {src} {i} edges {w_filter((arg[0], arg[1], arg[2]))} {1 if arg[3] else 0}"
                must_raise = arg[0] is not None and arg[1] is not None
            if must_raise:
                before_obj = real.slots[i]
                bad = real.derive(src, how, arg, P, i)
                if stats is not None:
                    stats["extraction_rejected"] = stats.get("extraction_rejected", 0) + 1
                if not bad or not bad.startswith("raised"):
                    raise Problem("violation", f"step {step}: {how} {arg!r} must raise (absent node / orders and sizes both or "
                                               f"neither given / order and size both given) but it {bad or 'returned a hypergraph'}", step)
                real.slots[i] = before_obj
                lines.append(xline); expect.append(("ctl", "rej", None))
                queries(src, light_queries(rng, n, pool), step)
                flush(step)
                continue
            lcc_set = None
            if how == "sublcc":
                # subhypergraph_largest_component is INSIDE the model (C01.subLcc).  The call is sent when the largest
                # component is unique (with a tie Python's max() takes the first in node LISTING order, which the harness
                # does not pin down for every object); the result is compared, then the slot is adopted as before.
                sizes = sorted(len(x) for x in spec_components(specs[src]))
                if sizes and (len(sizes) == 1 or sizes[-1] > sizes[-2]):
                    lcc_set = max(spec_components(specs[src]), key=len)
            bad = real.derive(src, how, arg, P, i)
            if bad:
                raise Problem("violation", f"step {step}: {how} {arg!r} on a hypergraph of the history {bad}", step)
            if lcc_set is not None:
                if stats is not None:
                    stats["sublcc_in_model"] = stats.get("sublcc_in_model", 0) + 1
                try:
                    got_nodes = {real.rk(x) for x in real.slots[i].get_nodes()}
                except AlarmTimeout:
                    raise
                except Exception as ex:
                    got_nodes = f"exc {type(ex).__name__}"
                if got_nodes != lcc_set:
                    raise Problem("violation", f"step {step}: subhypergraph_largest_component has the nodes {got_nodes!r}, the "
                                               f"(unique) largest component of the abstract hypergraph is {sorted(lcc_set)!r}", step)
                lines.append(f"lcc {src} 2 ~ ~"); expect.append(("ctl", "ok", None))
                saved, real.slots[2], specs2 = real.slots[2], real.slots[i], specs[2]
                sp2 = PySpec(specs[src].w)
                sp2.nodes = {x: dict(m) for x, m in specs[src].nodes.items() if x in lcc_set}
                sp2.edges = {e: [v[0], dict(v[1]), v[2]] for e, v in specs[src].edges.items() if e <= lcc_set}
                specs[2] = sp2
                try:
                    queries(2, light_queries(rng, n, pool), step)
                finally:
                    real.slots[2], specs[2] = saved, specs2
            try:
                w, hm, nodes, edges = real.readout(i)
            except AlarmTimeout:
                raise
            except Exception as ex:
                raise Problem("violation", f"step {step}: the hypergraph made by {how} {arg!r} cannot be read: {ex}", step)
            # from here on the history runs on that object: whatever it holds is the abstract hypergraph to start from
            sp = PySpec(w)
            sp.hm = dict(hm)
            sp.nodes = {x: dict(m) for x, m in nodes.items()}
            sp.edges = {frozenset(e): [q if w else ONE, dict(m), pv if w else 1] for e, q, m, pv in edges}
            if how in ("filter", "addrand"):
                # the object itself changed in place, or a copy() of it: both other tables stay
                sp.inc, sp.empties = copy.deepcopy(specs[src].inc), copy.deepcopy(specs[src].empties)
            specs[i] = sp
            if i < 2:
                ever[i] = set(sp.edges)
            if xline is not None:
                if stats is not None:
                    stats["extraction_in_model"] = stats.get("extraction_in_model", 0) + 1
                init = [xline]
            else:
                init = [f"new 2 {1 if w else 0} -", f"op 2 sethmeta {w_meta(hm)}"]
                init += [op_line(2, ("addnode", x, m)) for x, m in nodes.items()]
                if edges:
                    init.append(op_line(2, ("addedges", [e for e, _, _, _ in edges], [q for _, q, _, _ in edges] if w else None,
                                            [m for _, _, m, _ in edges])))
                if how in ("filter", "addrand"):
                    if src != i:
                        init.append(f"copy {src} {i}")
                    init.append(f"rebase 2 {i}")
                else:
                    init.append(f"copy 2 {i}")
            for ln in init:
                lines.append(ln); expect.append(("ctl", "ok", None))
            queries(i, light_queries(rng, n, pool), step)
            if src != i:
                queries(src, light_queries(rng, n, pool), step)
        else:
            raise ValueError(c[0])
        flush(step)
    if small:
        queries(0, medium_queries(n, pool), len(cmds))
    else:
        for i in range(2):
            queries(i, full_queries(n, pool), len(cmds))
    flush(len(cmds))
    return facts


def check_history(ctx, drv, case, rng, stats, full_every=False, record=True, small=False):
    """returns None or a Problem"""
    signal.signal(signal.SIGALRM, _alarm)
    signal.alarm(20)
    try:
        facts = run_history(case, drv, rng, stats, full_every, small)
        prob = None
    except Problem as p:
        prob, facts = p, None
    except AlarmTimeout:
        prob, facts = Problem("violation", "a call of the history did not return within 20 s", -1), None
    finally:
        signal.alarm(0)
    if record and facts is not None:
        key = repr((case["n"], case["cmds"]))
        ctx.case(key, facts["removal"] and facts["reinsertion"], sample=case)
        for k in ("removal", "reinsertion", "merge", "fresh_shrink", "cut"):
            if facts.get(k):
                ctx.count("histories_with_" + k)
        ctx.count("histories_with_rejection", 1 if facts["rejected"] else 0)
    return prob


def shrink(ctx, drv, case, prob, rng):
    """greedy removal of commands while a problem of the same kind remains (bounded)"""
    cmds = list(case["cmds"])
    if prob.step >= 0:
        cmds = cmds[:prob.step + 1]
    best = dict(case, cmds=cmds)
    tries = 0
    changed = True
    while changed and tries < 150 and (ctx.time_left() is None or ctx.time_left() > 20):
        changed = False
        for k in range(len(best["cmds"]) - 1, -1, -1):
            cand = dict(best, cmds=best["cmds"][:k] + best["cmds"][k + 1:])
            tries += 1
            p = check_history(ctx, drv if prob.kind == "disagree" else None, cand, rng, None, full_every=True, record=False)
            if drv is not None and prob.kind == "disagree":
                pass
            if p is not None and p.kind == prob.kind:
                best, prob, changed = cand, p, True
                break
    return best, prob


def report(ctx, drv, case, prob, rng):
    if prob.step < 0:      # a hang: do not re-run it while shrinking
        ctx.violation(case, prob.what)
        return
    try:
        if drv is not None:
            drv.batch(["reset %d" % NSLOT])
        case2, prob2 = shrink(ctx, drv, case, prob, rng)
    except Exception:
        case2, prob2 = case, prob
    (ctx.violation if prob2.kind == "violation" else ctx.disagree)(case2, prob2.what)


def approx_derive(spec, how, arg, n):
    """generation only: roughly what the derived object will hold, so that the following commands can aim at present /
    absent members (the run takes the content from the object itself)"""
    t = copy.deepcopy(spec)
    try:
        if how == "sub!" and any(x not in t.nodes for x in arg):
            return spec
        if how in ("sub", "sub!"):
            keep = set(arg)
            t.nodes = {x: m for x, m in t.nodes.items() if x in keep}
            t.edges = {k: v for k, v in t.edges.items() if k <= keep}
        elif how in ("suborders", "edgesub"):
            if how == "suborders":
                sizes = set(arg[1]) if arg[1] is not None else {o + 1 for o in arg[0]}
                ok = lambda k: len(k) in sizes
                keep_nodes = arg[2]
            else:
                p = PySpec._flt((arg[0], arg[1], arg[2]))
                ok = (lambda k: True) if p is None else p
                keep_nodes = arg[3]
            t.edges = {k: v for k, v in t.edges.items() if ok(k)}
            if not keep_nodes:
                live = set().union(*t.edges) if t.edges else set()
                t.nodes = {x: m for x, m in t.nodes.items() if x in live}
        elif how == "filter":
            nc, ec, mode, keep = arg
            def match(md, c):
                return all(md.get(a) in vs for a, vs in c.items())
            if nc is not None:
                for x in [x for x, m in t.nodes.items() if match(m, nc) == (mode == "remove")]:
                    t._remove_node(x, keep)
            if ec is not None:
                for k in [k for k, v in t.edges.items() if match(v[1], ec) == (mode == "remove")]:
                    del t.edges[k]
        elif how == "random":
            t = PySpec()
            t.nodes = {x: {} for x in range(n)}
        t.hm = {0: 1 if t.w else 0, 1: 2} if how != "filter" and how != "addrand" else t.hm
        t.inexact = False
    except Exception:
        return spec
    return t


def unstar(op, specs):
    """generation only: a call that hands a listing back, as the plain batched call it will (roughly) be"""
    if op[0] == "rmedges*":
        p = PySpec._flt(op[1])
        return ("rmedges", [tuple(sorted(k)) for k in specs[op[2]].edges if p(k)])
    if op[0] == "rmnodes*":
        return ("rmnodes", list(specs[op[2]].nodes), op[1])
    if op[0] == "addedges*":
        src = specs[op[1]]
        return ("addedges", [tuple(sorted(k)) for k in src.edges], [wtoken_of(v[2]) for v in src.edges.values()] if src.w else None, None)
    return op


def gen_case(rng, max_len=40):
    g = Gen(rng)
    specs = [PySpec() for _ in range(NSLOT)]
    cmds = []
    L = rng.choice([1, 2, 3, 5, 8, 12, 16, 20, 25, 30, max_len])
    if g.flavour == "weights" and rng.random() < 0.7:
        cmds.append(("new", 0, True, {}))
        specs[0] = PySpec(True, {})
        if rng.random() < 0.3:
            cmds.append(("new", 1, True, {}))
            specs[1] = PySpec(True, {})
    tries = 0
    while len(cmds) < L and tries < 4 * L + 8:
        tries += 1
        c = g.command(specs)
        hot = None
        # keep the oracle states going so that the generator can aim at present / absent members; a command whose
        # weight additions Python cannot do exactly (2**53 + 1 + 0.5) is not part of the history
        if c[0] == "on":
            sp = specs[c[1]]
            sp.inexact = False
            ok = sp.do(unstar(c[2] + (c[1],) if c[2][0] in ("rmedges*", "rmnodes*") else c[2], specs))
            if sp.inexact:
                sp.inexact = False
                continue
            if not ok and g.hot is None and rng.random() < 0.75:
                # the call is rejected: its members are where a half-done operation would have left something behind
                op = c[2]
                mem = set()
                if op[0] in ("addedge", "rmedge", "setw", "setemeta", "attre", "delattre"):
                    mem = set(op[1])
                elif op[0] in ("addedges", "rmedges"):
                    mem = set(x for e in op[1] for x in e)
                elif op[0] in ("rmnodes", "addnodes"):
                    mem = set(op[1])
                elif op[0] in ("rmnode", "addnode", "setnmeta", "attrn", "delattrn"):
                    mem = {op[1]}
                if mem:
                    hot = (c[1], mem, rng.randint(1, 3))
        elif c[0] == "new":
            specs[c[1]] = PySpec(c[2], c[3])
        elif c[0] == "copy":
            specs[c[2]] = copy.deepcopy(specs[c[1]])
        elif c[0] == "ctor":
            s = ctor_spec(c)
            if s is not None and s.inexact:
                continue
            if s is not None:
                specs[c[1]] = s
        elif c[0] == "derive":
            j = c[4] if (len(c) > 4 and c[2] not in ("filter", "random") and not (c[2] == "addrand" and c[3][1])) else c[1]
            specs[j] = approx_derive(specs[c[1]], c[2], c[3], g.n)
        cmds.append(c)
        if hot is not None:
            g.hot = hot
        elif g.hot is not None:
            g.hot = (g.hot[0], g.hot[1], g.hot[2] - 1) if g.hot[2] > 1 else None
    return {"n": g.n, "kind": g.kind, "wprofile": g.profile, "labels": [enc_label(x) for x in g.labels], "pres": rng.getrandbits(31) | 1,
            "pool": [list(e) for e in g.pool], "cmds": cmds}


def alphabet3():
    """26 calls over the nodes 0,1,2 for the exhaustive short histories"""
    A = [("addedge", (0, 1), None, None), ("addedge", (1, 0), ONE, {2: 4}), ("addedge", (0, 1, 2), None, None),
         ("addedge", (2, 1), 8, None), ("addedge", (1,), None, {3: 3}), ("addedge", (), None, None),
         ("addedges", [(0, 1), (1, 2)], None, None), ("addedges", [(0, 1), (1, 0)], [8, 2], None),
         ("addedges", [(0, 2), (0, 2)], [4, 4], None),
         ("rmedge", (1, 0)), ("rmedge", (2, 1, 0)), ("rmedges", [(0, 1), (1, 2)]), ("rmedges", [(0, 1), (1, 0)]),
         ("rmnode", 0, False), ("rmnode", 0, True), ("rmnode", 1, True), ("rmnodes", [0, 1], True), ("rmnodes", [2, 2], False),
         ("addnode", 2, {2: 4}), ("addnodes", [0, 2], {0: {}}), ("setw", (0, 1), 8), ("setw", (1, 0), ONE),
         ("attre", (1, 0), 2, 3), ("delattre", (0, 1), 2), ("delattrn", 2, 2), ("clear",), ("setinc", (1, 0), 2, {2: 4})]
    return A


def alphabet_w():
    """extra calls for the exhaustive WEIGHTED short histories: one batch mixing an integer beyond 2**53 with a float, the
    same single, numbers of other types"""
    big = 4 * (2 ** 53 + 1)
    return [("addedges", [(0, 1), (1, 2)], [(big, "i"), (2, "f")], None), ("addedges", [(1, 0), (0, 1, 2)], [(12, "i"), (6, "F")], None),
            ("addedge", (1, 0), (big, "i"), None), ("addedge", (0, 1), (4, "b"), None), ("addedge", (2, 1), (3, "q"), None),
            ("setw", (0, 1), (8, "I")), ("setw", (1, 0), (4 * 2 ** 63, "i")), ("rmedges*", (None, None, False)), ("addedges*", 0)]


def run(ctx):
    try:
        Real([0, 1]).do(0, ("addedge", (0, 1), None, None))
        from hypergraphx.measures.degree import degree  # noqa: F401
        from hypergraphx.utils.cc import isolated_nodes  # noqa: F401
    except Exception as ex:   # a tree that cannot even be imported contradicts every clause of the property
        ctx.violation({"labels": [0, 1], "cmds": [], "pool": [], "n": 2, "kind": "int"},
                      f"hypergraphx.Hypergraph cannot be imported / constructed: {type(ex).__name__}: {ex}")
        return
    drv = ctx.driver() if ctx.model_available else None
    rng = ctx.rng
    stats = {}
    n_hist = ctx.scale(260, 5000)
    for k in range(n_hist):
        case = gen_case(rng)
        ctx.count("label_kind:" + case["kind"])
        ctx.count("history_length_total", len(case["cmds"]))
        prob = check_history(ctx, drv, case, rng, stats)
        if prob is not None:
            report(ctx, drv, case, prob, rng)
            if drv is not None:
                drv.batch(["reset %d" % NSLOT])
        if ctx.too_many(3) or (ctx.time_left() is not None and ctx.time_left() < 15):
            break
    if ctx.tier == "thorough" and not ctx.too_many(1):
        A = alphabet3()
        nexh = 0
        for w, lengths in ((False, (1, 2, 3)), (True, (1, 2))):
            for L in lengths:
                for ops in itertools.product(A + alphabet_w() if w else A, repeat=L):
                    cmds = ([("new", 0, True, {})] if w else []) + [("on", 0, o) for o in ops]
                    case = {"n": 3, "kind": "int", "labels": [0, 1, 2] if nexh % 3 else [5, 300, 2 ** 40],
                            "pres": 2 * nexh + 1, "pool": [[0, 1], [0, 1, 2], [1, 2], [1], []], "cmds": cmds}
                    nexh += 1
                    prob = check_history(ctx, drv, case, rng, None, small=True)
                    ctx.count("exhaustive_short_histories")
                    if prob is not None:
                        report(ctx, drv, case, prob, rng)
                        if drv is not None:
                            drv.batch(["reset %d" % NSLOT])
                    if ctx.too_many(3) or (ctx.time_left() is not None and ctx.time_left() < 15):
                        break
    ctx.extra["operation_mix"] = {k: v for k, v in sorted(stats.items())}


def replay(ctx, case):
    drv = ctx.driver() if ctx.model_available else None
    case = dict(case)
    case["cmds"] = [fix_cmd(c) for c in case["cmds"]]
    prob = check_history(ctx, drv, case, ctx.rng, {}, full_every=True)
    if prob is not None:
        (ctx.violation if prob.kind == "violation" else ctx.disagree)(case, prob.what)
