"""C01 - Hypergraph answers every query as the abstract hypergraph of its history.

Three parties run the same generated history (commands in rank/token space):
  * REAL   hypergraphx.Hypergraph objects (public API only), labels/values/weights mapped back to ranks/tokens/quanta;
  * ORACLE `PySpec` below: the property's own words - a plain dict of nodes and a dict from node sets to
            [weight, metadata] - written independently of the Lean text;
  * MODEL  lean/Driver/C01.lean: the concrete model `C01.step` and the Lean spec `C01.Spec.step` in lock step
            (the driver prints SPECDIFF when they differ, `chk` compares `abs concrete = spec`).
REAL != ORACLE is a violation of the property (failing input = the history);  REAL != MODEL breaks the correspondence.
"""
import copy
import itertools
import signal
import warnings
from fractions import Fraction

import hgxv

RULE = ("random histories of 1-40 public calls on 2 Hypergraph slots (+1 scratch slot for constructor calls) over a universe "
        "of 3-6 labels (ints, shifted/negative ints, strings), hyperedge sizes 0-4 drawn mostly from a pool of 4-6 favourite "
        "node sets given in permuted node order, weights k/4, metadata over 4 attribute names; ~12% malformed calls "
        "(missing node/hyperedge/attribute, weight on unweighted, short weight/metadata lists, repeated members in batches, "
        "order and size together); after every call a sampled set of queries on the touched slot, after every rejected call "
        "the full observable state against the state before, at the end of a history every query with every filter "
        "order in -1..4 / size in 0..5 / up_to; thorough adds all histories of length <= 3 (unweighted; <= 2 weighted) over a "
        "26-call alphabet on 3 nodes with the boundary filters at the end. "
        "A history is distinct by its canonical command text and non-trivial when it has >= 1 accepted removal and >= 1 "
        "insertion of a hyperedge that is or was present")
ASSUMPTIONS = ["hyperedges are given as duplicate-free node tuples (the quantifier says node sets)",
               "node labels are mutually comparable and hashable; they reach the model as their rank in the label universe",
               "weights are multiples of 1/4 (float + is exact), metadata dicts are never shared between calls (deep copies)",
               "a call is 'rejected' when it raises any exception; exception classes are not compared"]
TRUSTED = ["harness/c01.py PySpec: the abstract hypergraph used as the property oracle (60 lines of dict code)",
           "label genericity: the same abstract history gives the same answers for int, shifted int and string labels "
           "(exercised: each history draws one of the label kinds, the model only sees ranks)"]
BUDGET_S = {"quick": 75, "thorough": 1300}

KEYS = ["weighted", "type", "color", "since"]          # attribute tokens 0..3
VALS = [False, True, "Hypergraph", 5, "x", 2.5, [1, 2], {"a": 1}, None, ""]   # value tokens 0..9
NSLOT = 3
ONE = 4


# ------------------------------------------------------------------------------------------------
# rendering (mirror of showAns in lean/Driver/C01.lean) and order-normalisation

def r_meta(m, empty="-"):
    return ",".join(f"{k}:{v}" for k, v in m.items()) if m else empty


def r_edge(e):
    return ",".join(str(x) for x in e) if len(e) else "_"


def r_list(xs):
    xs = list(xs)
    return ",".join(str(x) for x in xs) if xs else "-"


def r_edges(es):
    es = list(es)
    return ";".join(r_edge(e) for e in es) if es else "-"


def r_xmetas(d, rk):
    return ";".join(f"{rk(k)}={r_meta(m, '_')}" for k, m in d.items()) if d else "-"


def r_ews(d):
    return ";".join(f"{r_edge(e)}={w}" for e, w in d.items()) if d else "-"


def r_pairs(d):
    return ",".join(f"{a}:{b}" for a, b in d.items()) if d else "-"


def r_bool(b):
    return "1" if b else "0"


def norm(kind, s):
    if s in ("rej", "-") or kind == "scalar":
        return s
    if kind == "comma":
        return ",".join(sorted(s.split(",")))
    if kind == "semi":
        return ";".join(sorted(s.split(";")))
    if kind == "semimeta":
        out = []
        for ent in s.split(";"):
            x, _, m = ent.partition("=")
            out.append(x + "=" + (m if m == "_" else ",".join(sorted(m.split(",")))))
        return ";".join(sorted(out))
    raise ValueError(kind)


KIND = {"nodes": "comma", "nodesmeta": "semimeta", "checknode": "scalar", "numnodes": "scalar", "edges": "semi",
        "edgesmeta": "semimeta", "numedges": "scalar", "len": "scalar", "iter": "semi", "checkedge": "scalar",
        "weight": "scalar", "weights": "comma", "weightsdict": "semi", "incident": "semi", "neighbors": "comma",
        "degree": "scalar", "degreeseq": "comma", "degreedist": "comma", "sizes": "comma", "orders": "comma",
        "sizedist": "comma", "maxsize": "scalar", "maxorder": "scalar", "isuniform": "scalar", "isweighted": "scalar",
        "nodemeta": "comma", "edgemeta": "comma", "allnodesmeta": "semimeta", "alledgesmeta": "semimeta",
        "hmeta": "comma", "isolated": "comma", "isisolated": "scalar"}


# ------------------------------------------------------------------------------------------------
# the oracle: a plain set of nodes + a map from node sets to [weight, metadata]  (rank / token / quanta space)

class Rej(Exception):
    pass


class PySpec:
    def __init__(self, weighted=False, hm=None):
        self.w = bool(weighted)
        self.nodes = {}                      # node -> {attr: val}
        self.edges = {}                      # frozenset -> [weight, {attr: val}]
        self.hm = dict(hm or {})
        self.hm[0] = 1 if weighted else 0
        self.hm[1] = 2

    # -- mutations: each raises Rej before changing anything, or completes ---------------------
    def _add_node(self, n, md=None):
        if n not in self.nodes:
            self.nodes[n] = {}
        if not self.nodes[n]:
            self.nodes[n] = dict(md or {})

    def _add_edge(self, e, w=None, md=None):
        if not self.w and w is not None and w != ONE:
            raise Rej
        k = frozenset(e)
        if k in self.edges:
            if self.w:
                self.edges[k][0] += ONE if w is None else w
            self.edges[k][1] = dict(md or {})
        else:
            self.edges[k] = [(ONE if w is None else w) if self.w else ONE, dict(md or {})]
            for n in sorted(k):
                self._add_node(n)

    def _remove_edge(self, e):
        k = frozenset(e)
        if k not in self.edges:
            raise Rej
        del self.edges[k]

    def _remove_node(self, n, keep):
        if n not in self.nodes:
            raise Rej
        inc = [k for k in self.edges if n in k]
        if keep:
            for k in inc:
                w, md = self.edges[k]
                self._add_edge(k - {n}, w, md)
        for k in inc:
            del self.edges[k]
        del self.nodes[n]

    def do(self, c):
        """apply an operation tuple atomically; True = accepted"""
        t = copy.deepcopy(self)
        try:
            t._do(c)
        except Rej:
            return False
        self.__dict__ = t.__dict__
        return True

    def _edge_of(self, e):
        k = frozenset(e)
        if k not in self.edges:
            raise Rej
        return self.edges[k]

    def _do(self, c):
        op = c[0]
        if op == "addnode":
            self._add_node(c[1], c[2])
        elif op == "addnodes":
            if c[2] is not None and any(n not in c[2] for n in c[1]):
                raise Rej
            for n in c[1]:
                self._add_node(n, None if c[2] is None else c[2][n])
        elif op == "addedge":
            self._add_edge(c[1], c[2], c[3])
        elif op == "addedges":
            es, ws, mds = c[1], c[2], c[3]
            if ws is not None and (len(set(map(tuple, es))) != len(es) or len(ws) != len(es)):
                raise Rej
            if mds is not None and len(mds) < len(es):
                raise Rej
            if ws is not None:
                self.w = True
            for i, e in enumerate(es):
                self._add_edge(e, None if ws is None else ws[i], None if mds is None else mds[i])
        elif op == "rmedge":
            self._remove_edge(c[1])
        elif op == "rmedges":
            ks = [frozenset(e) for e in c[1]]
            if len(set(ks)) != len(ks):
                raise Rej
            for e in c[1]:
                self._remove_edge(e)
        elif op == "rmnode":
            self._remove_node(c[1], c[2])
        elif op == "rmnodes":
            if len(set(c[1])) != len(c[1]) or any(n not in self.nodes for n in c[1]):
                raise Rej
            for n in c[1]:
                self._remove_node(n, c[2])
        elif op == "setw":
            if not self.w and c[2] != ONE:
                raise Rej
            self._edge_of(c[1])[0] = c[2]
        elif op == "setnmeta":
            if c[1] not in self.nodes:
                raise Rej
            self.nodes[c[1]] = dict(c[2])
        elif op == "setemeta":
            self._edge_of(c[1])[1] = dict(c[2])
        elif op == "sethmeta":
            self.hm = dict(c[1])
        elif op == "attrh":
            self.hm[c[1]] = c[2]
        elif op == "attrn":
            if c[1] not in self.nodes:
                raise Rej
            self.nodes[c[1]][c[2]] = c[3]
        elif op == "attre":
            self._edge_of(c[1])[1][c[2]] = c[3]
        elif op == "delattrn":
            if c[1] not in self.nodes or c[2] not in self.nodes[c[1]]:
                raise Rej
            del self.nodes[c[1]][c[2]]
        elif op == "delattre":
            md = self._edge_of(c[1])[1]
            if c[2] not in md:
                raise Rej
            del md[c[2]]
        elif op == "clear":
            self.nodes, self.edges, self.hm = {}, {}, {}
        else:
            raise ValueError(op)

    # -- queries: rendered strings -------------------------------------------------------------
    @staticmethod
    def _flt(f):
        """returns predicate on a key, or None when order and size are both given"""
        o, k, up = f
        if o is not None and k is not None:
            return None
        if o is None and k is None:
            return lambda e: True
        size = k if k is not None else o + 1
        return (lambda e: len(e) <= size) if up else (lambda e: len(e) == size)

    def ask(self, q):
        name = q[0]
        E = {tuple(sorted(k)): v for k, v in self.edges.items()}
        if name == "nodes":
            return r_list(self.nodes)
        if name in ("nodesmeta", "allnodesmeta"):
            return r_xmetas(self.nodes, str)
        if name == "checknode":
            return r_bool(q[1] in self.nodes)
        if name == "numnodes":
            return str(len(self.nodes))
        if name in ("edges", "edgesmeta", "numedges", "weights", "weightsdict"):
            p = self._flt(q[1])
            if p is None:
                return "rej"
            sel = {e: v for e, v in E.items() if p(e)}
            if name == "edges":
                return r_edges(sel)
            if name == "edgesmeta":
                return r_xmetas({e: v[1] for e, v in sel.items()}, r_edge)
            if name == "numedges":
                return str(len(sel))
            if name == "weights":
                return r_list(v[0] for v in sel.values())
            return r_ews({e: v[0] for e, v in sel.items()})
        if name == "len":
            return str(len(E))
        if name == "iter":
            return r_edges(E)
        if name == "checkedge":
            return r_bool(frozenset(q[1]) in self.edges)
        if name == "weight":
            return str(self.edges[frozenset(q[1])][0]) if frozenset(q[1]) in self.edges else "rej"
        if name in ("incident", "neighbors", "degree", "isisolated"):
            n, f = q[1], (q[2][0], q[2][1], False)
            p = self._flt(f)
            if p is None or n not in self.nodes:
                return "rej"
            inc = [e for e in E if n in e and p(e)]
            nb = set(x for e in inc for x in e) - {n}
            return {"incident": lambda: r_edges(inc), "neighbors": lambda: r_list(nb), "degree": lambda: str(len(inc)),
                    "isisolated": lambda: r_bool(not nb)}[name]()
        if name in ("degreeseq", "degreedist", "isolated"):
            p = self._flt((q[1][0], q[1][1], False))
            if p is None:
                return "rej"
            deg = {n: sum(1 for e in E if n in e and p(e)) for n in self.nodes}
            if name == "degreeseq":
                return r_pairs(deg)
            if name == "degreedist":
                dist = {}
                for d in deg.values():
                    dist[d] = dist.get(d, 0) + 1
                return r_pairs(dist)
            return r_list(n for n in self.nodes if not any(n in e and p(e) and len(e) > 1 for e in E))
        if name in ("sizes", "orders", "sizedist", "maxsize", "maxorder", "isuniform"):
            sz = [len(e) for e in E]
            if name == "sizes":
                return r_list(sz)
            if name == "orders":
                return r_list(s - 1 for s in sz)
            if name == "sizedist":
                return r_pairs({s: sz.count(s) for s in sz})
            if name == "maxsize":
                return str(max(sz)) if sz else "rej"
            if name == "maxorder":
                return str(max(sz) - 1) if sz else "rej"
            return r_bool(len(set(sz)) <= 1)
        if name == "isweighted":
            return r_bool(self.w)
        if name == "nodemeta":
            return r_meta(self.nodes[q[1]]) if q[1] in self.nodes else "rej"
        if name == "edgemeta":
            return r_meta(self.edges[frozenset(q[1])][1]) if frozenset(q[1]) in self.edges else "rej"
        if name == "alledgesmeta":
            return r_xmetas({e: v[1] for e, v in E.items()}, r_edge)
        if name == "hmeta":
            return r_meta(self.hm)
        raise ValueError(name)

    def digest(self):
        return (self.w, sorted(self.nodes.items()), sorted((sorted(k), v) for k, v in self.edges.items()), sorted(self.hm.items()))


# ------------------------------------------------------------------------------------------------
# the real objects

class Real:
    """one history's label universe + the slots of real Hypergraph objects"""

    def __init__(self, labels):
        from hypergraphx import Hypergraph
        self.H = Hypergraph
        self.labels = list(labels)                      # rank -> label
        self.rank = {x: i for i, x in enumerate(self.labels)}
        with warnings.catch_warnings():
            warnings.simplefilter("ignore")
            self.slots = [Hypergraph() for _ in range(NSLOT)]

    # conversions model space -> python
    def lab(self, n):
        return self.labels[n]

    def edge(self, e):
        return tuple(self.labels[n] for n in e)

    @staticmethod
    def md(m):
        return None if m is None else {KEYS[k]: copy.deepcopy(VALS[v]) for k, v in m.items()}

    @staticmethod
    def wt(q, flip=0):
        if q is None:
            return None
        if q % 4 == 0 and flip % 2 == 0:
            return q // 4
        return q / 4

    # conversions python -> model space (anything unexpected becomes a marker that cannot match)
    def rk(self, x):
        try:
            return self.rank.get(x, f"?{x!r}")
        except TypeError:
            return f"?{x!r}"

    def redge(self, e):
        try:
            return tuple(sorted(self.rk(x) for x in e))
        except TypeError:
            return ("?unsortable",) + tuple(str(self.rk(x)) for x in e)

    @staticmethod
    def rmd(m):
        if not isinstance(m, dict):
            return {"?": repr(m)}
        out = {}
        for k, v in m.items():
            kt = KEYS.index(k) if k in KEYS else f"?{k!r}"
            vt = next((i for i, x in enumerate(VALS) if type(x) is type(v) and x == v), f"?{v!r}")
            out[kt] = vt
        return out

    @staticmethod
    def rw(w):
        try:
            q = Fraction(w) * 4
            return int(q) if q.denominator == 1 else f"?{w!r}"
        except Exception:
            return f"?{w!r}"

    # commands -------------------------------------------------------------------------------
    def do(self, i, c):
        """run one operation tuple on slot i; True = returned, False = raised"""
        h = self.slots[i]
        op = c[0]
        try:
            with warnings.catch_warnings():
                warnings.simplefilter("ignore")
                if op == "addnode":
                    h.add_node(self.lab(c[1])) if c[2] is None else h.add_node(self.lab(c[1]), metadata=self.md(c[2]))
                elif op == "addnodes":
                    ns = [self.lab(n) for n in c[1]]
                    if c[2] is None:
                        h.add_nodes(ns)
                    else:
                        h.add_nodes(ns, metadata={self.lab(n): self.md(m) for n, m in c[2].items()})
                elif op == "addedge":
                    kw = {}
                    if c[2] is not None:
                        kw["weight"] = self.wt(c[2], len(c[1]))
                    if c[3] is not None:
                        kw["metadata"] = self.md(c[3])
                    h.add_edge(self.edge(c[1]), **kw)
                elif op == "addedges":
                    kw = {}
                    if c[2] is not None:
                        kw["weights"] = [self.wt(w, j) for j, w in enumerate(c[2])]
                    if c[3] is not None:
                        kw["metadata"] = [self.md(m) for m in c[3]]
                    h.add_edges([self.edge(e) for e in c[1]], **kw)
                elif op == "rmedge":
                    h.remove_edge(self.edge(c[1]))
                elif op == "rmedges":
                    h.remove_edges([self.edge(e) for e in c[1]])
                elif op == "rmnode":
                    h.remove_node(self.lab(c[1]), keep_edges=c[2]) if c[2] else h.remove_node(self.lab(c[1]))
                elif op == "rmnodes":
                    h.remove_nodes([self.lab(n) for n in c[1]], keep_edges=c[2])
                elif op == "setw":
                    h.set_weight(self.edge(c[1]), self.wt(c[2], len(c[1])))
                elif op == "setnmeta":
                    h.set_node_metadata(self.lab(c[1]), self.md(c[2]))
                elif op == "setemeta":
                    h.set_edge_metadata(self.edge(c[1]), self.md(c[2]))
                elif op == "sethmeta":
                    h.set_hypergraph_metadata(self.md(c[1]))
                elif op == "attrh":
                    h.set_attr_to_hypergraph_metadata(KEYS[c[1]], copy.deepcopy(VALS[c[2]]))
                elif op == "attrn":
                    h.set_attr_to_node_metadata(self.lab(c[1]), KEYS[c[2]], copy.deepcopy(VALS[c[3]]))
                elif op == "attre":
                    h.set_attr_to_edge_metadata(self.edge(c[1]), KEYS[c[2]], copy.deepcopy(VALS[c[3]]))
                elif op == "delattrn":
                    h.remove_attr_from_node_metadata(self.lab(c[1]), KEYS[c[2]])
                elif op == "delattre":
                    h.remove_attr_from_edge_metadata(self.edge(c[1]), KEYS[c[2]])
                elif op == "clear":
                    h.clear()
                else:
                    raise ValueError(op)
            return True
        except AlarmTimeout:
            raise
        except Exception:
            return False

    def new(self, i, weighted, hm):
        try:
            with warnings.catch_warnings():
                warnings.simplefilter("ignore")
                self.slots[i] = self.H(weighted=weighted, hypergraph_metadata=self.md(hm) if hm else None) \
                    if (hm or weighted) else self.H()
            return True
        except AlarmTimeout:
            raise
        except Exception:
            return False

    def construct(self, i, weighted, hm, nmeta, es, ws, mds):
        """Hypergraph(edge_list=..., weighted=..., weights=..., hypergraph_metadata=..., node_metadata=..., edge_metadata=...)"""
        try:
            with warnings.catch_warnings():
                warnings.simplefilter("ignore")
                h = self.H(edge_list=[self.edge(e) for e in es] if es is not None else None, weighted=weighted,
                           weights=None if ws is None else [self.wt(w, j) for j, w in enumerate(ws)],
                           hypergraph_metadata=self.md(hm) if hm else None,
                           node_metadata=None if nmeta is None else {self.lab(n): self.md(m) for n, m in nmeta.items()},
                           edge_metadata=None if mds is None else [self.md(m) for m in mds])
            self.slots[i] = h
            return True
        except AlarmTimeout:
            raise
        except Exception:
            return False

    def copy(self, i, j):
        try:
            self.slots[j] = self.slots[i].copy()
            return True
        except AlarmTimeout:
            raise
        except Exception:
            return False

    # queries --------------------------------------------------------------------------------
    @staticmethod
    def _fkw(f, with_upto=True):
        kw = {}
        if f[0] is not None:
            kw["order"] = f[0]
        if f[1] is not None:
            kw["size"] = f[1]
        if with_upto and f[2]:
            kw["up_to"] = True
        return kw

    def ask(self, i, q):
        try:
            return self._ask(self.slots[i], q)
        except AlarmTimeout:
            raise
        except Exception:
            return "rej"

    def _ask(self, h, q):
        from hypergraphx.measures.degree import degree, degree_sequence, degree_distribution
        name = q[0]
        if name == "nodes":
            return r_list(self.rk(x) for x in h.get_nodes())
        if name == "nodesmeta":
            return r_xmetas({self.rk(n): self.rmd(m) for n, m in h.get_nodes(metadata=True).items()}, str)
        if name == "checknode":
            return r_bool(h.check_node(self.lab(q[1])))
        if name == "numnodes":
            return str(h.num_nodes())
        if name == "edges":
            return r_edges(self.redge(e) for e in h.get_edges(**self._fkw(q[1])))
        if name == "edgesmeta":
            return r_xmetas({self.redge(e): self.rmd(m) for e, m in h.get_edges(metadata=True, **self._fkw(q[1])).items()}, r_edge)
        if name == "numedges":
            return str(h.num_edges(**self._fkw(q[1])))
        if name == "len":
            return str(len(h))
        if name == "iter":
            items = list(iter(h))
            ids = [b for _, b in items]
            if len(set(ids)) != len(ids):
                return "?edge ids not distinct"
            return r_edges(self.redge(e) for e, _ in items)
        if name == "checkedge":
            return r_bool(h.check_edge(self.edge(q[1])))
        if name == "weight":
            return str(self.rw(h.get_weight(self.edge(q[1]))))
        if name == "weights":
            return r_list(self.rw(w) for w in h.get_weights(**self._fkw(q[1])))
        if name == "weightsdict":
            return r_ews({self.redge(e): self.rw(w) for e, w in h.get_weights(asdict=True, **self._fkw(q[1])).items()})
        if name == "incident":
            return r_edges(self.redge(e) for e in h.get_incident_edges(self.lab(q[1]), **self._fkw(q[2], False)))
        if name == "neighbors":
            return r_list(self.rk(x) for x in h.get_neighbors(self.lab(q[1]), **self._fkw(q[2], False)))
        if name == "degree":
            a = degree(h, self.lab(q[1]), **self._fkw(q[2], False))
            b = h.degree(self.lab(q[1]), **self._fkw(q[2], False))
            return str(a) if a == b else f"?degree {a} vs method {b}"
        if name == "degreeseq":
            a = degree_sequence(h, **self._fkw(q[1], False))
            b = h.degree_sequence(**self._fkw(q[1], False))
            return r_pairs({self.rk(n): d for n, d in a.items()}) if a == b else "?degree_sequence differs from method"
        if name == "degreedist":
            a = degree_distribution(h, **self._fkw(q[1], False))
            b = h.degree_distribution(**self._fkw(q[1], False))
            return r_pairs(a) if a == b else "?degree_distribution differs from method"
        if name == "sizes":
            return r_list(h.get_sizes())
        if name == "orders":
            return r_list(h.get_orders())
        if name == "sizedist":
            return r_pairs(h.distribution_sizes())
        if name == "maxsize":
            return str(h.max_size())
        if name == "maxorder":
            return str(h.max_order())
        if name == "isuniform":
            return r_bool(h.is_uniform())
        if name == "isweighted":
            return r_bool(h.is_weighted())
        if name == "nodemeta":
            return r_meta(self.rmd(h.get_node_metadata(self.lab(q[1]))))
        if name == "edgemeta":
            return r_meta(self.rmd(h.get_edge_metadata(self.edge(q[1]))))
        if name == "allnodesmeta":
            return r_xmetas({self.rk(n): self.rmd(m) for n, m in h.get_all_nodes_metadata().items()}, str)
        if name == "alledgesmeta":
            # the table is keyed by edge id; ids are public through __iter__: join them
            tab = h.get_all_edges_metadata()
            items = list(iter(h))
            if sorted(tab, key=repr) != sorted((b for _, b in items), key=repr):
                return "?edge metadata table keys differ from the ids of __iter__"
            return r_xmetas({self.redge(e): self.rmd(tab[b]) for e, b in items}, r_edge)
        if name == "hmeta":
            return r_meta(self.rmd(h.get_hypergraph_metadata()))
        if name == "isolated":
            return r_list(self.rk(x) for x in h.isolated_nodes(**self._fkw(q[1], False)))
        if name == "isisolated":
            return r_bool(h.is_isolated(self.lab(q[1]), **self._fkw(q[2], False)))
        raise ValueError(name)

    def str_ok(self, i):
        """__str__ is derived from num_nodes / num_edges / distribution_sizes"""
        import ast
        h = self.slots[i]
        try:
            s = str(h)
            head, _, tail = s.partition("\n")
            d = ast.literal_eval(tail[len("Distribution of hyperedge sizes: "):])
            return head == f"Hypergraph with {h.num_nodes()} nodes and {h.num_edges()} edges." and d == h.distribution_sizes()
        except AlarmTimeout:
            raise
        except Exception:
            return False


class AlarmTimeout(Exception):
    pass


def _alarm(signum, frame):
    raise AlarmTimeout()


# ------------------------------------------------------------------------------------------------
# wire lines

def w_opt(x, f):
    return "~" if x is None else f(x)


def w_meta(m, empty="-"):
    return r_meta(m, empty)


def w_nats(xs):
    return ",".join(str(x) for x in xs) if len(xs) else "-"


def w_natss(xss):
    return ";".join((",".join(str(x) for x in xs) if len(xs) else "_") for xs in xss) if len(xss) else "-"


def w_filter(f):
    return f"{w_opt(f[0], str)} {w_opt(f[1], str)} {1 if f[2] else 0}"


def op_line(i, c):
    op = c[0]
    if op == "addnode":
        a = f"{c[1]} {w_opt(c[2], w_meta)}"
    elif op == "addnodes":
        a = f"{w_nats(c[1])} " + w_opt(c[2], lambda d: ";".join(f"{n}={w_meta(m, '_')}" for n, m in d.items()) if d else "-")
    elif op == "addedge":
        a = f"{w_nats(c[1])} {w_opt(c[2], str)} {w_opt(c[3], w_meta)}"
    elif op == "addedges":
        a = (f"{w_natss(c[1])} {w_opt(c[2], w_nats)} "
             + w_opt(c[3], lambda l: ";".join(w_meta(m, "_") for m in l) if l else "-"))
    elif op in ("rmedge",):
        a = w_nats(c[1])
    elif op == "rmedges":
        a = w_natss(c[1])
    elif op == "rmnode":
        a = f"{c[1]} {1 if c[2] else 0}"
    elif op == "rmnodes":
        a = f"{w_nats(c[1])} {1 if c[2] else 0}"
    elif op == "setw":
        a = f"{w_nats(c[1])} {c[2]}"
    elif op == "setnmeta":
        a = f"{c[1]} {w_meta(c[2])}"
    elif op == "setemeta":
        a = f"{w_nats(c[1])} {w_meta(c[2])}"
    elif op == "sethmeta":
        a = w_meta(c[1])
    elif op == "attrh":
        a = f"{c[1]} {c[2]}"
    elif op == "attrn":
        a = f"{c[1]} {c[2]} {c[3]}"
    elif op == "attre":
        a = f"{w_nats(c[1])} {c[2]} {c[3]}"
    elif op == "delattrn":
        a = f"{c[1]} {c[2]}"
    elif op == "delattre":
        a = f"{w_nats(c[1])} {c[2]}"
    elif op == "clear":
        return f"op {i} clear"
    else:
        raise ValueError(op)
    return f"op {i} {op} {a}"


def q_line(i, q):
    name = q[0]
    if name in ("checknode", "nodemeta"):
        return f"q {i} {name} {q[1]}"
    if name in ("checkedge", "weight", "edgemeta"):
        return f"q {i} {name} {w_nats(q[1])}"
    if name in ("edges", "edgesmeta", "numedges", "weights", "weightsdict", "degreeseq", "degreedist", "isolated"):
        return f"q {i} {name} {w_filter(q[1])}"
    if name in ("incident", "neighbors", "degree", "isisolated"):
        return f"q {i} {name} {q[1]} {w_filter(q[2])}"
    return f"q {i} {name}"


# ------------------------------------------------------------------------------------------------
# query sets

PLAIN = ["nodes", "nodesmeta", "numnodes", "len", "iter", "sizes", "orders", "sizedist", "maxsize", "maxorder",
         "isuniform", "isweighted", "allnodesmeta", "alledgesmeta", "hmeta"]
EDGE_F = ["edges", "edgesmeta", "numedges", "weights", "weightsdict"]
NODE_F = ["incident", "neighbors", "degree", "isisolated"]
ALLN_F = ["degreeseq", "degreedist", "isolated"]
FILTERS = [(None, None)] + [(o, None) for o in range(-1, 5)] + [(None, k) for k in range(0, 6)]


def full_queries(n_nodes, pool):
    qs = [(p,) for p in PLAIN]
    for f in FILTERS + [(1, 2)]:
        for up in (False, True):
            for name in EDGE_F:
                qs.append((name, (f[0], f[1], up)))
        for name in ALLN_F:
            qs.append((name, (f[0], f[1], False)))
        for n in range(n_nodes):
            for name in NODE_F:
                qs.append((name, n, (f[0], f[1], False)))
    for n in range(n_nodes):
        qs += [("checknode", n), ("nodemeta", n)]
    for e in pool:
        for name in ("checkedge", "weight", "edgemeta"):
            qs.append((name, tuple(e)))
            qs.append((name, tuple(reversed(e))))
    return qs


def medium_queries(n_nodes, pool):
    """every query, unfiltered and with the boundary filters; used at the end of the exhaustive short histories"""
    qs = [(p,) for p in PLAIN]
    for f in [(None, None), (0, None), (None, 1), (None, 0), (1, None), (None, 3), (1, 2)]:
        for up in (False, True):
            for name in ("edges", "numedges", "weightsdict"):
                qs.append((name, (f[0], f[1], up)))
        for name in ALLN_F:
            qs.append((name, (f[0], f[1], False)))
        for n in range(n_nodes):
            qs.append(("incident", n, (f[0], f[1], False)))
    for n in range(n_nodes):
        qs += [("checknode", n), ("nodemeta", n), ("neighbors", n, (None, None, False)), ("isisolated", n, (None, None, False))]
    for e in pool:
        qs += [("checkedge", tuple(reversed(e))), ("weight", tuple(e)), ("edgemeta", tuple(e))]
    return qs


def light_queries(rng, n_nodes, pool):
    qs = [(p,) for p in PLAIN]
    fs = [(None, None, False)] + [rng.choice(FILTERS) + (rng.random() < 0.5,) for _ in range(2)]
    fs.append(rng.choice([(0, None), (None, 1), (None, 0), (-1, None), (4, None), (None, 5)]) + (rng.random() < 0.5,))
    if rng.random() < 0.1:
        fs.append((rng.randint(0, 3), rng.randint(1, 4), False))
    for f in fs:
        for name in EDGE_F:
            qs.append((name, f))
        for name in ALLN_F:
            qs.append((name, (f[0], f[1], False)))
    for n in range(n_nodes):
        qs += [("checknode", n), ("nodemeta", n)]
        f = rng.choice(fs)
        for name in NODE_F:
            qs.append((name, n, (f[0], f[1], False)))
    for e in pool:
        p = list(e)
        rng.shuffle(p)
        qs += [("checkedge", tuple(p)), ("weight", tuple(p)), ("edgemeta", tuple(p))]
    return qs


# ------------------------------------------------------------------------------------------------
# generation

def gen_labels(rng, n):
    kind = rng.choice(["int", "shift", "neg", "str", "str2"])
    if kind == "int":
        return kind, list(range(n))
    if kind == "shift":
        return kind, sorted(rng.sample(range(100, 160), n))
    if kind == "neg":
        return kind, sorted(rng.sample(range(-20, 20), n))
    if kind == "str":
        return kind, sorted(rng.sample(["a", "b", "c", "d", "e", "f", "g", "h", "aa", "ab", "B", "Z"], n))
    return kind, sorted(rng.sample(["n10", "n9", "n1", "x", "y", "E1", "E", "", " ", "10", "9"], n))


def gen_meta(rng, allow_none=True):
    r = rng.random()
    if allow_none and r < 0.45:
        return None
    k = rng.choice([0, 1, 1, 1, 2])
    ks = rng.sample(range(len(KEYS)), k)
    return {a: rng.randrange(len(VALS)) for a in ks}


def gen_weight(rng):
    return rng.choice([2, 4, 4, 6, 8, 8, 12, 1, 0, -4])


def perm(rng, e):
    e = list(e)
    rng.shuffle(e)
    return tuple(e)


class Gen:
    def __init__(self, rng):
        self.rng = rng
        self.n = rng.randint(3, 6)
        self.kind, self.labels = gen_labels(rng, self.n)
        pool = set()
        for _ in range(rng.randint(4, 6)):
            k = rng.choice([0, 1, 1, 2, 2, 2, 3, 3, 3, 4])
            pool.add(tuple(sorted(rng.sample(range(self.n), min(k, self.n)))))
        self.pool = sorted(pool)
        # one nested pair (e and e minus a node) so that shrink-merge is likely
        big = [e for e in self.pool if len(e) >= 2]
        if big:
            e = rng.choice(big)
            self.pool.append(tuple(x for x in e if x != rng.choice(e)))
            self.pool = sorted(set(self.pool))

    def edge(self, spec=None, present=None):
        rng = self.rng
        r = rng.random()
        if present is not None and spec is not None and spec.edges and r < (0.8 if present else 0.0):
            return perm(rng, rng.choice(sorted(map(sorted, spec.edges))))
        if r < 0.85:
            return perm(rng, rng.choice(self.pool))
        k = rng.choice([0, 1, 2, 2, 3, 3, 4])
        return tuple(rng.sample(range(self.n), min(k, self.n)))

    def node(self, spec=None, present=True):
        rng = self.rng
        if spec is not None and spec.nodes and rng.random() < (0.88 if present else 0.3):
            return rng.choice(sorted(spec.nodes))
        return rng.randrange(self.n)

    def op(self, spec):
        """one operation for a slot whose oracle state is `spec`"""
        rng = self.rng
        r = rng.random() * 100
        bad = rng.random() < 0.12
        if r < 22:
            if spec.w:
                w = None if rng.random() < 0.15 else gen_weight(rng)
            else:
                w = rng.choice([None, None, None, None, ONE]) if not bad else rng.choice([2, 8, 6])
            return ("addedge", self.edge(spec, present=rng.random() < 0.35), w, gen_meta(rng))
        if r < 30:
            k = rng.choice([0, 1, 1, 2, 2, 3, 4])
            es = [self.edge(spec, present=rng.random() < 0.3) for _ in range(k)]
            mode = rng.random()
            ws = None
            if mode < (0.75 if spec.w else 0.15):
                # raw tuples must be distinct when weights are given
                seen, es2 = set(), []
                for e in es:
                    if e not in seen:
                        seen.add(e)
                        es2.append(e)
                es = es2
                ws = [gen_weight(rng) for _ in es]
                if bad:
                    b = rng.random()
                    if b < 0.4 and ws:
                        ws = ws[:-1]
                    elif b < 0.7:
                        ws = ws + [4]
                    elif es:
                        es = es + [es[0]]
                        ws = ws + [4]
            mds = None
            if rng.random() < 0.4:
                mds = [gen_meta(rng, allow_none=False) for _ in es]
                if rng.random() < 0.15 and mds:
                    mds = mds[:-1]
                elif rng.random() < 0.1:
                    mds = mds + [{}]
            return ("addedges", es, ws, mds)
        if r < 40:
            return ("rmedge", self.edge(spec, present=not bad))
        if r < 45:
            ks = sorted(map(sorted, spec.edges))
            rng.shuffle(ks)
            es = [perm(rng, e) for e in ks[:rng.randint(0, 3)]]
            if bad:
                if es and rng.random() < 0.5:
                    es.append(perm(rng, es[0]))
                else:
                    es.insert(rng.randint(0, len(es)), self.edge())
            return ("rmedges", es)
        if r < 54:
            return ("rmnode", self.node(spec, not bad), rng.random() < 0.55)
        if r < 58:
            ns = sorted(spec.nodes)
            rng.shuffle(ns)
            ns = ns[:rng.randint(0, 3)]
            if bad:
                if ns and rng.random() < 0.5:
                    ns.append(ns[0])
                else:
                    ns.insert(rng.randint(0, len(ns)), rng.randrange(self.n))
            return ("rmnodes", ns, rng.random() < 0.5)
        if r < 64:
            return ("addnode", rng.randrange(self.n), gen_meta(rng))
        if r < 68:
            ns = [rng.randrange(self.n) for _ in range(rng.randint(0, 4))]
            mds = None
            if rng.random() < 0.6:
                mds = {n: gen_meta(rng, allow_none=False) for n in set(ns)}
                if bad and mds:
                    del mds[rng.choice(sorted(mds))]
                elif rng.random() < 0.2:
                    mds[rng.randrange(self.n)] = {}
            return ("addnodes", ns, mds)
        if r < 74:
            w = gen_weight(rng) if (spec.w or bad) else ONE
            return ("setw", self.edge(spec, present=not bad), w)
        if r < 77:
            return ("setnmeta", self.node(spec, not bad), gen_meta(rng, allow_none=False))
        if r < 80:
            return ("setemeta", self.edge(spec, present=not bad), gen_meta(rng, allow_none=False))
        if r < 81:
            return ("sethmeta", gen_meta(rng, allow_none=False))
        if r < 83:
            return ("attrh", rng.randrange(len(KEYS)), rng.randrange(len(VALS)))
        if r < 87:
            return ("attrn", self.node(spec, not bad), rng.randrange(len(KEYS)), rng.randrange(len(VALS)))
        if r < 91:
            return ("attre", self.edge(spec, present=not bad), rng.randrange(len(KEYS)), rng.randrange(len(VALS)))
        if r < 94:
            n = self.node(spec, not bad)
            ks = sorted(spec.nodes.get(n, {}))
            return ("delattrn", n, rng.choice(ks) if ks and rng.random() < 0.8 else rng.randrange(len(KEYS)))
        if r < 98:
            e = self.edge(spec, present=not bad)
            ks = sorted(spec.edges.get(frozenset(e), [0, {}])[1])
            return ("delattre", e, rng.choice(ks) if ks and rng.random() < 0.8 else rng.randrange(len(KEYS)))
        return ("clear",)

    def command(self, specs):
        """('on', i, op) | ('new', i, w, hm) | ('copy', i, j) | ('ctor', i, w, hm, nmeta, es, ws, mds)"""
        rng = self.rng
        r = rng.random()
        if r < 0.035:
            i, j = rng.sample(range(2), 2)
            return ("copy", i, j)
        if r < 0.05:
            return ("new", rng.randrange(2), rng.random() < 0.5, gen_meta(rng, allow_none=False) if rng.random() < 0.4 else {})
        if r < 0.07:
            w = rng.random() < 0.5
            es = [self.edge() for _ in range(rng.randint(0, 4))]
            es = list(dict.fromkeys(es))
            ws = None
            if rng.random() < (0.8 if w else 0.15):
                ws = [gen_weight(rng) for _ in es]
                if rng.random() < 0.2 and ws:
                    ws = ws[:-1]
            mds = [gen_meta(rng, allow_none=False) for _ in es] if rng.random() < 0.3 else None
            nmeta = {n: gen_meta(rng, allow_none=False) for n in rng.sample(range(self.n), rng.randint(0, 2))} \
                if rng.random() < 0.4 else None
            return ("ctor", rng.randrange(2), w, gen_meta(rng, allow_none=False) if rng.random() < 0.3 else {}, nmeta,
                    es if (es or rng.random() < 0.5) else None, ws, mds)
        i = 0 if rng.random() < 0.75 else 1
        return ("on", i, self.op(specs[i]))


# ------------------------------------------------------------------------------------------------
# running one history

def tup(x):
    """JSON round trip: lists back to tuples for hyperedges is not needed (we index only); dict keys back to int"""
    return x


def fix_cmd(c):
    """normalise a command read back from JSON (dict keys became strings)"""
    def fm(m):
        return None if m is None else {int(k): v for k, v in m.items()}
    c = list(c)
    if c[0] == "on":
        o = list(c[2])
        if o[0] == "addnode":
            o[2] = fm(o[2])
        elif o[0] == "addnodes":
            o[2] = None if o[2] is None else {int(k): fm(v) for k, v in o[2].items()}
        elif o[0] == "addedge":
            o[1] = tuple(o[1]); o[3] = fm(o[3])
        elif o[0] == "addedges":
            o[1] = [tuple(e) for e in o[1]]; o[3] = None if o[3] is None else [fm(m) for m in o[3]]
        elif o[0] in ("rmedge", "setw", "attre", "delattre"):
            o[1] = tuple(o[1])
        elif o[0] == "rmedges":
            o[1] = [tuple(e) for e in o[1]]
        elif o[0] == "setnmeta":
            o[2] = fm(o[2])
        elif o[0] == "setemeta":
            o[1] = tuple(o[1]); o[2] = fm(o[2])
        elif o[0] == "sethmeta":
            o[1] = fm(o[1])
        c[2] = tuple(o)
    elif c[0] == "new":
        c[3] = fm(c[3]) or {}
    elif c[0] == "ctor":
        c[3] = fm(c[3]) or {}
        c[4] = None if c[4] is None else {int(k): fm(v) for k, v in c[4].items()}
        c[5] = None if c[5] is None else [tuple(e) for e in c[5]]
        c[7] = None if c[7] is None else [fm(m) for m in c[7]]
    return tuple(c)


def ctor_lines(c):
    """the constructor call as model commands on the scratch slot 2, then `copy 2 i`"""
    _, i, w, hm, nmeta, es, ws, mds = c
    lines = [f"new 2 {1 if w else 0} {w_meta(hm)}"]
    for n, m in (nmeta or {}).items():
        lines.append(op_line(2, ("addnode", n, m)))
    if es:
        lines.append(op_line(2, ("addedges", es, ws, mds)))
    lines.append(f"copy 2 {i}")
    return lines


def ctor_spec(c):
    _, i, w, hm, nmeta, es, ws, mds = c
    s = PySpec(w, hm)
    for n, m in (nmeta or {}).items():
        s._add_node(n, m)
    if es:
        if not s.do(("addedges", es, ws, mds)):
            return None
    return s


class Problem(Exception):
    def __init__(self, kind, what, step):
        self.kind, self.what, self.step = kind, what, step


def run_history(case, drv, rng, stats=None, full_every=False, small=False):
    """Runs the commands of `case` on REAL, ORACLE and MODEL.  Raises Problem at the first difference.
    Returns facts about the history (for the non-triviality rule)."""
    labels, cmds, n, pool = case["labels"], case["cmds"], len(case["labels"]), [tuple(e) for e in case["pool"]]
    real = Real(labels)
    specs = [PySpec() for _ in range(NSLOT)]
    lines, expect = ["reset %d" % NSLOT], [("ctl", "ok", None)]
    facts = {"removal": False, "reinsertion": False, "rejected": 0, "accepted": 0, "merge": False}
    ever = [set(), set()]

    def flush(step):
        if drv is None:
            lines.clear(); expect.clear()
            return
        ans = drv.batch(lines)
        for ln, a, (kind, want, qname) in zip(lines, ans, expect):
            if a.startswith("SPECDIFF"):
                raise Problem("disagree", f"Lean concrete model and Lean spec differ on {ln!r}: {a}", step)
            got = a if kind != "q" else norm(KIND[qname], a)
            if got != want:
                raise Problem("disagree", f"model answers {a!r} to {ln!r}, implementation gives {want!r}", step)
        lines.clear(); expect.clear()

    def queries(i, qs, step):
        for q in qs:
            kind = KIND[q[0]]
            r = norm(kind, real.ask(i, q))
            o = norm(kind, specs[i].ask(q))
            if r != o:
                raise Problem("violation", f"after step {step} query {q_line(i, q)!r}: implementation answers {r!r}, "
                                           f"the abstract hypergraph of the history gives {o!r}", step)
            lines.append(q_line(i, q)); expect.append(("q", r, q[0]))
        # filter laws on the implementation itself: size=k is order=k-1
        if not real.str_ok(i):
            raise Problem("violation", f"after step {step}: str() does not report num_nodes/num_edges/distribution_sizes", step)
        lines.append(f"chk {i}"); expect.append(("ctl", "1", None))

    for step, c in enumerate(cmds):
        touched = None
        if c[0] == "on":
            _, i, op = c
            before = [copy.deepcopy(specs[i].digest())]
            if op[0] in ("addedge", "addedges"):
                es = [op[1]] if op[0] == "addedge" else op[1]
                if any(frozenset(e) in ever[i] for e in es if i < 2):
                    facts["reinsertion_try"] = True
            r_ok = real.do(i, op)
            o_ok = specs[i].do(op)
            lines.append(op_line(i, op)); expect.append(("ctl", "ok" if r_ok else "rej", None))
            if r_ok != o_ok:
                raise Problem("violation", f"step {step} {op_line(i, op)!r}: implementation "
                              f"{'accepts' if r_ok else 'rejects'}, the abstract hypergraph {'accepts' if o_ok else 'rejects'}", step)
            if stats is not None:
                stats["op:" + op[0]] = stats.get("op:" + op[0], 0) + 1
                stats["accepted" if r_ok else "rejected"] = stats.get("accepted" if r_ok else "rejected", 0) + 1
            if r_ok:
                facts["accepted"] += 1
                if op[0] in ("rmedge", "rmedges", "rmnode", "rmnodes") and specs[i].digest()[2] != before[0][2]:
                    facts["removal"] = True
                if facts.pop("reinsertion_try", False):
                    facts["reinsertion"] = True
                if op[0] in ("rmnode", "rmnodes") and op[2] and i < 2:
                    # shrink-merge: fewer hyperedges lost than the removed node(s) would account for is hard to see;
                    # record when a kept hyperedge met an existing one
                    facts["merge"] = facts["merge"] or (len(specs[i].edges) < len(before[0][2]))
                if i < 2:
                    ever[i] |= set(specs[i].edges)
            else:
                facts["rejected"] += 1
                facts.pop("reinsertion_try", None)
            touched = i
            if small:
                qs = medium_queries(n, pool) if not r_ok else []
            else:
                qs = full_queries(n, pool) if (not r_ok or full_every) else light_queries(rng, n, pool)
            queries(i, qs, step)   # after a rejected call the oracle state is the state before: full comparison
        elif c[0] == "new":
            _, i, w, hm = c
            ok = real.new(i, w, hm)
            specs[i] = PySpec(w, hm)
            if i < 2:
                ever[i] = set()
            lines.append(f"new {i} {1 if w else 0} {w_meta(hm)}"); expect.append(("ctl", "ok" if ok else "rej", None))
            if not ok:
                raise Problem("violation", f"step {step}: Hypergraph(weighted={w}, hypergraph_metadata=...) raised", step)
            queries(i, light_queries(rng, n, pool), step)
        elif c[0] == "copy":
            _, i, j = c
            ok = real.copy(i, j)
            specs[j] = copy.deepcopy(specs[i])
            if j < 2:
                ever[j] = set(ever[i]) if i < 2 else set()
            lines.append(f"copy {i} {j}"); expect.append(("ctl", "ok" if ok else "rej", None))
            if not ok:
                raise Problem("violation", f"step {step}: copy() raised", step)
            queries(j, light_queries(rng, n, pool), step)
            queries(i, light_queries(rng, n, pool), step)
        elif c[0] == "ctor":
            i = c[1]
            ok = real.construct(i, *c[2:])
            s = ctor_spec(c)
            if ok != (s is not None):
                raise Problem("violation", f"step {step}: constructor {'returned' if ok else 'raised'} but the same calls on "
                              f"the abstract hypergraph are {'rejected' if ok else 'accepted'}: {c!r}", step)
            cl = ctor_lines(c)
            if ok:
                specs[i] = s
                if i < 2:
                    ever[i] = set(s.edges)
                for ln in cl:
                    lines.append(ln); expect.append(("ctl", "ok", None))
            else:
                # the model must reject one of the calls; the target slot keeps its content
                if drv is not None:
                    flush(step)
                    outs = []
                    for ln in cl[:-1]:
                        outs.append(drv.ask(ln))
                        if outs[-1] != "ok":
                            break
                    if outs[-1] != "rej":
                        raise Problem("disagree", f"constructor raised, model accepts every call of {cl!r}", step)
            queries(i, light_queries(rng, n, pool), step)
        else:
            raise ValueError(c[0])
        flush(step)
    if small:
        queries(0, medium_queries(n, pool), len(cmds))
    else:
        for i in range(2):
            queries(i, full_queries(n, pool), len(cmds))
    flush(len(cmds))
    return facts


def check_history(ctx, drv, case, rng, stats, full_every=False, record=True, small=False):
    """returns None or a Problem"""
    signal.signal(signal.SIGALRM, _alarm)
    signal.alarm(20)
    try:
        facts = run_history(case, drv, rng, stats, full_every, small)
        prob = None
    except Problem as p:
        prob, facts = p, None
    except AlarmTimeout:
        prob, facts = Problem("violation", "a call of the history did not return within 20 s", -1), None
    finally:
        signal.alarm(0)
    if record and facts is not None:
        key = repr((case["n"], case["cmds"]))
        ctx.case(key, facts["removal"] and facts["reinsertion"], sample=case)
        for k in ("removal", "reinsertion", "merge"):
            if facts[k]:
                ctx.count("histories_with_" + k)
        ctx.count("histories_with_rejection", 1 if facts["rejected"] else 0)
    return prob


def shrink(ctx, drv, case, prob, rng):
    """greedy removal of commands while a problem of the same kind remains (bounded)"""
    cmds = list(case["cmds"])
    if prob.step >= 0:
        cmds = cmds[:prob.step + 1]
    best = dict(case, cmds=cmds)
    tries = 0
    changed = True
    while changed and tries < 150 and (ctx.time_left() is None or ctx.time_left() > 20):
        changed = False
        for k in range(len(best["cmds"]) - 1, -1, -1):
            cand = dict(best, cmds=best["cmds"][:k] + best["cmds"][k + 1:])
            tries += 1
            p = check_history(ctx, drv if prob.kind == "disagree" else None, cand, rng, None, full_every=True, record=False)
            if drv is not None and prob.kind == "disagree":
                pass
            if p is not None and p.kind == prob.kind:
                best, prob, changed = cand, p, True
                break
    return best, prob


def report(ctx, drv, case, prob, rng):
    if prob.step < 0:      # a hang: do not re-run it while shrinking
        ctx.violation(case, prob.what)
        return
    try:
        if drv is not None:
            drv.batch(["reset %d" % NSLOT])
        case2, prob2 = shrink(ctx, drv, case, prob, rng)
    except Exception:
        case2, prob2 = case, prob
    (ctx.violation if prob2.kind == "violation" else ctx.disagree)(case2, prob2.what)


def gen_case(rng, max_len=40):
    g = Gen(rng)
    specs = [PySpec() for _ in range(NSLOT)]
    cmds = []
    L = rng.choice([1, 2, 3, 5, 8, 12, 16, 20, 25, 30, max_len])
    for _ in range(L):
        c = g.command(specs)
        cmds.append(c)
        # keep the oracle states going so that the generator can aim at present / absent members
        if c[0] == "on":
            specs[c[1]].do(c[2])
        elif c[0] == "new":
            specs[c[1]] = PySpec(c[2], c[3])
        elif c[0] == "copy":
            specs[c[2]] = copy.deepcopy(specs[c[1]])
        elif c[0] == "ctor":
            s = ctor_spec(c)
            if s is not None:
                specs[c[1]] = s
    return {"n": g.n, "kind": g.kind, "labels": g.labels, "pool": [list(e) for e in g.pool], "cmds": cmds}


def alphabet3():
    """26 calls over the nodes 0,1,2 for the exhaustive short histories"""
    A = [("addedge", (0, 1), None, None), ("addedge", (1, 0), ONE, {2: 4}), ("addedge", (0, 1, 2), None, None),
         ("addedge", (2, 1), 8, None), ("addedge", (1,), None, {3: 3}), ("addedge", (), None, None),
         ("addedges", [(0, 1), (1, 2)], None, None), ("addedges", [(0, 1), (1, 0)], [8, 2], None),
         ("addedges", [(0, 2), (0, 2)], [4, 4], None),
         ("rmedge", (1, 0)), ("rmedge", (2, 1, 0)), ("rmedges", [(0, 1), (1, 2)]), ("rmedges", [(0, 1), (1, 0)]),
         ("rmnode", 0, False), ("rmnode", 0, True), ("rmnode", 1, True), ("rmnodes", [0, 1], True), ("rmnodes", [2, 2], False),
         ("addnode", 2, {2: 4}), ("addnodes", [0, 2], {0: {}}), ("setw", (0, 1), 8), ("setw", (1, 0), ONE),
         ("attre", (1, 0), 2, 3), ("delattre", (0, 1), 2), ("delattrn", 2, 2), ("clear",)]
    return A


def run(ctx):
    try:
        Real([0, 1]).do(0, ("addedge", (0, 1), None, None))
    except Exception as ex:   # a tree that cannot even be imported contradicts every clause of the property
        ctx.violation({"labels": [0, 1], "cmds": [], "pool": [], "n": 2, "kind": "int"},
                      f"hypergraphx.Hypergraph cannot be imported / constructed: {type(ex).__name__}: {ex}")
        return
    drv = ctx.driver() if ctx.model_available else None
    rng = ctx.rng
    stats = {}
    n_hist = ctx.scale(260, 5000)
    for k in range(n_hist):
        case = gen_case(rng)
        ctx.count("label_kind:" + case["kind"])
        ctx.count("history_length_total", len(case["cmds"]))
        prob = check_history(ctx, drv, case, rng, stats)
        if prob is not None:
            report(ctx, drv, case, prob, rng)
            if drv is not None:
                drv.batch(["reset %d" % NSLOT])
        if ctx.too_many(3) or (ctx.time_left() is not None and ctx.time_left() < 15):
            break
    if ctx.tier == "thorough" and not ctx.too_many(1):
        A = alphabet3()
        for w, lengths in ((False, (1, 2, 3)), (True, (1, 2))):
            for L in lengths:
                for ops in itertools.product(A, repeat=L):
                    cmds = ([("new", 0, True, {})] if w else []) + [("on", 0, o) for o in ops]
                    case = {"n": 3, "kind": "int", "labels": [0, 1, 2], "pool": [[0, 1], [0, 1, 2], [1, 2], [1], []], "cmds": cmds}
                    prob = check_history(ctx, drv, case, rng, None, small=True)
                    ctx.count("exhaustive_short_histories")
                    if prob is not None:
                        report(ctx, drv, case, prob, rng)
                        if drv is not None:
                            drv.batch(["reset %d" % NSLOT])
                    if ctx.too_many(3) or (ctx.time_left() is not None and ctx.time_left() < 15):
                        break
    ctx.extra["operation_mix"] = {k: v for k, v in sorted(stats.items())}


def replay(ctx, case):
    drv = ctx.driver() if ctx.model_available else None
    case = dict(case)
    case["cmds"] = [fix_cmd(c) for c in case["cmds"]]
    prob = check_history(ctx, drv, case, ctx.rng, {}, full_every=True)
    if prob is not None:
        (ctx.violation if prob.kind == "violation" else ctx.disagree)(case, prob.what)
