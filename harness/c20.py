"""C20 - centralities are the advertised functionals of the hypergraph's projections.

Correspondence of lean/Hgxv/Model/C20.lean (+ C20Cent.lean) with hypergraphx.representations.projections,
hypergraphx.measures.s_centralities, TemporalHypergraph.subhypergraph and hypergraphx.measures.eigen_centralities,
and independent property oracles on the implementation (own projections, own Brandes / BFS in exact rationals,
networkx on the own projection, log diag expm(A) by scipy and by an own overflow-free scaling-and-squaring, the
eigen-equation residuals at the bound the documented tolerance guarantees, relabelling).  Every centrality is also
called on objects reached through histories: temporary items removed again, removal + re-insertion, the original of
a copy mutated afterwards, the copy of an original mutated afterwards, the same object mutated between two calls; and, in
the session stream, on whatever object a user can come to hold: objects produced by other parts of the library (read_hif, save ->
load in both formats, hmetis files, generators, filters, sub-hypergraphs, windows / snapshots of temporal hypergraphs, copies),
objects carrying empty edges / metadata of any type / incidence metadata / weights, objects on which calls have raised - each
judged against its OWN get_nodes() / get_edges(); the three readings line_graph takes of an object (get_edges, len(h),
get_incident_edges) are sent to the model of Model/C20Reads.lean."""
import contextlib
import io
import os
import sys
import itertools
import math
import random
import signal
import time
from collections import deque
from fractions import Fraction

import hgxv

if "numpy" not in sys.modules:
    # small matrices only: many BLAS threads cost more than they give (and the budget is wall time)
    for _v in ("OMP_NUM_THREADS", "OPENBLAS_NUM_THREADS", "MKL_NUM_THREADS"):
        os.environ.setdefault(_v, "2")

RULE = ("five streams from one PRNG. (1) static: random Hypergraph, 3-8 labels from a sparse integer universe or a string "
        "universe that contains 'E'/'N' labels ('ANNE', 'E1', 'N0', ...), hyperedges of size 1-4 with repeated overlaps, "
        "isolated nodes; s in {1,2,3}; s_betweenness/s_closeness/s_*_nodes, subhypergraph_centrality, an injective "
        "non-monotone relabelling. (2) temporal: the same universes, (time, hyperedge) records over 1-4 times; the four "
        "averaged functions. (3) eigen: connected k-uniform hypergraphs, k in {3,4}, on 0..N-1: random ones on 4-9 nodes and "
        "slow-mixing families (chains with overlap 1 or 2, cycles, two nearly equal complete blocks joined by a bridge, "
        "block + tail, hub) with N up to ~65, nodes shuffled; CEC/HEC with DEFAULT arguments from recorded random starts, "
        "one-step runs from a dyadic start, a permutation of the labels. (4) dense: all / a random part of the hyperedges "
        "of 1-3 sizes on 6-14 nodes, or several large overlapping hyperedges (one fixed hyperedge of 760 members), with "
        "pendant hyperedges, isolated nodes and a second component: adjacency spectral radius from ~5 to ~7000; "
        "subhypergraph_centrality only. (5) sessions (1/6 of the cases): an object from a SOURCE - Hypergraph() / the constructor "
        "(weights, node / edge metadata of any type), read_hif of a generated HIF document (edge records without incidences, "
        "unrecorded nodes / edges, isolated node records, attributes, two names for one member set), random_hypergraph / "
        "random_uniform_hypergraph / scale_free_hypergraph, a hmetis file, or a window of aggregate() / a snapshot of subhypergraph() of "
        "a TemporalHypergraph built by its own session - followed by 2-9 steps: add_edge / add_edges / add_node(s) with no / mapping / "
        "NON-mapping metadata (a tag string, '', numbers, lists, True), removals (also keep_edges), set_weight, set_*_metadata, "
        "set_incidence_metadata, add_empty_edge, 1-3 calls the unchanged code refuses (19 classes: wrong weights, absent hyperedges / "
        "nodes in single and batched removals, labels that do not sort or hash, short metadata / weight lists, a batch with a bad "
        "hyperedge in the middle, item assignment on a tag, a sub-hypergraph of an absent node, ...; temporal: non-integer / negative "
        "times, ...), derivations (copy, deepcopy, pickle, subhypergraph, subhypergraph_by_orders, subhypergraph_largest_component, "
        "get_edges(subhypergraph=True), save -> load as json / hgx, filter_hypergraph, add_random_edge(s), random_shuffle, "
        "configuration_model) and probes of 3-5 derivations of the final object. The object is asked after every call that raised, at "
        "random places and at the end, derived-from objects once more at the end: ALL static centralities (and CEC / HEC when the "
        "listing is a connected 3- or 4-uniform hypergraph on 0..N-1, the averaged ones for temporal objects) against the object's OWN "
        "get_nodes() / get_edges(). In every other stream 60-65 % of the objects are reached through a history (random "
        "walk of add/remove operations, in-place mutation between two calls with and without a change of the node / "
        "hyperedge counts, copies). WEIGHTS: half of the objects of every stream are built weighted=True with non-unit weights (2, 0.5, 7, "
        "3.25, 0.125, 10, 0, 1e6, 1e-3, ...; present hyperedges added once more so that weights add up); no centrality of the property reads "
        "them, the demands are the same, and the relabelled twin of a case is weighted iff the case is not. MEMBER-LESS HYPEREDGES: 40 % of the "
        "static / temporal cases (25 % of the dense ones, and the sessions) carry the hyperedge without members `()` - added as such, or left behind by "
        "remove_node(x, keep_edges=True) on a node with a singleton hyperedge (temporal: remove_node with and without keep_edges, `()` added "
        "at a time) - also between two calls on the same object: it is a hyperedge like any other (one value, an isolated vertex of both "
        "projections that counts in networkx's normalisation). A case is distinct by its canonical input (construction mode and contents); "
        "non-trivial when the centralities it produced take >= 2 distinct values")
ASSUMPTIONS = ["labels of one hypergraph are mutually comparable (all int or all str) and are mapped to their rank before they reach the model",
               "node labels are not tuples (a node never equals a hyperedge as a dict key)",
               "sessions: nothing is assumed about the content of an object (no expected listing): a call that raises is an observation, "
               "whatever it leaves behind is the hypergraph the user holds, and every centrality is judged against get_nodes() / get_edges() of "
               "that object; objects whose labels do not sort (only a changed implementation produces them) are skipped",
               "weights: the projections are unweighted, W of CEC and the adjacency matrix COUNT common hyperedges (docstrings of CEC_centrality and "
               "linalg.adjacency_matrix), the eigen-equation of HEC sums over hyperedges: no centrality depends on the weights of a weighted hypergraph",
               "CEC/HEC: connected k-uniform hypergraphs with k in {3,4} on nodes 0..N-1 (as the routines demand)",
               "CEC/HEC eigen-equation: demanded at the bound that the documented defaults guarantee (CEC tol=1e-7, max_iter=1000; "
               "HEC tol=1e-6, max_iter=100) whenever the documented iteration, run by the harness from the recorded random start, "
               "meets its stopping test within the documented budget; otherwise only positivity and normalisation",
               "sub-hypergraph centrality: index i of the returned array is the i-th smallest label (LabelEncoder = rank); tolerance "
               "1e-8 relative plus 1e-13 e^((radius - value_i) / 2), the effect of a 1e-15 absolute error of the eigenvector entries: nodes "
               "whose value lies ~60 or more below the adjacency spectral radius (isolated nodes, small components, ends of pendant paths next "
               "to a dense core) are ill-conditioned for the documented eigh + log-sum-exp route and only a finite value is demanded of them"]
TRUSTED = ["networkx betweenness_centrality / closeness_centrality (parameter `cent` of the theorems; compared on every case with "
           "an own Brandes / BFS computation in exact rationals)",
           "numpy.linalg.eigh, scipy.special.logsumexp (compared with log diag scipy.linalg.expm within 1e-8 on small inputs and with an "
           "own subtraction-free scaling-and-squaring in log space on dense / large ones)",
           "convergence of the power iterations to a positive vector (Perron-Frobenius; checked per run: positivity, "
           "normalisation, eigen-equation residual <= lambda_max * tol for CEC, <= c m M^(m-1) tol for HEC, the bounds of "
           "C20_cec_returned / C20_hec_residual_sharp at the stopping rule)",
           "float arithmetic vs exact rationals: tolerance 1e-9 on centrality values; dyadic inputs where equality is exact"]
BUDGET_S = {"quick": 55, "thorough": 840}

TOL = 1e-9


class Timeout(Exception):
    pass


def _alarm(signum, frame):
    raise Timeout()


LAST_OUT = [""]


def guard(fn, *a, **k):
    """run an implementation call; exceptions and hangs become observations; what it prints goes to LAST_OUT"""
    old = signal.signal(signal.SIGALRM, _alarm)
    signal.alarm(20)
    buf = io.StringIO()
    LAST_OUT[0] = ""
    try:
        with contextlib.redirect_stdout(buf):
            r = fn(*a, **k)
        LAST_OUT[0] = buf.getvalue()
        return ("ok", r)
    except Timeout:
        return ("exc", "timeout after 20 s")
    except Exception as e:  # noqa: BLE001
        return ("exc", f"{type(e).__name__}: {e}")
    finally:
        signal.alarm(0)
        signal.signal(signal.SIGALRM, old)


# ------------------------------------------------------------------------------------------
# independent reference computations

def own_line(edges, s):
    m = len(edges)
    adj = {i: set() for i in range(m)}
    for i in range(m):
        for j in range(i + 1, m):
            if len(set(edges[i]) & set(edges[j])) >= s:
                adj[i].add(j)
                adj[j].add(i)
    return adj


def own_bip(nodes, edges):
    adj = {("n", x): set() for x in nodes}
    for e in edges:
        adj[("e", e)] = set()
    for e in edges:
        for x in e:
            adj[("e", e)].add(("n", x))
            adj[("n", x)].add(("e", e))
    return adj


def exact_closeness(adj):
    n = len(adj)
    out = {}
    for v in adj:
        dist = {v: 0}
        dq = deque([v])
        while dq:
            u = dq.popleft()
            for w in adj[u]:
                if w not in dist:
                    dist[w] = dist[u] + 1
                    dq.append(w)
        tot = sum(dist.values())
        r = len(dist) - 1
        out[v] = Fraction(r, tot) * Fraction(r, n - 1) if tot > 0 and n > 1 else Fraction(0)
    return out


def exact_betweenness(adj):
    """Brandes, accumulation over all sources, networkx's normalisation 1/((n-1)(n-2)) for n >= 3"""
    n = len(adj)
    bc = {v: Fraction(0) for v in adj}
    for s in adj:
        stack, pred = [], {v: [] for v in adj}
        sigma = {v: 0 for v in adj}
        dist = {}
        sigma[s], dist[s] = 1, 0
        dq = deque([s])
        while dq:
            v = dq.popleft()
            stack.append(v)
            for w in adj[v]:
                if w not in dist:
                    dist[w] = dist[v] + 1
                    dq.append(w)
                if dist[w] == dist[v] + 1:
                    sigma[w] += sigma[v]
                    pred[w].append(v)
        delta = {v: Fraction(0) for v in adj}
        while stack:
            w = stack.pop()
            for v in pred[w]:
                delta[v] += Fraction(sigma[v], sigma[w]) * (1 + delta[w])
            if w != s:
                bc[w] += delta[w]
    if n >= 3:
        for v in bc:
            bc[v] /= (n - 1) * (n - 2)
    return bc


def nx_graph(adj):
    import networkx as nx
    g = nx.Graph()
    g.add_nodes_from(adj)
    for u in adj:
        for w in adj[u]:
            g.add_edge(u, w)
    return g


def nx_sp_table(g, order):
    """networkx's own breadth-first searches on `g` (the two routines the s-centralities delegate to use exactly these):
    per source per vertex `<distance>.<number of shortest paths>` or `x` - the wire form of the driver command `sp`.
    Distances from `nx.single_source_shortest_path_length` (closeness), path counts from the Brandes search of
    `nx.betweenness_centrality`; both must tell the same distances."""
    import networkx as nx
    from networkx.algorithms.centrality.betweenness import _single_source_shortest_path_basic
    rows = []
    for src in order:
        d1 = dict(nx.single_source_shortest_path_length(g, src))
        _, _, sigma, d2 = _single_source_shortest_path_basic(g, src)
        if d1 != dict(d2):
            return None
        rows.append(",".join(f"{d1[v]}.{int(sigma[v])}" if v in d1 and float(sigma[v]) == int(sigma[v]) else "x" for v in order) or "-")
    return ";".join(rows) or "-"


def stub_cent(G, *a, **k):
    """the arbitrary `cent` also implemented in lean/Hgxv/Model/C20Cent.lean (`stubCent`)"""
    m = G.number_of_edges()
    return {v: ((3 * G.degree(v) + 7 * i + 11 * m + 5) % 64) / 8 for i, v in enumerate(list(G.nodes))}


class StubNx:
    """installs `stub_cent` in place of the two networkx routines (the module attribute the code looks up)"""

    def __enter__(self):
        import networkx as nx
        self.nx = nx
        self.old = (nx.betweenness_centrality, nx.closeness_centrality)
        nx.betweenness_centrality = stub_cent
        nx.closeness_centrality = stub_cent
        return self

    def __exit__(self, *a):
        self.nx.betweenness_centrality, self.nx.closeness_centrality = self.old




# ------------------------------------------------------------------------------------------
# log diag expm(A) without overflow, sub-hypergraph centrality on dense / large inputs

def adjacency_of(nodes_sorted, edges):
    import numpy as np
    idx = {x: i for i, x in enumerate(nodes_sorted)}
    A = np.zeros((len(nodes_sorted), len(nodes_sorted)))
    for e in edges:
        ii = [idx[x] for x in e]
        for a in ii:
            for b in ii:
                if a != b:
                    A[a, b] += 1
    return A


def components_of(A):
    import numpy as np
    n = len(A)
    seen, out = [False] * n, []
    for s in range(n):
        if seen[s]:
            continue
        comp, seen[s] = [s], True
        for u in comp:
            for w in np.nonzero(A[u])[0]:
                if not seen[w]:
                    seen[w] = True
                    comp.append(int(w))
        out.append(sorted(comp))
    return out


def _lde_block(A):
    import numpy as np
    n = len(A)
    nrm = float(np.max(np.sum(A, axis=1))) if n else 0.0
    s = max(0, int(math.ceil(math.log2(nrm))) + 1) if nrm > 0.5 else 0
    B = A / (2.0 ** s)
    T, M = np.eye(n), np.eye(n)
    for k in range(1, 20):
        T = T @ B / k
        M = M + T
    ls = 0.0
    for _ in range(s):
        M = M @ M
        mx = float(np.max(M))
        M = M / mx
        ls = 2 * ls + math.log(mx)
    with np.errstate(divide="ignore"):
        return np.log(np.diag(M)) + ls


def log_diag_expm(A):
    """log diag exp(A) for an entrywise NON-NEGATIVE symmetric A: Taylor series of exp(A / 2^s) (row sums <= 1/2, every
    term >= 0) and s squarings, the common factor of the matrix kept as a separate logarithm; one connected component at
    a time.  Nothing is ever subtracted, so every entry keeps its relative accuracy (error of the logarithm ~ 2^s n eps),
    and nothing overflows - independent of eigh / logsumexp"""
    import numpy as np
    out = np.zeros(len(A))
    for comp in components_of(A):
        out[comp] = _lde_block(A[np.ix_(comp, comp)])
    return out


def eigh_route(A):
    """own log-sum-exp over an own eigendecomposition (second witness) and the spectral radius"""
    import numpy as np
    ev, U = np.linalg.eigh(A)
    with np.errstate(divide="ignore", invalid="ignore"):
        val = ev[-1] + np.log((U ** 2) @ np.exp(ev - ev[-1]))
    return val, float(ev[-1])


def subhg_tolerance(want, radius):
    """1e-8 relative, plus what an absolute error eta ~ 1e-15 of the eigenvector entries does to log sum_j U_ij^2 e^(ev_j): the dominant
    eigenvectors enter node i with weight ~ e^(want_i - radius), so the value moves by ~ 2 eta e^((radius - want_i) / 2) - negligible
    unless the node sits ~ 60 below the spectral radius (isolated nodes / small components / ends of pendant paths next to a dense
    core), where the eigh route has no accuracy left (the check then only demands a finite value)"""
    import numpy as np
    return 1e-8 * np.maximum(1, np.abs(want)) + 1e-13 * np.exp(np.minimum(700.0, (radius - want) / 2))


# ------------------------------------------------------------------------------------------
# histories: the content an object must have after a sequence of operations (independent simulation)

class BadOps(Exception):
    pass


def sim_static(ops):
    """(nodes, hyperedges) of a Hypergraph after `ops`; BadOps when an operation is not applicable"""
    nodes, edges = {}, {}
    for op in ops:
        k, a = op[0], op[1]
        if k == "add_edge":
            e = tuple(sorted(a))
            if len(set(e)) != len(e):
                raise BadOps(op)
            edges.setdefault(e, 1)
            for x in e:
                nodes.setdefault(x, 1)
        elif k == "rm_edge":
            e = tuple(sorted(a))
            if e not in edges:
                raise BadOps(op)
            del edges[e]
        elif k == "add_node":
            nodes.setdefault(a, 1)
        elif k == "rm_node":
            if a not in nodes:
                raise BadOps(op)
            del nodes[a]
            edges = {e: 1 for e in edges if a not in e}
        elif k == "rm_node_keep":
            # remove_node(a, keep_edges=True): the hyperedges of `a` stay without it (equal ones merge; a singleton leaves the
            # hyperedge without members `()` behind)
            if a not in nodes:
                raise BadOps(op)
            del nodes[a]
            edges = {tuple(x for x in e if x != a): 1 for e in edges}
        else:
            raise BadOps(op)
    return list(nodes), list(edges)


# weights of weighted hypergraphs: no centrality of the property reads them (the projections are unweighted, W and the adjacency
# matrix COUNT common hyperedges), so every stream builds half of its objects weighted, with non-unit weights
WEIGHT_POOL = [2, 0.5, 7, 3.25, 4, 0.125, 10, 1, 0, 1e6, 1e-3, 3, 2.5]


def weight_of(wt, i):
    return WEIGHT_POOL[(3 * wt + 5 * i) % len(WEIGHT_POOL)]


def weighted_ctor(cls, apply_ops, wt):
    """(constructor, apply) of the objects of a case: weighted with the weights `weight_of(wt, .)` when `wt` is given"""
    if wt is None:
        return cls, apply_ops
    return (lambda: cls(weighted=True)), (lambda h, ops, f=None: apply_ops(h, ops, f, wt))


def twin_note(case):
    return " (the relabelled twin is " + ("built weighted=True with non-unit weights" if case.get("wt") is None else "unweighted") \
        + ", the object itself is " + ("unweighted" if case.get("wt") is None else "weighted with non-unit weights") + ")"


def flip_wt(case):
    """the relabelled twin of a case is weighted iff the case is not: the values must be carried along all the same"""
    return {**case, "wt": None if case.get("wt") is not None else 4}


def apply_static(h, ops, f=None, wt=None):
    f = f or (lambda x: x)
    for i, op in enumerate(ops):
        k, a = op[0], op[1]
        if k == "add_edge":
            h.add_edge(tuple(f(x) for x in a), **({"weight": weight_of(wt, i)} if wt is not None else {}))
        elif k == "rm_edge":
            h.remove_edge(tuple(f(x) for x in a))
        elif k == "add_node":
            h.add_node(f(a))
        elif k == "rm_node":
            h.remove_node(f(a))
        elif k == "rm_node_keep":
            h.remove_node(f(a), keep_edges=True)


def sim_temporal(ops):
    recs = {}
    for op in ops:
        if op[0] == "rmn":
            # remove_node(x, keep_edges): the records of x go / stay without x (a record left without members goes as well)
            x, keep = op[1], op[2]
            if not any(x in e for _, e in recs):
                raise BadOps(op)
            new = {}
            for (t, e) in recs:
                if x not in e:
                    new[(t, e)] = 1
                elif keep and len(e) > 1:
                    new[(t, tuple(y for y in e if y != x))] = 1
            recs = new
            continue
        k, e, t = op[0], tuple(sorted(op[1])), op[2]
        if k == "add":
            recs.setdefault((t, e), 1)
        elif k == "rm":
            if (t, e) not in recs:
                raise BadOps(op)
            del recs[(t, e)]
        else:
            raise BadOps(op)
    return list(recs)


def apply_temporal(T, ops, f=None, wt=None):
    f = f or (lambda x: x)
    for i, op in enumerate(ops):
        if op[0] == "rmn":
            T.remove_node(f(op[1]), keep_edges=bool(op[2]))
            continue
        e = tuple(f(x) for x in op[1])
        if op[0] == "add":
            T.add_edge(e, op[2], **({"weight": weight_of(wt, i)} if wt is not None else {}))
        else:
            T.remove_edge(e, op[2])


VIAS = ("history", "mutate", "orig_of_copy", "copy_of_orig")


def pick_via(rng):
    r = rng.random()
    return None if r < 0.37 else "history" if r < 0.57 else "mutate" if r < 0.75 else "orig_of_copy" if r < 0.87 else "copy_of_orig"


def instances(case, new, apply_ops, sim, fresh_ops, f=None):
    """the objects a case speaks of, one after the other, each with the content it must have: (tag, object, content).
    The generator mutates only AFTER the consumer has finished with the object it was handed before."""
    via = case.get("via")
    if not via:
        h = new()
        apply_ops(h, fresh_ops, f)
        yield "fresh", h, sim(fresh_ops)
        return
    pre = case["pre"]
    h = new()
    apply_ops(h, pre, f)
    post = case.get("post") or []
    if via == "history":
        yield "history", h, sim(pre)
    elif via == "mutate":
        yield "before the mutation", h, sim(pre)
        apply_ops(h, post, f)
        yield "same object after the mutation", h, sim(list(pre) + list(post))
    elif via == "orig_of_copy":
        c = h.copy()
        apply_ops(c, post, f)
        yield "original of a copy mutated afterwards", h, sim(pre)
        yield "mutated copy", c, sim(list(pre) + list(post))
    elif via == "copy_of_orig":
        c = h.copy()
        apply_ops(h, post, f)
        yield "copy of an original mutated afterwards", c, sim(pre)
        yield "mutated original", h, sim(list(pre) + list(post))


def each_instance(ctx, case, gen):
    it = iter(gen)
    while True:
        r = guard(next, it, None)
        if r[0] != "ok":
            ctx.violation(case, f"building the object ({case.get('via') or 'fresh'}) raised {r[1]}")
            return
        if r[1] is None:
            return
        yield r[1]


# ------------------------------------------------------------------------------------------
# the documented power iterations, run by the harness (vectorised, from a given start)

def own_power(W, x0, max_iter=1000, tol=1e-7):
    """power_method as documented: returns (x, passes, residuals of the passes)"""
    import numpy as np
    x = np.array(x0, dtype=float)
    x = x / np.linalg.norm(x)
    res, k, table = math.inf, 0, []
    while res > tol and k < max_iter:
        y = W @ x
        yn = np.linalg.norm(y)
        res = float(np.linalg.norm(x - y / yn))
        table.append(res)
        x = y / yn
        k += 1
    return x, k, table


def hec_apply(E, n, x):
    """sum over the hyperedges of a node of the product of the other members (E: array edges x k)"""
    import numpy as np
    y = np.zeros(n)
    k = E.shape[1]
    for p in range(k):
        others = [q for q in range(k) if q != p]
        np.add.at(y, E[:, p], np.prod(x[E[:, others]], axis=1))
    return y


def hec_step(E, n, m, x):
    import numpy as np
    r = hec_apply(E, n, x) ** (1.0 / m)
    return np.sign(r[0]) * r / np.sum(np.abs(r))


def own_hec(E, n, m, x0, max_iter=100, tol=1e-6):
    """HEC_centrality as documented: returns (x, passes, distances of the passes, stopped by the test)"""
    import numpy as np
    x = np.array(x0, dtype=float)
    x = x / np.sum(np.abs(x))
    table = []
    for _ in range(max_iter):
        nx_ = hec_step(E, n, m, x)
        d = float(np.linalg.norm(x - nx_))
        table.append(d)
        if d <= tol:
            return x, len(table), table, True
        x = nx_
    return x, len(table), table, False


class RecordStart:
    """np.random.rand / np.random.uniform still draw, and what they return is recorded: the random start of the iteration"""

    def __enter__(self):
        import numpy as np
        self.np = np
        self.old = (np.random.rand, np.random.uniform)
        self.starts = []
        old, starts = self.old, self.starts

        def rand(*a, **k):
            v = old[0](*a, **k)
            starts.append(np.array(v, dtype=float, copy=True))
            return v

        def uniform(*a, **k):
            v = old[1](*a, **k)
            starts.append(np.array(v, dtype=float, copy=True))
            return v
        np.random.rand, np.random.uniform = rand, uniform
        return self

    def __exit__(self, *a):
        self.np.random.rand, self.np.random.uniform = self.old


class CountPasses:
    """counts the passes of the two loops of eigen_centralities: calls of np.dot (power_method) and of apply (HEC)"""

    class _Np:
        def __init__(self, np, owner):
            self.__dict__["_np"] = np
            self.__dict__["_owner"] = owner

        def __getattr__(self, name):
            return getattr(self._np, name)

        def dot(self, *a, **k):
            self._owner.dots += 1
            return self._np.dot(*a, **k)

    def __init__(self, ec):
        self.ec, self.dots, self.applies = ec, 0, 0

    def __enter__(self):
        ec = self.ec
        self.old = (ec.np, ec.apply)
        ec.np = CountPasses._Np(self.old[0], self)
        old_apply = self.old[1]

        def apply(*a, **k):
            self.applies += 1
            return old_apply(*a, **k)
        ec.apply = apply
        return self

    def __exit__(self, *a):
        self.ec.np, self.ec.apply = self.old


# ------------------------------------------------------------------------------------------
# generators

STR_POOL = ["ANNE", "E1", "N0", "E", "N", "NE", "EVE", "bob", "c", "d", "x1", "zed", "Ed", "e", "n", "al"]


def gen_labels(rng, n):
    if rng.random() < 0.45:
        return rng.sample(STR_POOL, n)
    return rng.sample(range(0, 30), n)


def gen_edge(rng, labels, edges, sizes=(1, 2, 2, 2, 3, 3, 3, 4)):
    k = min(len(labels), rng.choice(sizes))
    if edges and rng.random() < 0.5:
        # overlap an earlier hyperedge in 1..3 nodes so that s = 2, 3 are exercised
        base = list(rng.choice(edges))
        keep = rng.sample(base, min(len(base), rng.randint(1, 3)))
        rest = [x for x in labels if x not in keep]
        e = keep + rng.sample(rest, max(0, min(len(rest), k - len(keep))))
    else:
        e = rng.sample(labels, k)
    rng.shuffle(e)
    return tuple(e)


def gen_edges(rng, labels, lo=1, hi=7):
    edges = []
    for _ in range(rng.randint(lo, hi)):
        edges.append(gen_edge(rng, labels, edges))
    return edges


def walk_static(rng, labels, ops, steps, swap=False, empties=False):
    """continues the history `ops` by `steps` applicable random operations (additions favoured; removed hyperedges are
    re-inserted with preference); `swap`: one hyperedge is replaced by another one of the same size over the present nodes,
    so that the node and hyperedge counts stay what they were; `empties`: the walk also adds the hyperedge without members and removes nodes with
    keep_edges=True (nodes that have a singleton hyperedge preferred: their removal leaves `()` behind)"""
    ops = [list(o) for o in ops]
    removed = []
    nodes, edges = sim_static(ops)
    if swap and edges and len(nodes) >= 2:
        e = rng.choice(edges)
        for _ in range(30 if e and len(e) <= len(nodes) else 0):
            f = tuple(sorted(rng.sample(nodes, len(e))))
            if f not in edges:
                return ops + [["rm_edge", list(e)], ["add_edge", list(f)]]
    for _ in range(steps):
        nodes, edges = sim_static(ops)
        r = rng.random()
        if r < 0.55 or not edges:
            if removed and rng.random() < 0.4:
                e = removed.pop(rng.randrange(len(removed)))
            elif edges and rng.random() < 0.08:
                # a present hyperedge is added once more (a weighted hypergraph adds the weights up; the listing stays)
                e = rng.choice(edges)
            elif empties and rng.random() < 0.15:
                e = ()
            elif empties and rng.random() < 0.2:
                e = (rng.choice(labels),)
            else:
                e = gen_edge(rng, labels, edges)
            ops.append(["add_edge", list(e)])
        elif r < 0.77:
            e = rng.choice(edges)
            removed.append(e)
            ops.append(["rm_edge", list(e)])
        elif r < 0.87:
            ops.append(["add_node", rng.choice(labels)])
        elif nodes:
            x = rng.choice(nodes)
            if empties and rng.random() < 0.7:
                single = [e[0] for e in edges if len(e) == 1]
                if single and rng.random() < 0.7:
                    x = rng.choice(single)
                ops.append(["rm_node_keep", x])
                continue
            removed.extend(e for e in edges if x in e)
            ops.append(["rm_node", x])
    return ops


def gen_static(rng):
    n = rng.randint(3, 8)
    labels = gen_labels(rng, n)
    via = pick_via(rng)
    wt = rng.randrange(len(WEIGHT_POOL)) if rng.random() < 0.5 else None
    empties = rng.random() < 0.4
    if via is None:
        edges = gen_edges(rng, labels)
        if empties:
            edges.insert(rng.randint(0, len(edges)), ())
        iso = [x for x in labels if rng.random() < 0.2]
        return {"kind": "static", "labels": labels, "edges": edges, "isolated": iso, "iso_first": rng.random() < 0.5, "wt": wt}
    for _ in range(50):
        pre = walk_static(rng, labels, [], rng.randint(4, 14), empties=empties)
        nodes, edges = sim_static(pre)
        # now and then an object that has lost all its hyperedges
        if (edges or rng.random() < 0.1) and len(nodes) >= 2 and any(o[0].startswith("rm") for o in pre):
            break
    case = {"kind": "static", "labels": labels, "via": via, "pre": pre, "wt": wt}
    if via != "history":
        for _ in range(50):
            post = walk_static(rng, labels, pre, rng.randint(1, 4), swap=rng.random() < 0.45, empties=empties)[len(pre):]
            after = sim_static(pre + post)
            if (set(after[0]), set(after[1])) != (set(nodes), set(edges)) and (after[1] or rng.random() < 0.15):
                break
        case["post"] = post
    return case


def walk_temporal(rng, labels, ops, steps, tmax, empties=False):
    ops = [list(o) for o in ops]
    removed = []
    for _ in range(steps):
        recs = sim_temporal(ops)
        r = rng.random()
        members = sorted({x for _, e in recs for x in e})
        if empties and members and r > 0.88:
            # remove_node, mostly with keep_edges=True (the records of the node stay without it)
            ops.append(["rmn", rng.choice(members), rng.random() < 0.75])
            continue
        if r < 0.68 or not recs:
            if removed and rng.random() < 0.4:
                t, e = removed.pop(rng.randrange(len(removed)))
            elif empties and rng.random() < 0.2:
                # the hyperedge without members, at a time that has other records as a rule
                e, t = (), (rng.choice(recs)[0] if recs and rng.random() < 0.8 else rng.randint(1, tmax))
            elif recs and rng.random() < 0.25:
                # a hyperedge that exists at another time
                e = rng.choice(recs)[1]
                t = rng.randint(1, tmax)
            else:
                e, t = gen_edge(rng, labels, [x for _, x in recs]), rng.randint(1, tmax)
            ops.append(["add", list(e), t])
        else:
            t, e = rng.choice(recs)
            removed.append((t, e))
            ops.append(["rm", list(e), t])
    return ops


def gen_temporal(rng):
    n = rng.randint(3, 7)
    labels = gen_labels(rng, n)
    tmax = rng.randint(1, 4)
    via = pick_via(rng)
    wt = rng.randrange(len(WEIGHT_POOL)) if rng.random() < 0.5 else None
    empties = rng.random() < 0.4
    if via is None:
        edges = gen_edges(rng, labels, 2, 9)
        if empties:
            edges.insert(rng.randint(0, len(edges)), ())
        times = [rng.randint(1, tmax) for _ in edges]
        if rng.random() < 0.5 and len(edges) >= 2:
            # the same hyperedge at two times
            edges.append(edges[0])
            times.append(times[0] % tmax + 1 if tmax > 1 else times[0] + 1)
        return {"kind": "temporal", "labels": labels, "edges": edges, "times": times, "wt": wt}
    for _ in range(50):
        pre = walk_temporal(rng, labels, [], rng.randint(4, 13), tmax, empties)
        recs = sim_temporal(pre)
        if len(recs) >= 2 and any(o[0] in ("rm", "rmn") for o in pre):
            break
    case = {"kind": "temporal", "labels": labels, "via": via, "pre": pre, "wt": wt}
    if via != "history":
        for _ in range(50):
            post = walk_temporal(rng, labels, pre, rng.randint(1, 3), tmax + (1 if rng.random() < 0.3 else 0), empties)[len(pre):]
            after = sim_temporal(pre + post)
            if set(after) != set(recs) and after:
                break
        case["post"] = post
    return case


# --- connected uniform hypergraphs on 0..n-1

def connected(n, edges):
    adj = {i: set() for i in range(n)}
    for e in edges:
        for a in e:
            adj[a].update(e)
    seen, todo = {0}, [0]
    while todo:
        for w in adj[todo.pop()]:
            if w not in seen:
                seen.add(w)
                todo.append(w)
    return len(seen) == n


def fam_random(rng, k):
    n = rng.randint(k + 1, 9)
    order = list(range(n))
    rng.shuffle(order)
    edges, seen = [tuple(order[:k])], set(order[:k])
    for x in order[k:]:
        edges.append(tuple(rng.sample(sorted(seen), k - 1) + [x]))
        seen.add(x)
    for _ in range(rng.randint(0, 4)):
        edges.append(tuple(rng.sample(range(n), k)))
    return edges


def fam_chain(rng, k, big):
    ov = rng.choice([1, 1, 2])
    hi = {(3, 1): 27, (4, 1): 21, (3, 2): 45, (4, 2): 30}[(k, ov)]
    L = rng.randint(3, hi if big else max(4, hi // 2))
    st = k - ov
    return [tuple(range(i * st, i * st + k)) for i in range(L)]


def fam_cycle(rng, k, big):
    L = rng.randint(4, (30 if k == 3 else 21) if big else 14)
    n = (k - 1) * L
    return [tuple(((k - 1) * i + j) % n for j in range(k)) for i in range(L)]


def fam_blocks(rng, k, big):
    """two complete blocks with a few hyperedges knocked out, joined by a bridge path; or a block with a tail"""
    b1 = rng.randint(k + 1, 7)
    A = list(itertools.combinations(range(b1), k))
    for _ in range(rng.randint(0, 3)):
        if len(A) > 2:
            A.pop(rng.randrange(len(A)))
    off = b1 - 1
    path = [tuple(range(off + i * (k - 1), off + i * (k - 1) + k)) for i in range(rng.randint(1, 9 if big and rng.random() < 0.5 else 2))]
    last = path[-1][-1]
    if rng.random() < 0.3:
        return A + path
    b2 = max(k + 1, b1 + rng.choice([-1, 0, 0, 0, 1]))
    B = [tuple(v + last for v in e) for e in itertools.combinations(range(b2), k)]
    for _ in range(rng.randint(0, 3)):
        if len(B) > 2:
            B.pop(rng.randrange(len(B)))
    return A + path + B


def fam_hub(rng, k, big):
    leaves = rng.randint(3, 12)
    edges, nxt = [], 1
    for _ in range(leaves):
        edges.append((0,) + tuple(range(nxt, nxt + k - 1)))
        nxt += k - 1
    for _ in range(rng.randint(0, 3)):
        edges.append(tuple(rng.sample(range(nxt), k)))
    return edges


def gen_uniform(rng, big=True):
    k = rng.choice([3, 4])
    for _ in range(100):
        r = rng.random()
        fam = "random" if r < 0.4 else "chain" if r < 0.6 else "cycle" if r < 0.72 else "blocks" if r < 0.92 else "hub"
        raw = {"random": lambda: fam_random(rng, k), "chain": lambda: fam_chain(rng, k, big), "cycle": lambda: fam_cycle(rng, k, big),
               "blocks": lambda: fam_blocks(rng, k, big), "hub": lambda: fam_hub(rng, k, big)}[fam]()
        used = sorted({v for e in raw for v in e})
        n = len(used)
        perm = list(range(n))
        rng.shuffle(perm)
        ren = {v: perm[i] for i, v in enumerate(used)}
        es = []
        for e in raw:
            e = [ren[v] for v in e]
            rng.shuffle(e)
            if len(set(e)) == k and tuple(sorted(e)) not in [tuple(sorted(f)) for f in es]:
                es.append(tuple(e))
        if n > k and connected(n, es):
            break
    case = {"kind": "uniform", "family": fam, "n": n, "k": k, "edges": es, "seed": rng.randint(0, 10 ** 6)}
    via = pick_via(rng)
    # weighted=True with non-unit weights: the clique-expansion matrix and the eigen-equation of HEC count hyperedges, whatever they weigh
    case["wt"] = rng.randrange(len(WEIGHT_POOL)) if rng.random() < 0.5 else None
    if via is None:
        return case

    def new_edge(present):
        for _ in range(40):
            e = tuple(rng.sample(range(n), k))
            if tuple(sorted(e)) not in present:
                return e
        return None
    # history: the hyperedges in another order, temporary hyperedges removed again, removal + re-insertion
    pre = [["add_edge", list(e)] for e in es]
    rng.shuffle(pre)
    for _ in range(rng.randint(1, 3)):
        present = {tuple(sorted(o[1])) for o in pre}
        if rng.random() < 0.6:
            t = new_edge(present)
            if t is not None:
                i = rng.randint(0, len(pre))
                j = rng.randint(i, len(pre))
                pre.insert(i, ["add_edge", list(t)])
                pre.insert(j + 1, ["rm_edge", list(t)])
        else:
            i = rng.randrange(len(pre))
            if pre[i][0] == "add_edge" and sum(1 for o in pre if sorted(o[1]) == sorted(pre[i][1])) == 1:
                e = pre[i][1]
                j = rng.randint(i + 1, len(pre))
                pre.insert(j, ["rm_edge", list(e)])
                pre.insert(rng.randint(j + 1, len(pre)), ["add_edge", list(e)])
    if rng.random() < 0.4:
        # a present hyperedge added once more (a weighted hypergraph adds the weights up: W still counts it once)
        adds = [i for i, o in enumerate(pre) if o[0] == "add_edge" and tuple(sorted(o[1])) in {tuple(sorted(e)) for e in es}]
        if adds:
            i = rng.choice(adds)
            e = list(pre[i][1])
            rng.shuffle(e)
            pre.insert(rng.randint(i + 1, len(pre)), ["add_edge", e])
    case.update({"via": via, "pre": pre})
    if via != "history":
        cur = [tuple(sorted(e)) for e in es]
        post = []
        t = new_edge(set(cur))
        if t is not None:
            post.append(["add_edge", list(t)])
        if rng.random() < 0.6:
            # a swap: with the addition above the counts stay equal when one redundant hyperedge goes
            cands = [e for e in cur if connected(n, [f for f in cur if f != e] + ([tuple(sorted(t))] if t is not None else []))]
            if cands:
                post.insert(0, ["rm_edge", list(rng.choice(cands))])
        if not post:
            case["via"] = "history"
        else:
            case["post"] = post
    return case


# --- dense / large hypergraphs for the sub-hypergraph centrality

def dense_label(mode, i):
    return 3 * i + 1 if mode == "int" else "v%04d" % i if mode == "str" else i - 7


def dense_edges(case):
    """the hyperedges (over 0..) that the recipe of a dense case stands for"""
    sel = random.Random(case["sel"])
    core = case["core"]
    edges = [e for k in case["sizes"] for e in itertools.combinations(range(core), k) if sel.random() < case["keep"]]
    edges += [tuple(range(lo, hi)) for lo, hi in case.get("bigs", [])]
    edges += [tuple(e) for e in case.get("extra", [])]
    out, seen = [], set()
    for e in edges:
        if e not in seen and len(e) >= 1:
            seen.add(e)
            out.append(e)
    return out


def gen_dense(rng, cap):
    for _ in range(20):
        case = gen_dense_once(rng, cap)
        if len(dense_edges(case)) >= 2:
            break
    return case


def gen_dense_once(rng, cap):
    lab = rng.choice(["int", "str", "neg"])
    r = rng.random()
    if r < 0.7:
        core = rng.randint(6, 14)
        sizes = sorted(rng.sample([2, 3, 4, 5, 6], rng.randint(1, 3)))
        total = sum(math.comb(core, k) for k in sizes)
        keep = min(rng.choice([1.0, 0.7, 0.3, 0.1]), cap / total)
        case = {"kind": "dense", "core": core, "sizes": sizes, "keep": keep, "bigs": []}
        top = core
    else:
        m = rng.randint(20, 60 if cap < 1000 else 110) if rng.random() < 0.5 else rng.randint(120, 170)
        nb = rng.randint(1, 6 if m >= 120 else 8)
        bigs = []
        for _ in range(nb):
            b = [rng.randint(0, 4), m + rng.randint(0, 6)]
            if b not in bigs:
                bigs.append(b)
        case = {"kind": "dense", "core": 0, "sizes": [], "keep": 1.0, "bigs": bigs}
        top = max(b[1] for b in bigs)
    extra, nxt = [], top
    for _ in range(rng.randint(0, 3)):
        # pendant hyperedges, at most two steps away from the core
        a = rng.randrange(top) if not extra or rng.random() < 0.6 else extra[-1][-1]
        if a >= top and any(e[0] >= top for e in extra if e[-1] == a):
            a = rng.randrange(top)
        e = (a,) + tuple(range(nxt, nxt + rng.randint(1, 2)))
        nxt = e[-1] + 1
        extra.append(e)
    if rng.random() < 0.35:
        extra.append(tuple(range(nxt, nxt + rng.randint(2, 3))))
        nxt = extra[-1][-1] + 1
    iso = [nxt + i for i in range(rng.randint(0, 2))]
    case.update({"sel": rng.randint(0, 10 ** 6), "extra": [list(e) for e in extra], "iso": iso, "lab": lab,
                 "wt": rng.randrange(len(WEIGHT_POOL)) if rng.random() < 0.5 else None, "empty": rng.random() < 0.25})
    via = pick_via(rng)
    if via is not None:
        base = dense_edges(case)
        used = sorted({v for e in base for v in e})
        if len(base) >= 2 and len(used) >= 4:
            def small(present):
                for _ in range(30):
                    e = tuple(sorted(rng.sample(used, rng.randint(2, min(4, len(used))))))
                    if e not in present:
                        return e
                return None
            temp = [e for e in (small(set(base)) for _ in range(rng.randint(1, 3))) if e is not None]
            readd = [list(base[rng.randrange(len(base))]) for _ in range(rng.randint(0, 2))]
            case.update({"via": via, "temp": [list(e) for e in dict.fromkeys(temp)], "readd": [list(e) for e in dict.fromkeys(map(tuple, readd))]})
            if via != "history":
                add = [e for e in (small(set(base)) for _ in range(rng.randint(1, 3))) if e is not None]
                rm = [list(base[rng.randrange(len(base))])] if rng.random() < 0.6 else []
                if rng.random() < 0.3:
                    # a heavy mutation: the whole core once more with one more size
                    big_add = [e for e in itertools.combinations(used[:min(len(used), 10)], 3) if e not in set(base)][:150]
                    add += big_add
                case["post"] = [["rm_edge", e] for e in rm] + [["add_edge", list(e)] for e in dict.fromkeys(add) if list(e) not in rm]
                if not case["post"]:
                    case["via"] = "history"
    return case


# ------------------------------------------------------------------------------------------
# helpers

def close(a, b, tol=TOL):
    try:
        return abs(float(a) - float(b)) <= tol
    except Exception:  # noqa: BLE001
        return False


def parse_items(ans):
    """`key=value,...` -> dict key-string -> Fraction; 'rej' -> None"""
    if ans == "rej":
        return None
    if ans == "-":
        return {}
    out = {}
    for it in ans.split(","):
        k, v = it.split("=")
        if k in out:
            return {"dup": k}
        out[k] = Fraction(hgxv.dec_num(v))
    return out


def ekey(rank, e):
    # (the hyperedge without members is written `_`, as the driver writes it)
    return ".".join(str(r) for r in sorted(rank[x] for x in e)) or "_"


class Values:
    """collects the centrality values of a case for the non-triviality rule"""

    def __init__(self):
        self.vals = set()

    def add(self, d):
        for v in d:
            try:
                self.vals.add(round(float(v), 9))
            except Exception:  # noqa: BLE001
                pass

    def nontrivial(self):
        return len(self.vals) >= 2


def count_class(ctx, stream, h, edges):
    """evidence: how many judged objects carry non-unit weights / the hyperedge without members"""
    r = guard(lambda: h.is_weighted() and any(w != 1 for w in h.get_weights()))
    if r[0] == "ok" and r[1]:
        ctx.count(f"{stream}_objects_with_non_unit_weights")
    if any(len(e) == 0 for e in edges):
        ctx.count(f"{stream}_objects_with_memberless_hyperedge")


def check_dict(ctx, case, name, got, want_keys, ref_exact, ref_nx, vals, what_keys):
    """`got` = guarded implementation result; it must be a dict with exactly the keys `want_keys` (each once) and the
    reference values (exact rationals; the networkx value on the own projection as a second witness)"""
    if got[0] != "ok":
        ctx.violation(case, f"{name} raised {got[1]}")
        return None
    d = got[1]
    if not isinstance(d, dict):
        ctx.violation(case, f"{name} returned {type(d).__name__}, not a dict")
        return None
    if len(d) != len(want_keys) or set(d) != set(want_keys):
        missing = [k for k in want_keys if k not in d]
        extra = [k for k in d if k not in set(want_keys)]
        ctx.violation(case, f"{name}: not exactly one value per {what_keys}: missing {missing!r}, unexpected {extra!r}")
        return None
    for k in want_keys:
        if not close(d[k], ref_exact[k]):
            ctx.violation(case, f"{name}[{k!r}] = {d[k]!r}, own exact computation on the projection gives {ref_exact[k]} "
                                f"= {float(ref_exact[k])!r}")
            return None
        if ref_nx is not None and not close(d[k], ref_nx[k]):
            ctx.violation(case, f"{name}[{k!r}] = {d[k]!r}, networkx on the own projection gives {ref_nx[k]!r}")
            return None
    vals.add(d.values())
    return d


def compare_items(ctx, case, line, ans, impl, keyf, exact):
    """model answer `ans` to `line` vs implementation dict `impl` (key -> float)"""
    m = parse_items(ans)
    if impl is None:
        return
    if impl == "KeyError":
        if m is not None:
            ctx.disagree({**case, "line": line}, f"the implementation raised KeyError, the model answers {ans!r} to {line!r}")
        return
    if m is None or "dup" in m:
        ctx.disagree({**case, "line": line}, f"model answers {ans!r} to {line!r}, implementation returned a dict")
        return
    try:
        want = {keyf(k): v for k, v in impl.items()}
    except Exception:  # noqa: BLE001  (a key that is neither a node nor a hyperedge of the input)
        ctx.disagree({**case, "line": line}, f"{line!r}: implementation keys {list(impl)!r} are not all nodes / hyperedges of the input")
        return
    if set(m) != set(want) or len(want) != len(impl):
        ctx.disagree({**case, "line": line}, f"model keys {sorted(m)} != implementation keys {sorted(want)} for {line!r}")
        return
    for k in want:
        ok = (float(m[k]) == float(want[k])) if exact else close(m[k], want[k])
        if not ok:
            ctx.disagree({**case, "line": line}, f"{line!r}: model {k} = {m[k]} = {float(m[k])!r}, implementation {want[k]!r}")
            return



# ------------------------------------------------------------------------------------------
# stream 1: static hypergraphs

def static_fresh_ops(case):
    iso = [["add_node", x] for x in case.get("isolated", [])]
    adds = [["add_edge", list(e)] for e in case.get("edges", [])]
    return iso + adds if case.get("iso_first") else adds + iso


def static_instances(case, f=None):
    from hypergraphx import Hypergraph
    new, app = weighted_ctor(Hypergraph, apply_static, case.get("wt"))
    return instances(case, new, app, sim_static, static_fresh_ops(case), f)


def listing(ctx, case, tag, h, exp, f=None):
    """get_nodes() / get_edges() of the object; they must list exactly the content the history leaves (each item once)"""
    f = f or (lambda x: x)
    r = guard(lambda: (list(h.get_nodes()), [tuple(sorted(e)) for e in h.get_edges()]))
    if r[0] != "ok":
        ctx.violation(case, f"get_nodes() / get_edges() of the object ({tag}) raised {r[1]}")
        return None
    nodes, edges = r[1]
    en, ee = [f(x) for x in exp[0]], [tuple(sorted(f(x) for x in e)) for e in exp[1]]
    if len(set(nodes)) != len(nodes) or set(nodes) != set(en) or len(set(edges)) != len(edges) or set(edges) != set(ee):
        ctx.violation(case, f"the object ({tag}) lists nodes {nodes!r} / hyperedges {edges!r}; its history leaves {en!r} / {ee!r}")
        return None
    return nodes, edges


def check_static(ctx, drv, case):
    import numpy as np
    from hypergraphx.measures import s_centralities as sc
    from hypergraphx.measures.sub_hypergraph_centrality import subhypergraph_centrality
    vals = Values()
    rank = {x: i for i, x in enumerate(sorted(set(case["labels"])))}
    keys, first_impl = [], None
    for tag, h, exp in each_instance(ctx, case, static_instances(case)):
        icase = {**case, "instance": tag} if case.get("via") else case
        got = listing(ctx, icase, tag, h, exp)
        if got is None:
            continue
        nodes, edges = got
        keys.append((tag, [rank[x] for x in nodes], [sorted(rank[x] for x in e) for e in edges]))
        # the second object of a case is asked in the opposite order of s: the last question before a mutation and the first one
        # after it are then the SAME call (a result remembered per argument would be stale)
        impl = check_static_obj(ctx, drv, icase, h, nodes, edges, rank, vals, (1, 2, 3) if not keys[:-1] else (3, 2, 1))
        if first_impl is None:
            first_impl = (impl, nodes)
        ctx.count("static_instance_" + tag.replace(" ", "_"))

    # --- relabelling: injective, not monotone, into the other kind of labels; the relabelled object is reached the same way
    labels = sorted(set(case["labels"]))
    perm = list(range(len(labels)))
    ctx.rng.shuffle(perm)
    if "relabel" in case:
        relabel = {a: b for a, b in case["relabel"]}
    elif isinstance(labels[0], str):
        relabel = {x: 100 + 3 * perm[i] for i, x in enumerate(labels)}
    else:
        relabel = {x: "NE" + chr(65 + perm[i]) for i, x in enumerate(labels)}
    rcase = {**case, "relabel": [[x, relabel[x]] for x in labels]}
    if first_impl is not None:
        impl, nodes = first_impl
        g2 = guard(lambda: next(iter(static_instances(flip_wt(case), lambda x: relabel[x]))))
        if g2[0] != "ok":
            ctx.violation(rcase, f"building the relabelled hypergraph raised {g2[1]}")
        else:
            h2 = g2[1][1]

            def fe(e):
                return tuple(sorted(relabel[x] for x in e))
            todo = [((c, s), fn, (s,), fe) for s in (1, 2, 3) for c, fn in (("btw", sc.s_betweenness), ("clo", sc.s_closeness))]
            todo += [((c, "n"), fn, (), lambda x: relabel[x]) for c, fn in (("btw", sc.s_betweenness_nodes), ("clo", sc.s_closeness_nodes))]
            for k, fn, args, fk in todo:
                base = impl.get(k)
                if base is None:
                    continue
                r = guard(fn, h2, *args)
                if r[0] != "ok" or not isinstance(r[1], dict):
                    ctx.violation(rcase, f"{fn.__name__} on the relabelled hypergraph raised / returned {r[1]!r}")
                    continue
                d2 = r[1]
                if set(d2) != {fk(x) for x in base} or any(not close(d2[fk(x)], base[x]) for x in base):
                    ctx.violation(rcase, f"{fn.__name__}{args}: values are not carried along by the relabelling: {base!r} vs {d2!r}" + twin_note(case))
            if "subhg" in impl:
                r = guard(subhypergraph_centrality, h2)
                if r[0] != "ok":
                    ctx.violation(rcase, f"subhypergraph_centrality on the relabelled hypergraph raised {r[1]}")
                else:
                    v2 = np.asarray(r[1]).reshape(-1)
                    srt2 = sorted(relabel[x] for x in nodes)
                    d2 = {y: v2[i] for i, y in enumerate(srt2)} if len(v2) == len(srt2) else {}
                    if any(not close(d2.get(relabel[x], math.nan), v, 1e-8) for x, v in impl["subhg"].items()):
                        ctx.violation(rcase, "subhypergraph_centrality: values are not carried along by the relabelling" + twin_note(case))
    ctx.case(repr(("static", case.get("via"), keys)), vals.nontrivial(), sample=case)
    ctx.count("static_str_labels" if isinstance(labels[0], str) else "static_int_labels")
    ctx.count("static_via_" + str(case.get("via") or "fresh"))


def check_static_obj(ctx, drv, case, h, nodes, edges, rank, vals, s_order=(1, 2, 3), parts=("edges", "nodes", "subhg"), light=False):
    """all static centralities of ONE object whose listing is `nodes`, `edges`; returns what the implementation gave.
    `parts`: which families are judged; `light`: the property oracles only (no stub runs, no model lines)"""
    import networkx as nx
    import numpy as np
    from hypergraphx.representations.projections import line_graph, bipartite_projection
    from hypergraphx.measures import s_centralities as sc
    from hypergraphx.measures.sub_hypergraph_centrality import subhypergraph_centrality
    lines = ["load " + hgxv.enc_list([rank[x] for x in nodes]) + " " + hgxv.enc_lists([[rank[x] for x in e] for e in edges])]
    checks = [lambda a: a == "ok" or f"load answered {a!r}"]
    impl = {}
    count_class(ctx, "static", h, edges)

    # --- what line_graph READS of the object besides get_edges(): len(h) and get_incident_edges(node) per node (Model/C20Reads.lean)
    reads = None
    if not light and "edges" in parts:
        rr = guard(lambda: (len(h), [[sorted(rank[x] for x in e) for e in h.get_incident_edges(x0)] for x0 in nodes]))
        if rr[0] == "ok" and isinstance(rr[1][0], int) and all(len(e) for l in rr[1][1] for e in l):
            reads = f"{rr[1][0]} " + hgxv.enc_listss(rr[1][1])
            if rr[1][0] != len(edges):
                ctx.count("reads_len_differs_from_listing")
    # --- projections (correspondence) and s-centralities of hyperedges
    for s in (s_order if "edges" in parts else ()):
        adj = own_line(edges, s)
        g_own = nx_graph(adj)
        for name, fn, exact_fn, nxf, cname in (("s_betweenness", sc.s_betweenness, exact_betweenness, nx.betweenness_centrality, "btw"),
                                               ("s_closeness", sc.s_closeness, exact_closeness, nx.closeness_centrality, "clo")):
            ref = exact_fn(adj)
            refnx = nxf(g_own)
            d = check_dict(ctx, {**case, "s": s}, f"{name}(H, s={s})", guard(fn, h, s), edges,
                           {e: ref[i] for i, e in enumerate(edges)}, {e: refnx[i] for i, e in enumerate(edges)}, vals, "hyperedge")
            for i in range(len(edges)):
                if not close(ref[i], refnx[i]):
                    ctx.disagree({**case, "s": s}, f"reference drift: own {name} {ref[i]} vs networkx {refnx[i]} on the own line graph")
            impl[(cname, s)] = d
            impl[("ref" + cname, s)] = {e: ref[i] for i, e in enumerate(edges)}
            lines.append(f"se {cname} {s}")
            checks.append(("items", (cname, s), lambda k: ekey(rank, k), False, ("ref" + cname, s)))
        if light:
            continue
        lg = guard(line_graph, h, s=s)
        if reads is not None:
            # the loops of line_graph on the readings: the same graph, or the same KeyError
            try:
                want = "rej" if lg[0] != "ok" and lg[1].startswith("KeyError") else None if lg[0] != "ok" else \
                    (hgxv.enc_list(sorted(lg[1][0].nodes)) + " " + hgxv.enc_lists(sorted(sorted(e) for e in lg[1][0].edges())))
            except Exception:  # noqa: BLE001
                want = None
            if want is not None:
                lines.append(f"rline {s} {reads}")
                checks.append(("rline", want))
        if lg[0] == "ok":
            try:
                g, tab = lg[1]
                want = (hgxv.enc_lists(sorted(sorted(e) for e in g.edges())) + " "
                        + hgxv.enc_lists([[rank[x] for x in tab[i]] for i in range(len(tab))]))
                lines.append(f"line {s}")
                checks.append(("line", want))
                if sorted(g.nodes) != list(range(len(edges))):
                    ctx.violation({**case, "s": s}, f"line_graph vertices {sorted(g.nodes)} are not one per hyperedge")
                elif len(edges) <= 12:
                    # the breadth-first searches of networkx on the graph the CODE built vs `distSigma (levels ..)` of the model
                    # (theorem C20_dist_spec speaks about exactly these): distances and shortest-path counts, exact integers
                    want_sp = nx_sp_table(g, list(range(len(edges))))
                    if want_sp is not None:
                        lines.append(f"sp {s}")
                        checks.append(("sp", want_sp))
                        ctx.count("sp_tables_compared")
            except Exception as e:  # noqa: BLE001
                ctx.disagree({**case, "s": s}, f"line_graph(h, s={s}) returned something that is not (graph, id table 0..m-1): {type(e).__name__}: {e}")
        with StubNx():
            for name, fn in (("s_betweenness", sc.s_betweenness), ("s_closeness", sc.s_closeness)):
                # (never reached in light mode)
                r = guard(fn, h, s)
                impl[("stub" + name, s)] = r[1] if r[0] == "ok" and isinstance(r[1], dict) else None
                lines.append(f"se stub {s}")
                checks.append(("items", ("stub" + name, s), lambda k: ekey(rank, k), True))
                if reads is not None and (impl[("stub" + name, s)] is not None or r[1].startswith("KeyError")):
                    impl[("rstub" + name, s)] = impl[("stub" + name, s)] if r[0] == "ok" else "KeyError"
                    lines.append(f"rse stub {s} {reads}")
                    checks.append(("items", ("rstub" + name, s), lambda k: ekey(rank, k), True))

    # --- node versions on the bipartite projection
    adj = own_bip(nodes, edges) if "nodes" in parts else {}
    g_own = nx_graph(adj)
    for name, fn, exact_fn, nxf, cname in ((("s_betweenness_nodes", sc.s_betweenness_nodes, exact_betweenness, nx.betweenness_centrality, "btw"),
                                            ("s_closeness_nodes", sc.s_closeness_nodes, exact_closeness, nx.closeness_centrality, "clo"))
                                           if "nodes" in parts else ()):
        ref = exact_fn(adj)
        refnx = nxf(g_own)
        d = check_dict(ctx, case, f"{name}(H)", guard(fn, h), nodes, {x: ref[("n", x)] for x in nodes},
                       {x: refnx[("n", x)] for x in nodes}, vals, "node")
        impl[(cname, "n")] = d
        if all(x in set(nodes) for e in edges for x in e):
            impl[("ref" + cname, "n")] = {x: ref[("n", x)] for x in nodes}
        lines.append(f"sn {cname}")
        checks.append(("items", (cname, "n"), lambda k: "n" + str(rank[k]), False, ("ref" + cname, "n")))
    with StubNx():
        for name, fn in ((("s_betweenness_nodes", sc.s_betweenness_nodes), ("s_closeness_nodes", sc.s_closeness_nodes))
                         if "nodes" in parts and not light else ()):
            r = guard(fn, h)
            impl[("stub" + name, "n")] = r[1] if r[0] == "ok" and isinstance(r[1], dict) else None
            lines.append("sn stub")
            checks.append(("items", ("stub" + name, "n"), lambda k: "n" + str(rank[k]), True))
    bp = guard(bipartite_projection, h) if "nodes" in parts and not light else ("skip", None)
    if bp[0] == "ok":
        try:
            g, tab = bp[1]

            def obj(o):
                return "e" + ekey(rank, o) if isinstance(o, tuple) else "n" + str(rank[o])
            want = (",".join(str(v) for v in g.nodes) or "-") + " " + (",".join(sorted("~".join(sorted(map(str, e))) for e in g.edges())) or "-") \
                + " " + (",".join(sorted(f"{k}={obj(o)}" for k, o in tab.items())) or "-")
            lines.append("bip")
            checks.append(("bip", want))
            if len(g.nodes) <= 12:
                want_sp = nx_sp_table(g, list(g.nodes))
                if want_sp is not None:
                    lines.append("sp n")
                    checks.append(("sp", want_sp))
                    ctx.count("sp_tables_compared")
        except Exception as e:  # noqa: BLE001
            ctx.disagree(case, f"bipartite_projection returned something that is not (graph, id table over the nodes / hyperedges): {type(e).__name__}: {e}")

    # --- sub-hypergraph centrality = log diag expm(A)
    if edges and "subhg" in parts:
        from scipy.linalg import expm
        srt = sorted(nodes)
        idx = {x: i for i, x in enumerate(srt)}
        A = adjacency_of(srt, edges)
        want = np.log(np.diag(expm(A)))
        r = guard(subhypergraph_centrality, h)
        if r[0] != "ok":
            ctx.violation(case, f"subhypergraph_centrality raised {r[1]}")
        else:
            got_v = np.asarray(r[1], dtype=float).reshape(-1)
            if got_v.shape != want.shape or not np.all(np.abs(got_v - want) <= 1e-8 * np.maximum(1, np.abs(want))):
                ctx.violation(case, f"subhypergraph_centrality = {got_v.tolist()}, log diag expm(A) = {want.tolist()} (nodes {srt})")
            else:
                vals.add(got_v.tolist())
                impl["subhg"] = {x: got_v[idx[x]] for x in srt}
    if not light:
        run_model(ctx, drv, case, lines, checks, impl)
    return impl


def run_model(ctx, drv, case, lines, checks, impl):
    if drv is None:
        return
    ans = drv.batch(lines)
    for ln, a, ck in zip(lines, ans, checks):
        if callable(ck):
            r = ck(a)
            if r is not True:
                ctx.disagree({**case, "line": ln}, str(r))
        elif ck[0] == "items":
            compare_items(ctx, case, ln, a, impl.get(ck[1]), ck[2], ck[3])
            if len(ck) > 4 and impl.get(ck[4]) is not None:
                # the model's exact rational vs the exact Brandes / BFS reference of the property oracle: EQUAL, not close
                m = parse_items(a)
                if m is not None and "dup" not in m:
                    for k, v in impl[ck[4]].items():
                        if m.get(ck[2](k)) != v:
                            ctx.disagree({**case, "line": ln}, f"{ln!r}: model value {m.get(ck[2](k))} of {k!r} is not the exact reference value {v} "
                                                               f"(own Brandes / BFS in rationals)")
                            break
                    else:
                        ctx.count("exact_rational_tables_equal")
        else:
            if ck[0] == "bip":
                parts = a.split(" ")
                if len(parts) == 3:
                    a = parts[0] + " " + ",".join(sorted(parts[1].split(","))) + " " + ",".join(sorted(parts[2].split(",")))
            elif ck[0] == "line":
                parts = a.split(" ")
                if len(parts) == 2 and parts[0] != "-":
                    a = ";".join(sorted(parts[0].split(";"), key=lambda t: [int(z) for z in t.split(",")])) + " " + parts[1]
            elif ck[0] == "rline":
                parts = a.split(" ")
                if len(parts) == 2 and parts[1] != "-":
                    a = parts[0] + " " + ";".join(sorted(parts[1].split(";"), key=lambda t: [int(z) for z in t.split(",")]))
            if a != ck[1]:
                ctx.disagree({**case, "line": ln}, f"model answers {a!r} to {ln!r}, implementation gives {ck[1]!r}")



# ------------------------------------------------------------------------------------------
# stream 2: temporal hypergraphs

def temporal_instances(case, f=None):
    from hypergraphx import TemporalHypergraph
    fresh = [["add", list(e), t] for e, t in zip(case.get("edges", []), case.get("times", []))]
    new, app = weighted_ctor(TemporalHypergraph, apply_temporal, case.get("wt"))
    return instances(case, new, app, sim_temporal, fresh, f)


def check_temporal(ctx, drv, case):
    from hypergraphx.measures import s_centralities as sc
    vals = Values()
    rank = {x: i for i, x in enumerate(sorted(set(case["labels"])))}
    keys, first_impl = [], None
    for tag, T, exp in each_instance(ctx, case, temporal_instances(case)):
        icase = {**case, "instance": tag} if case.get("via") else case
        r = guard(lambda: [(t, tuple(sorted(e))) for t, e in T.get_edges()])
        if r[0] != "ok":
            ctx.violation(icase, f"get_edges() of the temporal hypergraph ({tag}) raised {r[1]}")
            continue
        recs = r[1]
        if len(set(recs)) != len(recs) or set(recs) != set(exp):
            ctx.violation(icase, f"the temporal hypergraph ({tag}) lists {recs!r}; its history leaves {exp!r}")
            continue
        keys.append((tag, [(t, sorted(rank[x] for x in e)) for t, e in recs]))
        impl = check_temporal_obj(ctx, drv, icase, T, recs, rank, vals, (1, 2, 3) if not keys[:-1] else (3, 2, 1))
        if first_impl is None:
            first_impl = impl
        ctx.count("temporal_instance_" + tag.replace(" ", "_"))
    # relabelling (injective, not monotone, into the other kind of labels)
    labels = sorted(set(case["labels"]))
    perm = list(range(len(labels)))
    ctx.rng.shuffle(perm)
    if "relabel" in case:
        relabel = {a: b for a, b in case["relabel"]}
    elif isinstance(labels[0], str):
        relabel = {x: 100 + 3 * perm[i] for i, x in enumerate(labels)}
    else:
        relabel = {x: "EN" + chr(65 + perm[i]) for i, x in enumerate(labels)}
    rcase = {**case, "relabel": [[x, relabel[x]] for x in labels]}
    if first_impl is not None:
        impl = first_impl
        g2 = guard(lambda: next(iter(temporal_instances(flip_wt(case), lambda x: relabel[x]))))
        if g2[0] != "ok":
            ctx.violation(rcase, f"building the relabelled temporal hypergraph raised {g2[1]}")
        else:
            T2 = g2[1][1]

            def fe(e):
                return tuple(sorted(relabel[x] for x in e))
            todo = [((c, s), fn, (s,), fe) for s in (1, 2) for c, fn in (("btw", sc.s_betweenness_averaged), ("clo", sc.s_closeness_averaged))]
            todo += [((c, "n"), fn, (), lambda x: relabel[x]) for c, fn in (("btw", sc.s_betweenness_nodes_averaged), ("clo", sc.s_closenness_nodes_averaged))]
            for k, fn, args, fk in todo:
                base = impl.get(k)
                if base is None:
                    continue
                r = guard(fn, T2, *args)
                if r[0] != "ok" or not isinstance(r[1], dict):
                    ctx.violation(rcase, f"{fn.__name__} on the relabelled temporal hypergraph raised / returned {r[1]!r}")
                    continue
                d2 = r[1]
                if set(d2) != {fk(x) for x in base} or any(not close(d2[fk(x)], base[x]) for x in base):
                    ctx.violation(rcase, f"{fn.__name__}{args}: values are not carried along by the relabelling: {base!r} vs {d2!r}" + twin_note(case))
    ctx.case(repr(("temporal", case.get("via"), keys)), vals.nontrivial(), sample=case)
    ctx.count("temporal_str_labels" if isinstance(case["labels"][0], str) else "temporal_int_labels")
    ctx.count("temporal_via_" + str(case.get("via") or "fresh"))


def check_temporal_obj(ctx, drv, case, T, recs, rank, vals, s_order=(1, 2, 3)):
    from hypergraphx.measures import s_centralities as sc
    lines = ["tload " + hgxv.enc_list([t for t, _ in recs]) + " " + hgxv.enc_lists([[rank[x] for x in e] for _, e in recs])]
    checks = [lambda a: a == "ok" or f"tload answered {a!r}"]
    impl = {}
    count_class(ctx, "temporal", T, [e for _, e in recs])
    # own snapshots: hyperedges per time; nodes = members
    tms = sorted({t for t, _ in recs})
    snap_edges = {t: [e for (u, e) in recs if u == t] for t in tms}
    snap_nodes = {t: sorted({x for e in snap_edges[t] for x in e}) for t in tms}
    all_edges = sorted({e for _, e in recs})
    all_nodes = sorted({x for e in all_edges for x in e})
    nT = len(tms)
    sub = guard(T.subhypergraph)
    if sub[0] == "ok":
        try:
            d = sub[1]
            want = (hgxv.enc_list(list(d.keys())) + " " + hgxv.enc_lists([[rank[x] for x in hh.get_nodes()] for hh in d.values()]) + " "
                    + ("|".join(";".join(",".join(str(rank[x]) for x in e) or "_" for e in hh.get_edges()) or "_" for hh in d.values()) or "-"))
            lines.append("snaps")
            checks.append(("plain", want))
        except Exception as e:  # noqa: BLE001
            ctx.disagree(case, f"subhypergraph() returned something that is not a dict time -> Hypergraph over the labels: {type(e).__name__}: {e}")
    for s in s_order:
        for name, fn, exact_fn, cname in (("s_betweenness_averaged", sc.s_betweenness_averaged, exact_betweenness, "btw"),
                                          ("s_closeness_averaged", sc.s_closeness_averaged, exact_closeness, "clo")):
            tot = {e: Fraction(0) for e in all_edges}
            for t in tms:
                ref = exact_fn(own_line(snap_edges[t], s))
                for i, e in enumerate(snap_edges[t]):
                    tot[e] += ref[i]
            ref = {e: v / nT for e, v in tot.items()} if nT else {}
            dd = check_dict(ctx, {**case, "s": s}, f"{name}(T, s={s})", guard(fn, T, s), all_edges, ref, None, vals, "hyperedge")
            impl[(cname, s)] = dd
            lines.append(f"tse {cname} {s}")
            checks.append(("items", (cname, s), lambda k: ekey(rank, k), False))
        with StubNx():
            for name, fn in (("b", sc.s_betweenness_averaged), ("c", sc.s_closeness_averaged)):
                r = guard(fn, T, s)
                impl[("stub" + name, s)] = r[1] if r[0] == "ok" and isinstance(r[1], dict) else None
                lines.append(f"tse stub {s}")
                checks.append(("items", ("stub" + name, s), lambda k: ekey(rank, k), True))
    for name, fn, exact_fn, cname in (("s_betweenness_nodes_averaged", sc.s_betweenness_nodes_averaged, exact_betweenness, "btw"),
                                      ("s_closenness_nodes_averaged", sc.s_closenness_nodes_averaged, exact_closeness, "clo")):
        tot = {x: Fraction(0) for x in all_nodes}
        for t in tms:
            ref = exact_fn(own_bip(snap_nodes[t], snap_edges[t]))
            for x in snap_nodes[t]:
                tot[x] += ref[("n", x)]
        ref = {x: v / nT for x, v in tot.items()} if nT else {}
        dd = check_dict(ctx, case, f"{name}(T)", guard(fn, T), all_nodes, ref, None, vals, "node")
        impl[(cname, "n")] = dd
        lines.append(f"tsn {cname}")
        checks.append(("items", (cname, "n"), lambda k: "n" + str(rank[k]), False))
    with StubNx():
        for name, fn in (("b", sc.s_betweenness_nodes_averaged), ("c", sc.s_closenness_nodes_averaged)):
            r = guard(fn, T)
            impl[("stub" + name, "n")] = r[1] if r[0] == "ok" and isinstance(r[1], dict) else None
            lines.append("tsn stub")
            checks.append(("items", ("stub" + name, "n"), lambda k: "n" + str(rank[k]), True))
    ctx.count(f"temporal_snapshots_{nT}")
    run_model(ctx, drv, case, lines, checks, impl)
    return impl



# ------------------------------------------------------------------------------------------
# stream 3: CEC / HEC on connected uniform hypergraphs

CEC_TOL, CEC_ITER = 1e-7, 1000     # documented defaults of CEC_centrality / power_method
HEC_TOL, HEC_ITER = 1e-6, 100      # documented defaults of HEC_centrality


class FixedStart:
    """np.random.rand / np.random.uniform return the given vector (the code's random start)"""

    def __init__(self, x0):
        self.x0 = x0

    def __enter__(self):
        import numpy as np
        self.np = np
        self.old = (np.random.rand, np.random.uniform)
        x0 = self.x0
        np.random.rand = lambda *a, **k: np.array(x0, dtype=float)
        np.random.uniform = lambda *a, **k: np.array(x0, dtype=float)
        return self

    def __exit__(self, *a):
        self.np.random.rand, self.np.random.uniform = self.old


def as_vec(ctx, case, name, r, n):
    import numpy as np
    if r[0] != "ok":
        ctx.violation(case, f"{name} raised {r[1]}")
        return None
    d = r[1]
    try:
        ok = isinstance(d, dict) and len(d) == n and all(i in d for i in range(n))
        v = np.array([float(d[i]) for i in range(n)]) if ok else None
    except Exception:  # noqa: BLE001
        ok, v = False, None
    if not ok:
        ctx.violation(case, f"{name}: result {d!r} does not give one number to each node 0..{n - 1}")
        return None
    return v


def uniform_instances(case, f=None):
    from hypergraphx import Hypergraph
    f = f or (lambda x: x)
    edges = [tuple(e) for e in case["edges"]]
    wt = case.get("wt")
    if not case.get("via"):
        # the constructor (the other modes go through add_edge / remove_edge)
        def gen():
            kw = {"weighted": True, "weights": [weight_of(wt, i) for i in range(len(edges))]} if wt is not None else {}
            yield "fresh", Hypergraph([tuple(f(x) for x in e) for e in edges], **kw), sim_static([["add_edge", list(e)] for e in edges])
        return gen()
    new, app = weighted_ctor(Hypergraph, apply_static, wt)
    return instances(case, new, app, sim_static, [], f)


class Spectrum:
    def __init__(self, n, k, E):
        import numpy as np
        self.n, self.k, self.m = n, k, k - 1
        self.E = np.array([list(e) for e in E], dtype=int).reshape(len(E), k)
        self.W = np.zeros((n, n))
        for e in E:
            for a in e:
                for b in e:
                    if a != b:
                        self.W[a, b] += 1
        ev = np.linalg.eigvalsh(self.W)
        self.lam_max = float(ev[-1])
        self.rho = float(max(abs(ev[0]), abs(ev[-2])) / ev[-1]) if n >= 2 else 0.0


def table_line(cmd, max_iter, tol, table):
    return f"{cmd} {max_iter} {hgxv.enc_num(Fraction(tol))} " + hgxv.enc_list([Fraction(v) for v in table])


def borderline(table, tol):
    return any(abs(v - tol) <= 1e-9 * tol for v in table)


def judge_cec(ctx, drv, case, sp, c, x0, passes, vals):
    """one CEC run with DEFAULT arguments from the start `x0` (None: not observed). Returns True when the documented
    iteration from x0 meets its stopping test within the documented budget (then the eigen-equation was demanded)"""
    import numpy as np
    vals.add(c.tolist())
    if not (np.all(c > 0) and abs(np.linalg.norm(c) - 1) <= 1e-9):
        ctx.violation(case, f"CEC is not a positive unit vector: {c.tolist()}")
        return False
    lam = float(c @ sp.W @ c)
    res = float(np.linalg.norm(sp.W @ c - lam * c))
    if x0 is None or len(x0) != sp.n:
        ctx.count("cec_start_not_observed")
        if 1 - sp.rho >= 0.05 and (res > 1e-5 * max(1.0, lam) or abs(lam - sp.lam_max) > 1e-5 * max(1.0, sp.lam_max)):
            ctx.violation(case, f"CEC: |W c - lambda c| = {res:.3g}, lambda = {lam!r}, lambda_max = {sp.lam_max!r}")
        return False
    _, k_own, table = own_power(sp.W, x0, CEC_ITER, CEC_TOL)
    conv = bool(table) and table[-1] <= CEC_TOL
    ctx.count("cec_passes_%s" % ("le_100" if k_own <= 100 else "101_300" if k_own <= 300 else "301_999" if k_own < 1000 else "1000"))
    if drv is not None and passes is not None and passes > 0 and not borderline(table, CEC_TOL):
        a = drv.batch([table_line("pmcount", CEC_ITER, CEC_TOL, table)])[0]
        if a != str(passes):
            ctx.disagree(case, f"power_method made {passes} passes; the model's loop `while res > tol and k < max_iter` (tol=1e-7, max_iter=1000) "
                               f"on the residuals of the documented iteration from the same start makes {a}")
    if not conv:
        ctx.count("cec_budget_exhausted")
        return False
    # C20_cec_returned: W x' - c x' = W (x' - x) for the returned x' = W x / c, |x' - x| <= tol at the stop, |W| = lambda_max;
    # the Rayleigh quotient minimises the residual
    bound = sp.lam_max * CEC_TOL * (1 + 1e-3) + 1e-12 * sp.lam_max
    if res > bound:
        ctx.violation(case, f"CEC (default arguments): |W c - lambda c| = {res:.4g} exceeds lambda_max * tol = {sp.lam_max * CEC_TOL:.4g}, the bound the "
                            f"documented tol=1e-7 guarantees; the documented iteration from the same start stops after {k_own} <= {CEC_ITER} passes "
                            f"(relative residual {res / sp.lam_max:.3g})")
    elif 1 - sp.rho >= 1e-3 and abs(lam - sp.lam_max) > 1e-5 * max(1.0, sp.lam_max):
        ctx.violation(case, f"CEC: lambda = {lam!r} is not lambda_max = {sp.lam_max!r}")
    return True


def judge_hec(ctx, drv, case, sp, x, x0, passes, vals):
    import numpy as np
    vals.add(x.tolist())
    if not (np.all(x > 0) and abs(np.sum(x) - 1) <= 1e-9):
        ctx.violation(case, f"HEC is not a positive vector of sum 1: {x.tolist()}")
        return False
    m = sp.m
    y = hec_apply(sp.E, sp.n, x)
    r = y ** (1.0 / m)
    cst = float(np.sum(r) ** m)                      # the constant of C20_hec_fixed_point
    xn = r / np.sum(r)
    dist = float(np.linalg.norm(x - xn))
    resid = float(np.linalg.norm(y - cst * x ** m))
    if x0 is None or len(x0) != sp.n:
        ctx.count("hec_start_not_observed")
        if sp.n <= 9 and float(np.max(np.abs(y - cst * x ** m))) > 1e-5:
            ctx.violation(case, f"HEC: max_i |sum_e prod_others - c x_i^{m}| = {float(np.max(np.abs(y - cst * x ** m))):.3g} (c = {cst!r})")
        return False
    _, k_own, table, broke = own_hec(sp.E, sp.n, m, x0, HEC_ITER, HEC_TOL)
    ctx.count("hec_passes_%s" % ("le_30" if k_own <= 30 else "31_60" if k_own <= 60 else "61_100" if broke else "exhausted"))
    if drv is not None and passes is not None and passes > 0 and not borderline(table, HEC_TOL):
        a = drv.batch([table_line("heccount", HEC_ITER, HEC_TOL, table)])[0]
        if a != f"{passes} {1 if broke else 0}":
            ctx.disagree(case, f"HEC_centrality called apply {passes} times; the model's loop (max_iter=100, tol=1e-6) on the distances of the "
                               f"documented iteration from the same start answers {a!r} (passes, stopped by the test)")
    if not broke:
        ctx.count("hec_budget_exhausted")
        return False
    # C20_hec_residual_sharp: |y_j - c x_j^m| <= c m M^(m-1) |x_new_j - x_j| for entries in [0, M]; |x_new - x|_2 <= tol at the stop
    M = float(max(np.max(x), np.max(xn)))
    bound = cst * m * M ** (m - 1) * HEC_TOL
    if resid > bound * (1 + 1e-6) + 1e-15 or dist > HEC_TOL * (1 + 1e-6) + 1e-15:
        ctx.violation(case, f"HEC (default arguments): |(sum_e prod_others)_j - c x_j^{m}|_2 = {resid:.4g} (c = {cst:.6g}), |x - step(x)|_2 = {dist:.4g}; "
                            f"the documented tol=1e-6 guarantees <= {bound:.4g} resp. <= 1e-6, and the documented iteration from the same start "
                            f"stops after {k_own} <= {HEC_ITER} passes")
    return True


def check_uniform(ctx, drv, case):
    n, k = case["n"], case["k"]
    vals = Values()
    keys = []
    first = True
    for tag, h, exp in each_instance(ctx, case, uniform_instances(case)):
        icase = {**case, "instance": tag} if case.get("via") else case
        got = listing(ctx, icase, tag, h, exp)
        if got is None:
            continue
        nodes, E = got
        if sorted(nodes) != list(range(n)):
            ctx.violation(icase, f"the object ({tag}) has nodes {sorted(nodes)}, not 0..{n - 1}")
            continue
        keys.append((tag, sorted(E)))
        check_uniform_obj(ctx, drv, icase, h, [tuple(e) for e in h.get_edges()], n, k, vals, first)
        first = False
        ctx.count("uniform_instance_" + tag.replace(" ", "_"))
    ctx.case(repr(("uniform", n, case.get("via"), keys)), vals.nontrivial(), sample=case)
    ctx.count(f"uniform_k{k}")
    ctx.count("uniform_family_" + str(case.get("family", "random")))
    ctx.count("uniform_via_" + str(case.get("via") or "fresh"))


def run_default(ctx, case, ec, fn, name, h, n, fixed=None):
    """one call with DEFAULT arguments; the random start and the number of passes are observed"""
    with CountPasses(ec) as cp:
        if fixed is None:
            with RecordStart() as rs:
                r = guard(fn, h)
            x0 = rs.starts[0] if len(rs.starts) == 1 and getattr(rs.starts[0], "shape", None) == (n,) else None
        else:
            with FixedStart(fixed):
                r = guard(fn, h)
            x0 = fixed
    v = as_vec(ctx, case, name, r, n)
    return v, x0, (cp.dots if fn is ec.CEC_centrality else cp.applies)


def check_uniform_obj(ctx, drv, case, h, E, n, k, vals, full):
    import numpy as np
    from hypergraphx import Hypergraph
    from hypergraphx.measures import eigen_centralities as ec
    sp = Spectrum(n, k, E)
    count_class(ctx, "uniform", h, E)
    slow = n > 25
    starts = (ctx.scale(3, 5) if not slow else 2) if full else 1
    np.random.seed(case["seed"])
    cec_runs, hec_runs = [], []
    for st in range(starts):
        scase = {**case, "start": st}
        c, x0, passes = run_default(ctx, scase, ec, ec.CEC_centrality, "CEC_centrality", h, n)
        if c is not None and judge_cec(ctx, drv if st == 0 else None, scase, sp, c, x0, passes, vals):
            cec_runs.append(c)
        if st < (1 if slow and not full else starts):
            x, x0, passes = run_default(ctx, scase, ec, ec.HEC_centrality, "HEC_centrality", h, n)
            if x is not None and judge_hec(ctx, drv if st == 0 else None, scase, sp, x, x0, passes, vals):
                hec_runs.append(x)
    for r in cec_runs[1:]:
        if 1 - sp.rho >= 1e-3 and np.max(np.abs(r - cec_runs[0])) > 4 * CEC_TOL / (1 - sp.rho) + 1e-9:
            ctx.violation(case, f"CEC: two random starts, both within the documented budget, give vectors that differ by {np.max(np.abs(r - cec_runs[0])):.3g} "
                                f"(spectral gap 1 - |lambda_2|/lambda_max = {1 - sp.rho:.3g}): {cec_runs[0].tolist()} / {r.tolist()}")
    for r in hec_runs[1:]:
        # no spectral-gap bound is at hand for the HEC map: the stopping test can fire far from the fixed point on nearly reducible
        # hypergraphs (tiny steps), so agreement of two starts is demanded on the small random hypergraphs only
        if case.get("family", "random") == "random" and np.max(np.abs(r - hec_runs[0])) > 1e-3:
            ctx.violation(case, f"HEC: two random starts give different vectors {hec_runs[0].tolist()} / {r.tolist()}")
    if not full:
        return

    # relabelling by a permutation, the random start carried along (default arguments, the dyadic start judged as well)
    perm = list(range(n))
    ctx.rng.shuffle(perm)
    x0 = [ctx.rng.randint(1, 15) / 16 for _ in range(n)]
    if "perm" in case and "x0" in case:
        perm, x0 = list(case["perm"]), list(case["x0"])
    x0p = [0.0] * n
    for i in range(n):
        x0p[perm[i]] = x0[i]
    pcase = {**case, "perm": perm, "x0": x0}
    # (the relabelled twin is weighted iff the object is not)
    wkw = {"weighted": True, "weights": [weight_of(6, i) for i in range(len(E))]} if case.get("wt") is None else {}
    hp = guard(lambda: Hypergraph([tuple(perm[a] for a in e) for e in E], **wkw))
    if hp[0] != "ok":
        ctx.violation(pcase, f"building the relabelled hypergraph raised {hp[1]}")
    else:
        for nm, fn, judge in (("CEC_centrality", ec.CEC_centrality, judge_cec), ("HEC_centrality", ec.HEC_centrality, judge_hec)):
            a, _, passes = run_default(ctx, pcase, ec, fn, nm, h, n, fixed=x0)
            if a is not None:
                judge(ctx, None, pcase, sp, a, np.array(x0, dtype=float), passes, vals)
            with FixedStart(x0p):
                b = as_vec(ctx, pcase, nm + " (relabelled)", guard(fn, hp[1]), n)
            if a is not None and b is not None:
                if any(abs(b[perm[i]] - a[i]) > 1e-9 for i in range(n)):
                    ctx.violation(pcase, f"{nm}: values are not carried along by the permutation (same start carried along): "
                                         f"{a.tolist()} vs {b.tolist()}" + twin_note(case))

    # --- correspondence: apply, W, one step of each iteration from a dyadic start
    if drv is None:
        return
    lines = [f"eload {n} " + hgxv.enc_lists(E), "apply " + hgxv.enc_list([Fraction(v) for v in x0]), "W"]
    ans = drv.batch(lines)
    g = lambda v, e: np.prod(v[list(e)])  # noqa: E731  (the g of HEC_centrality)
    ra = guard(ec.apply, h, np.array(x0), g)
    if ans[0] != "ok":
        ctx.disagree(pcase, f"eload answered {ans[0]!r}")
        return
    y_model = [Fraction(v) for v in hgxv.dec_list(ans[1])]
    if ra[0] != "ok":
        ctx.violation(pcase, f"apply raised {ra[1]}")
    elif [float(v) for v in y_model] != [float(v) for v in ra[1]]:
        ctx.disagree(pcase, f"apply(x0): model {[float(v) for v in y_model]}, implementation {list(ra[1])}")
    captured = {}

    def fake_pm(Wm, *a, **kw):
        captured["W"] = np.array(Wm)
        return np.ones(len(Wm))
    old = ec.power_method
    ec.power_method = fake_pm
    try:
        guard(ec.CEC_centrality, h)
    finally:
        ec.power_method = old
    w_model = [[float(Fraction(v)) for v in row] for row in hgxv.dec_lists(ans[2])]
    if "W" in captured and captured["W"].tolist() != w_model:
        ctx.disagree(pcase, f"W of CEC_centrality: model {w_model}, implementation {captured['W'].tolist()}")
    if "W" not in captured:
        ctx.disagree(pcase, "CEC_centrality did not hand a matrix to power_method")
    # one step of power_method / HEC from x0 (max_iter=1)
    xs = np.array(x0) / np.linalg.norm(np.array(x0))
    Wm = np.array(w_model)
    yy = Wm @ xs
    with FixedStart(x0):
        r1 = as_vec(ctx, pcase, "CEC_centrality(max_iter=1)", guard(ec.CEC_centrality, h, max_iter=1), n)
    if r1 is not None and np.max(np.abs(r1 - yy / np.linalg.norm(yy))) > 1e-12:
        ctx.disagree(pcase, f"one power step: W x/|W x| from the model's W = {(yy / np.linalg.norm(yy)).tolist()}, implementation {r1.tolist()}")
    x1 = np.array(x0) / np.sum(x0)
    a2 = drv.batch(["apply " + hgxv.enc_list([Fraction(float(v)) for v in x1])])[0]
    ym = np.array([float(Fraction(v)) for v in hgxv.dec_list(a2)])
    rr = ym ** (1.0 / (k - 1))
    a3 = drv.batch(["hecnorm " + hgxv.enc_list([Fraction(float(v)) for v in rr])])[0]
    with FixedStart(x0):
        r2 = as_vec(ctx, pcase, "HEC_centrality(max_iter=1)", guard(ec.HEC_centrality, h, max_iter=1), n)
    if r2 is not None:
        if a3 == "rej":
            ctx.disagree(pcase, "hecnorm rejected")
        else:
            hm = np.array([float(Fraction(v)) for v in hgxv.dec_list(a3)])
            if np.max(np.abs(r2 - hm)) > 1e-12:
                ctx.disagree(pcase, f"one HEC step: model {hm.tolist()}, implementation {r2.tolist()}")



# ------------------------------------------------------------------------------------------
# stream 4: sub-hypergraph centrality on dense / large hypergraphs (large spectral radius)

def dense_ops(case):
    """(fresh operations, history) of a dense case, over the labels"""
    lab = case["lab"]

    def le(e):
        return [dense_label(lab, v) for v in e]
    base = dense_edges(case)
    iso = [["add_node", dense_label(lab, v)] for v in case.get("iso", [])] + ([["add_edge", []]] if case.get("empty") else [])
    fresh = [["add_edge", le(e)] for e in base] + iso
    temp = [le(e) for e in case.get("temp", [])]
    pre = [["add_edge", e] for e in temp[:1]] + [["add_edge", le(e)] for e in base[:len(base) // 2]] + [["add_edge", e] for e in temp[1:]] \
        + [["add_edge", le(e)] for e in base[len(base) // 2:]] + iso + [["rm_edge", e] for e in temp]
    for e in case.get("readd", []):
        pre += [["rm_edge", le(e)], ["add_edge", le(e)]]
    return fresh, pre


def dense_instances(case):
    from hypergraphx import Hypergraph
    fresh, pre = dense_ops(case)
    lab = case["lab"]
    wt = case.get("wt")
    if not case.get("via"):
        def gen():
            edges = [tuple(o[1]) for o in fresh if o[0] == "add_edge"]
            h = Hypergraph(edges, **({"weighted": True, "weights": [weight_of(wt, i) for i in range(len(edges))]} if wt is not None else {}))
            apply_static(h, [o for o in fresh if o[0] == "add_node"])
            yield "fresh", h, sim_static(fresh)
        return gen()
    post = [[o[0], [dense_label(lab, v) for v in o[1]]] for o in case.get("post", [])]
    new, app = weighted_ctor(Hypergraph, apply_static, wt)
    return instances({"via": case["via"], "pre": pre, "post": post}, new, app, sim_static, [], None)


def subhg_judge(ctx, case, h, nodes, edges, vals):
    """subhypergraph_centrality(h) against log diag expm(A); returns (values by node, tolerance by node, judged nodes) or None"""
    import numpy as np
    count_class(ctx, "dense", h, edges)
    from hypergraphx.measures.sub_hypergraph_centrality import subhypergraph_centrality
    srt = sorted(nodes)
    if not srt:
        ctx.count("dense_empty_object")
        return None
    A = adjacency_of(srt, edges)
    want = log_diag_expm(A)
    second, radius = eigh_route(A)
    tol = subhg_tolerance(want, radius)
    ctx.count("dense_radius_%s" % ("lt_100" if radius < 100 else "100_700" if radius < 700 else "700_2000" if radius < 2000 else "ge_2000"))
    # judged: well-conditioned nodes on which the two references of the harness agree
    judged = [i for i in range(len(srt)) if np.isfinite(want[i]) and tol[i] <= 1e-3 and abs(second[i] - want[i]) <= tol[i]]
    ctx.count("dense_nodes_judged", len(judged))
    ctx.count("dense_nodes_ill_conditioned", int(np.sum(tol > 1e-3)))
    ctx.count("dense_nodes_reference_not_settled", len(srt) - len(judged) - int(np.sum(tol > 1e-3)))
    with np.errstate(all="ignore"):
        r = guard(subhypergraph_centrality, h)
    if r[0] != "ok":
        ctx.violation(case, f"subhypergraph_centrality raised {r[1]} (adjacency spectral radius {radius:.6g})")
        return None
    try:
        got = np.asarray(r[1], dtype=float).reshape(-1)
    except Exception as e:  # noqa: BLE001
        ctx.violation(case, f"subhypergraph_centrality returned {type(r[1]).__name__}: {e}")
        return None
    if got.shape != want.shape:
        ctx.violation(case, f"subhypergraph_centrality returned {got.shape[0]} values for {len(srt)} nodes")
        return None
    bad = [i for i in range(len(srt)) if not np.isfinite(got[i])] + [i for i in judged if not abs(got[i] - want[i]) <= tol[i]]
    if bad:
        i = bad[0]
        ctx.violation(case, f"subhypergraph_centrality: node {srt[i]!r} gets {got[i]!r}, log (expm A)_ii = {want[i]!r} by subtraction-free scaling and "
                            f"squaring and {second[i]!r} by an own eigh + log-sum-exp (adjacency spectral radius {radius:.6g}, {len(set(bad))} of {len(srt)} "
                            f"nodes not finite or beyond the tolerance {tol[i]:.3g})")
        return None
    vals.add(got.tolist())
    return dict(zip(srt, got)), dict(zip(srt, tol)), [srt[i] for i in judged]


def check_dense(ctx, drv, case):
    import numpy as np
    from hypergraphx import Hypergraph
    vals = Values()
    keys, first = [], None
    for tag, h, exp in each_instance(ctx, case, dense_instances(case)):
        icase = {**case, "instance": tag} if case.get("via") else case
        got = listing(ctx, icase, tag, h, exp)
        if got is None:
            continue
        nodes, edges = got
        keys.append((tag, len(nodes), hash(tuple(sorted(map(repr, edges))))))
        res = subhg_judge(ctx, icase, h, nodes, edges, vals)
        if first is None and res is not None:
            first = (res, nodes, edges)
        ctx.count("dense_instance_" + tag.replace(" ", "_"))
    if first is not None:
        # relabelling by a random permutation of the labels: the values move with the nodes
        (base, tol, judged), nodes, edges = first
        srt = sorted(nodes)
        rr = random.Random(case.get("sel", 0) + 17)
        perm = list(range(len(srt)))
        rr.shuffle(perm)
        relabel = {x: srt[perm[i]] for i, x in enumerate(srt)}
        wkw = {"weighted": True, "weights": [weight_of(5, i) for i in range(len(edges))]} if case.get("wt") is None else {}
        g2 = guard(lambda: Hypergraph([tuple(relabel[x] for x in e) for e in edges], **wkw))
        if g2[0] != "ok":
            ctx.violation({**case, "relabelled": True}, f"building the relabelled hypergraph raised {g2[1]}")
        else:
            h2 = g2[1]
            for x in nodes:
                h2.add_node(relabel[x])
            from hypergraphx.measures.sub_hypergraph_centrality import subhypergraph_centrality
            with np.errstate(all="ignore"):
                r = guard(subhypergraph_centrality, h2)
            if r[0] != "ok":
                ctx.violation({**case, "relabelled": True}, f"subhypergraph_centrality on the relabelled hypergraph raised {r[1]}")
            else:
                v2 = np.asarray(r[1], dtype=float).reshape(-1)
                d2 = dict(zip(srt, v2)) if len(v2) == len(srt) else {}
                bad = [x for x in judged if not abs(d2.get(relabel[x], math.nan) - base[x]) <= 2 * tol[x]]
                if bad:
                    ctx.violation({**case, "relabelled": True}, f"subhypergraph_centrality: the value of node {bad[0]!r} ({base[bad[0]]!r}) is not carried along by the "
                                                                 f"permutation of the labels ({d2.get(relabel[bad[0]])!r})" + twin_note(case))
    ctx.case(repr(("dense", case.get("via"), keys)), vals.nontrivial(), sample=case)
    ctx.count("dense_via_" + str(case.get("via") or "fresh"))


# the eigh route loses the nodes whose weight in the dominant eigenvector is below machine precision: a complete core
# (all hyperedges of sizes 2..5 on 13 nodes, radius 2784) with a pendant path of 6 pairs
ILL_CONDITIONED = {"kind": "dense", "core": 13, "sizes": [2, 3, 4, 5], "keep": 1.0, "bigs": [], "sel": 0, "lab": "int", "iso": [],
                   "extra": [[0, 13], [13, 14], [14, 15], [15, 16], [16, 17], [17, 18]]}


def ill_conditioned_witness(ctx):
    """unchanged tree: the last node of the path gets 2691.6 where log (expm A)_ii = 2686.3.  Counted in the evidence; printed as
    KNOWN-FINDING once an entry (property C20, class containing 'ill-conditioned') is listed in known_findings.json"""
    import numpy as np
    from hypergraphx import Hypergraph
    from hypergraphx.measures.sub_hypergraph_centrality import subhypergraph_centrality
    edges = [tuple(dense_label("int", v) for v in e) for e in dense_edges(ILL_CONDITIONED)]
    r = guard(lambda: np.asarray(subhypergraph_centrality(Hypergraph(edges)), dtype=float).reshape(-1))
    if r[0] != "ok":
        return
    nodes = sorted({x for e in edges for x in e})
    want = log_diag_expm(adjacency_of(nodes, edges))
    err = float(np.max(np.abs(r[1] - want))) if r[1].shape == want.shape else math.inf
    if err > 1e-3:
        ctx.count("subhg_ill_conditioned_witness_reproduced")
        ent = [f for f in getattr(ctx, "known_findings", []) or [] if f.get("property") == "C20" and "ill-conditioned" in str(f.get("class", ""))]
        if ent:
            ctx.known(ent[0].get("id"), f"call-site class 'ill-conditioned eigh route': complete core on 13 nodes + pendant path of 6 pairs, "
                                        f"max |subhypergraph_centrality - log diag expm(A)| = {err:.3g}")


# ------------------------------------------------------------------------------------------
# stream 5: sessions.  "For every hypergraph" = whatever object the user holds: objects produced by OTHER parts of the library
# (read_hif documents incl. edge records without incidences, save -> load in both formats, generators, filters, sub-hypergraphs,
# windows / snapshots of a temporal hypergraph, copies), objects that carry empty edges / incidence metadata / metadata of any
# type / weights, and objects on which calls have RAISED (wrong weights, absent items, labels that do not sort, short metadata
# lists, ...).  Nothing is assumed about what such an object contains: every centrality is judged against the object's OWN
# get_nodes() / get_edges() - each listed hyperedge (node) exactly one value, the value of its vertex in the projection of
# the listing.

NON_MAPPING = ["contact", "", 7, 0, 2.5, ["a", "b"], [], True]
MAPPINGS = [{}, {"k": "a"}, {"k": "b", "w": 3}, {"role": "x"}]
SESSION_INT = list(range(0, 14))
SESSION_STR = ["ANNE", "E1", "N0", "E", "N", "bob", "c", "d", "x1", "zed", "Ed", "al"]
DERIVE = ("copy", "deepcopy", "pickle", "sub", "by_orders", "lcc", "edges_sub", "saveload", "filter", "add_random", "shuffle", "config")


def _md(o, key="md"):
    import copy
    return copy.deepcopy(o[key])


def step_static(h, st, tmp):
    """one step of a session on the Hypergraph `h`; derive steps return the new object, all others None"""
    import copy
    import pickle
    import random as pyrandom
    k = st[0]
    o = st[-1] if isinstance(st[-1], dict) else {}
    if k == "add_edge":
        kw = {}
        if "w" in o:
            kw["weight"] = o["w"]
        if "md" in o:
            kw["metadata"] = _md(o)
        h.add_edge(tuple(st[1]), **kw)
    elif k == "add_edges":
        kw = {}
        if "w" in o:
            kw["weights"] = list(o["w"])
        if "md" in o:
            kw["metadata"] = _md(o)
        h.add_edges([tuple(e) for e in st[1]], **kw)
    elif k == "rm_edge":
        h.remove_edge(tuple(st[1]))
    elif k == "rm_edges":
        h.remove_edges([tuple(e) for e in st[1]])
    elif k == "add_node":
        h.add_node(st[1], **({"metadata": _md(o)} if "md" in o else {}))
    elif k == "add_nodes":
        h.add_nodes(list(st[1]), **({"metadata": {a: copy.deepcopy(b) for a, b in o["md"]}} if "md" in o else {}))
    elif k == "rm_node":
        h.remove_node(st[1], keep_edges=bool(o.get("keep")))
    elif k == "rm_nodes":
        h.remove_nodes(list(st[1]), keep_edges=bool(o.get("keep")))
    elif k == "set_weight":
        h.set_weight(tuple(st[1]), o["w"])
    elif k == "set_edge_md":
        h.set_edge_metadata(tuple(st[1]), _md(o))
    elif k == "set_attr_edge":
        h.set_attr_to_edge_metadata(tuple(st[1]), o["field"], o["value"])
    elif k == "set_node_md":
        h.set_node_metadata(st[1], _md(o))
    elif k == "set_inc_md":
        h.set_incidence_metadata(tuple(st[1]), st[2], _md(o))
    elif k == "add_empty":
        h.add_empty_edge(st[1], _md(o))
    elif k == "copy":
        return h.copy()
    elif k == "deepcopy":
        return copy.deepcopy(h)
    elif k == "pickle":
        return pickle.loads(pickle.dumps(h))
    elif k == "sub":
        return h.subhypergraph(list(st[1]))
    elif k == "by_orders":
        return h.subhypergraph_by_orders(**{a: b for a, b in o.items()})
    elif k == "lcc":
        return h.subhypergraph_largest_component()
    elif k == "edges_sub":
        return h.get_edges(subhypergraph=True, **{a: b for a, b in o.items()})
    elif k == "saveload":
        from hypergraphx.readwrite.save import save_hypergraph
        from hypergraphx.readwrite.load import load_hypergraph
        path = os.path.join(tmp, "s." + o["fmt"])
        if os.path.exists(path):
            os.remove(path)
        save_hypergraph(h, path, binary=o["fmt"] == "hgx")
        return load_hypergraph(path)
    elif k == "filter":
        from hypergraphx.filters import filter_hypergraph
        kw = {a: b for a, b in o.items()}
        filter_hypergraph(h, **kw)
    elif k == "add_random":
        from hypergraphx.generation.random import add_random_edge, add_random_edges
        kw = {a: b for a, b in o.items() if a != "num"}
        return add_random_edges(h, o["num"], **kw) if "num" in o else add_random_edge(h, **kw)
    elif k == "shuffle":
        from hypergraphx.generation.random import random_shuffle
        pyrandom.seed(o["seed"])
        return random_shuffle(h, **{a: b for a, b in o.items()})
    elif k == "config":
        import numpy as np
        from hypergraphx.generation.configuration_model import configuration_model
        pyrandom.seed(o["seed"])
        np.random.seed(o["seed"])
        return configuration_model(h, **{a: b for a, b in o.items() if a != "seed"})
    elif k == "ask":
        pass
    else:
        raise ValueError(f"unknown step {st!r}")
    return None


def step_temporal(T, st, tmp):
    import copy
    import pickle
    k = st[0]
    o = st[-1] if isinstance(st[-1], dict) else {}
    if k == "add":
        kw = {}
        if "w" in o:
            kw["weight"] = o["w"]
        if "md" in o:
            kw["metadata"] = _md(o)
        T.add_edge(tuple(st[1]), st[2], **kw)
    elif k == "adds":
        kw = {}
        if "w" in o:
            kw["weights"] = list(o["w"])
        if "md" in o:
            kw["metadata"] = _md(o)
        T.add_edges([tuple(e) for e in st[1]], list(st[2]), **kw)
    elif k == "rm":
        T.remove_edge(tuple(st[1]), st[2])
    elif k == "rm_rec":
        T.remove_edge((st[2], tuple(st[1])))
    elif k == "rms":
        T.remove_edges([(t, tuple(e)) for e, t in st[1]])
    elif k == "add_node":
        T.add_node(st[1], **({"metadata": _md(o)} if "md" in o else {}))
    elif k == "rm_node":
        T.remove_node(st[1], **({"keep_edges": bool(o["keep"])} if "keep" in o else {}))
    elif k == "set_md":
        T.set_edge_metadata(tuple(st[1]), st[2], _md(o))
    elif k == "set_weight":
        T.set_weight(tuple(st[1]), st[2], o["w"])
    elif k == "copy":
        return T.copy()
    elif k == "deepcopy":
        return copy.deepcopy(T)
    elif k == "pickle":
        return pickle.loads(pickle.dumps(T))
    elif k == "saveload":
        from hypergraphx.readwrite.save import save_hypergraph
        from hypergraphx.readwrite.load import load_hypergraph
        path = os.path.join(tmp, "t." + o["fmt"])
        if os.path.exists(path):
            os.remove(path)
        save_hypergraph(T, path, binary=o["fmt"] == "hgx")
        return load_hypergraph(path)
    elif k == "ask":
        pass
    else:
        raise ValueError(f"unknown temporal step {st!r}")
    return None


def source_static(src, tmp):
    """the object a session starts from (everything but the temporal sources)"""
    import json
    import random as pyrandom
    import numpy as np
    from hypergraphx import Hypergraph
    t = src["t"]
    if t == "new":
        return Hypergraph(weighted=bool(src.get("weighted")))
    if t == "ctor":
        kw = {}
        if src.get("weighted"):
            kw["weighted"] = True
        if src.get("weights") is not None:
            kw["weights"] = list(src["weights"])
        if src.get("node_md") is not None:
            kw["node_metadata"] = {a: _md({"md": b}) for a, b in src["node_md"]}
        if src.get("edge_md") is not None:
            kw["edge_metadata"] = _md(src, "edge_md")
        return Hypergraph([tuple(e) for e in src["edges"]], **kw)
    if t == "hif":
        from hypergraphx.readwrite.hif import read_hif
        path = os.path.join(tmp, "doc.hif.json")
        with open(path, "w") as f:
            json.dump(src["doc"], f)
        return read_hif(path)
    if t == "gen":
        a = src["args"]
        if src["fn"] == "random_hypergraph":
            from hypergraphx.generation.random import random_hypergraph
            return random_hypergraph(a["n"], {int(k): v for k, v in a["by_size"]}, seed=a["seed"])
        if src["fn"] == "random_uniform_hypergraph":
            from hypergraphx.generation.random import random_uniform_hypergraph
            return random_uniform_hypergraph(a["n"], a["size"], a["m"], seed=a["seed"])
        if src["fn"] == "scale_free_hypergraph":
            from hypergraphx.generation.scale_free import scale_free_hypergraph
            np.random.seed(a["seed"])
            return scale_free_hypergraph(a["n"], {int(k): v for k, v in a["by_size"]}, {int(k): v for k, v in a["scale"]},
                                         correlated=a.get("correlated", True), num_shuffles=a.get("num_shuffles", 0))
        if src["fn"] == "hgr":
            from hypergraphx.readwrite.load import load_hypergraph
            path = os.path.join(tmp, "g.hgr")
            with open(path, "w") as f:
                f.write(a["text"])
            return load_hypergraph(path)
    raise ValueError(f"unknown source {src!r}")


def own_listing(h):
    return list(h.get_nodes()), [tuple(sorted(e)) for e in h.get_edges()]


def rank_of(universe):
    """(rank of every label, labels mutually comparable)"""
    try:
        return {x: i for i, x in enumerate(sorted(universe))}, True
    except TypeError:
        return {x: i for i, x in enumerate(sorted(universe, key=lambda x: (type(x).__name__, repr(x))))}, False


def plain(x):
    """labels as plain Python values (generators hand out numpy integers)"""
    try:
        import numpy as np
        if isinstance(x, np.generic):
            return x.item()
    except Exception:  # noqa: BLE001
        pass
    return x


def ask_static(ctx, drv, case, tag, h, vals, s_order=(1, 2, 3), light=False):
    """every static centrality of the object `h` against h's OWN listing. Returns a key of what was seen"""
    from hypergraphx.measures import s_centralities as sc
    icase = {**case, "instance": tag}
    r = guard(own_listing, h)
    if r[0] != "ok":
        ctx.violation(icase, f"get_nodes() / get_edges() of the object ({tag}) raised {r[1]}")
        return None
    nodes, edges = r[1]
    try:
        nodes = [plain(x) for x in nodes]
        edges = [tuple(plain(x) for x in e) for e in edges]
        if len(set(nodes)) != len(nodes) or len(set(edges)) != len(edges):
            ctx.violation(icase, f"the object ({tag}) lists a node or a hyperedge twice: {nodes!r} / {edges!r}")
            return None
    except TypeError:
        ctx.count("session_unhashable_listing")
        return None
    members = {x for e in edges for x in e}
    rank, comparable = rank_of(set(nodes) | members)
    ctx.count("session_asks")
    if not comparable:
        # outside the quantifier (labels that do not sort); such an object only arises from a changed implementation
        ctx.count("session_skipped_labels_not_comparable")
        return ("mixed", len(nodes), len(edges))
    if any(len(e) == 0 for e in edges):
        # the hyperedge without members is a hyperedge like any other: an isolated vertex of both projections
        ctx.count("session_objects_with_memberless_hyperedge")
    if not members <= set(nodes):
        # a hyperedge with a member that get_nodes() does not list: the hyperedge versions are still well defined
        ctx.count("session_members_not_listed")
        check_static_obj(ctx, drv, icase, h, nodes, edges, rank, vals, s_order, parts=("edges",))
        for fn in (sc.s_betweenness_nodes, sc.s_closeness_nodes):
            g = guard(fn, h)
            if g[0] != "ok" or not isinstance(g[1], dict) or set(g[1]) != set(nodes) or len(g[1]) != len(nodes):
                ctx.violation(icase, f"{fn.__name__}(H) on the object ({tag}) - nodes {nodes!r}, hyperedges {edges!r} - does not give exactly one "
                                     f"value per node: {g[1]!r}")
        return ("members", tuple(sorted(rank[x] for x in nodes)), tuple(sorted(tuple(sorted(rank[x] for x in e)) for e in edges)))
    # the exact rational betweenness of the Lean model is slow on the bipartite projection of larger objects
    light = light or len(nodes) + len(edges) > ctx.scale(11, 13)
    check_static_obj(ctx, drv if not light else None, icase, h, nodes, edges, rank, vals, s_order, light=light)
    n = len(nodes)
    sizes = {len(e) for e in edges}
    if len(sizes) == 1 and next(iter(sizes)) in (3, 4) and n > next(iter(sizes)) and n <= 40 \
            and all(isinstance(x, int) and not isinstance(x, bool) for x in nodes) and sorted(nodes) == list(range(n)) and connected(n, edges):
        k = next(iter(sizes))
        g = guard(lambda: [tuple(plain(x) for x in e) for e in h.get_edges()])
        if g[0] == "ok":
            ctx.count("session_uniform_objects")
            check_uniform_obj(ctx, drv if not light else None, {**icase, "seed": case.get("seed", 0), "n": n, "k": k}, h, g[1], n, k, vals, False)
    return (tuple(rank[x] for x in nodes), tuple(tuple(sorted(rank[x] for x in e)) for e in edges))


def ask_temporal(ctx, drv, case, tag, T, vals, s_order=(1, 2, 3), light=False):
    icase = {**case, "instance": tag}
    r = guard(lambda: [(t, tuple(sorted(e))) for t, e in T.get_edges()])
    if r[0] != "ok":
        ctx.violation(icase, f"get_edges() of the temporal hypergraph ({tag}) raised {r[1]}")
        return None
    recs = r[1]
    if len(set(recs)) != len(recs):
        ctx.violation(icase, f"the temporal hypergraph ({tag}) lists a record twice: {recs!r}")
        return None
    if any(len(e) == 0 for _, e in recs):
        ctx.count("session_temporal_objects_with_memberless_hyperedge")
    rank, comparable = rank_of({x for _, e in recs for x in e})
    if not comparable:
        ctx.count("session_skipped_labels_not_comparable")
        return None
    ctx.count("session_temporal_asks")
    check_temporal_obj(ctx, drv, icase, T, recs, rank, vals, s_order)
    return tuple((t, tuple(sorted(rank[x] for x in e))) for t, e in recs)


def run_steps(ctx, drv, case, obj, steps, stepper, asker, vals, tmp, what):
    """runs `steps` on `obj`; a step that raises is an observation (the session goes on with the object as it is); the object
    is asked after every step that raised, at every `ask` step and at the end; objects left behind by derive steps are asked
    once more at the end (after their descendants were changed)"""
    keys, held, asks = [], [], 0
    order = [(1, 2, 3), (3, 2, 1)]
    for i, st in enumerate(steps):
        if st[0] == "probe":
            # a derived object is built and asked; the session goes on with the object it had
            r = guard(stepper, obj, st[1], tmp)
            if r[0] == "ok" and hasattr(r[1], "get_edges") and hasattr(r[1], "get_nodes"):
                ctx.count(f"session_probe_{st[1][0]}")
                keys.append(asker(ctx, drv, {**case, "upto": i + 1}, f"{st[1][0]} of the object after step {i - 1}", r[1], vals, order[i % 2], light=True))
            else:
                ctx.count(f"session_probe_{st[1][0]}_raised")
            continue
        r = guard(stepper, obj, st, tmp)
        if r[0] == "ok":
            ctx.count(f"session_{what}_steps_ok")
            if r[1] is not None:
                if not (hasattr(r[1], "get_edges") and hasattr(r[1], "get_nodes")):
                    ctx.count("session_derive_returned_no_hypergraph")
                    continue
                if len(held) < 2:
                    held.append((f"object before step {i} {st[0]}", obj))
                obj = r[1]
                ctx.count(f"session_derive_{st[0]}")
        else:
            ctx.count(f"session_{what}_steps_raised")
            ctx.count(f"session_raised_{st[0]}")
        if (r[0] != "ok" or st[0] == "ask") and asks < 4:
            asks += 1
            keys.append(asker(ctx, drv, {**case, "upto": i + 1}, f"after step {i} {st[0]}" + (" which raised " + r[1].split(":")[0] if r[0] != "ok" else ""),
                              obj, vals, order[asks % 2], light=True))
    keys.append(asker(ctx, drv, case, "at the end of the session", obj, vals, order[(asks + 1) % 2]))
    for tag, o in held:
        keys.append(asker(ctx, drv, case, tag + ", asked at the end", o, vals, order[asks % 2]))
    return obj, keys


def check_session(ctx, drv, case):
    import tempfile
    import shutil
    import warnings
    vals = Values()
    tmp = tempfile.mkdtemp(prefix="c20s")
    try:
        with warnings.catch_warnings():
            warnings.simplefilter("ignore")
            keys = check_session_(ctx, drv, case, vals, tmp)
    finally:
        shutil.rmtree(tmp, ignore_errors=True)
    ctx.case(repr(("session", case["src"]["t"], keys)), vals.nontrivial(), sample=case)
    ctx.count("session_src_" + case["src"]["t"] + ("_" + case["src"]["fn"] if "fn" in case["src"] else ""))


def check_session_(ctx, drv, case, vals, tmp):
    src = case["src"]
    steps = case.get("steps", [])
    if "upto" in case and case.get("phase") == "temporal":
        # the replay of a question put while the temporal hypergraph was built
        src = {**src, "tsteps": src["tsteps"][:case["upto"]], "pick": None}
    elif "upto" in case:
        steps = steps[:case["upto"]]
    keys = []
    if src["t"] == "temporal":
        from hypergraphx import TemporalHypergraph
        g = guard(lambda: TemporalHypergraph(weighted=bool(src.get("weighted"))))
        if g[0] != "ok":
            ctx.violation(case, f"TemporalHypergraph() raised {g[1]}")
            return keys
        T, k1 = run_steps(ctx, drv, {**case, "phase": "temporal"}, g[1], src["tsteps"], step_temporal, ask_temporal, vals, tmp, "temporal")
        keys += k1
        pick = src.get("pick")
        if not pick:
            return keys
        if pick[0] == "aggregate":
            d = guard(T.aggregate, pick[1])
        else:
            d = guard(T.subhypergraph, tuple(pick[1]) if pick[1] is not None else None, bool(pick[2]))
        if d[0] != "ok" or not isinstance(d[1], dict):
            # a time window the unchanged code refuses is not generated
            ctx.violation(case, f"{pick[0]}({pick[1:]!r}) of the temporal hypergraph raised / returned {d[1]!r}")
            return keys
        objs = list(d[1].items())
        ctx.count(f"session_temporal_{pick[0]}_objects", len(objs))
        if not objs:
            return keys
        sel = objs[pick[-1] % len(objs)]
        for kk, hh in objs[:4]:
            if hh is not sel[1]:
                keys.append(ask_static(ctx, drv, case, f"{pick[0]} {kk!r} of the temporal hypergraph", hh, vals, light=True))
        h = sel[1]
    else:
        g = guard(source_static, src, tmp)
        if g[0] != "ok":
            ctx.violation(case, f"building the object of the session ({src['t']}) raised {g[1]}")
            return keys
        h = g[1]
    _, k2 = run_steps(ctx, drv, case, h, steps, step_static, ask_static, vals, tmp, "static")
    return keys + k2


# --- generation of sessions (online: the generator performs the steps on a real object to know what is there)

class Live:
    """the object of a session while it is generated"""

    def __init__(self, rng, obj, labels, stepper, tmp):
        self.rng, self.obj, self.labels, self.stepper, self.tmp, self.steps = rng, obj, labels, stepper, tmp, []

    def nodes(self):
        r = guard(lambda: [plain(x) for x in self.obj.get_nodes()])
        return r[1] if r[0] == "ok" else []

    def edges(self):
        r = guard(lambda: [tuple(plain(x) for x in e) for e in self.obj.get_edges()])
        return r[1] if r[0] == "ok" else []

    def do(self, st):
        self.steps.append(st)
        if st[0] == "probe":
            return True
        r = guard(self.stepper, self.obj, st, self.tmp)
        if r[0] == "ok" and r[1] is not None and hasattr(r[1], "get_edges"):
            self.obj = r[1]
        return r[0] == "ok"


def pick_md(rng, p_none=0.35, p_map=0.3):
    """options of a call: no metadata / a mapping / a non-mapping object"""
    r = rng.random()
    if r < p_none:
        return {}
    if r < p_none + p_map:
        return {"md": rng.choice(MAPPINGS)}
    return {"md": rng.choice(NON_MAPPING)}


def new_edge_over(rng, live, sizes=(2, 2, 3, 3, 4), uniform=None):
    """a hyperedge that is not there, overlapping a present one where possible (so that it matters in the line graph)"""
    nodes, edges = live.nodes(), live.edges()
    pool = list(dict.fromkeys(list(nodes) + list(live.labels)))
    for _ in range(30):
        k = uniform or rng.choice(sizes)
        if edges and rng.random() < 0.8:
            base = list(rng.choice(edges))
            keep = rng.sample(base, min(len(base), k - 1, rng.randint(1, 3)))
        else:
            keep = []
        rest = [x for x in pool if x not in keep]
        if len(rest) < k - len(keep):
            continue
        e = keep + rng.sample(rest, k - len(keep))
        rng.shuffle(e)
        if tuple(sorted(e)) not in edges:
            return e
    return None


def other_kind(live):
    return "zz" if live.labels and isinstance(live.labels[0], int) else 10 ** 6


def bad_static(rng, live, weighted):
    """a call that the unchanged code refuses (each class: wrong weights, absent items, labels that do not sort / hash,
    short lists), built over present AND new items so that a half-performed call would show"""
    nodes, edges = live.nodes(), live.edges()
    e = new_edge_over(rng, live)
    absent_e = new_edge_over(rng, live)
    absent_n = next((x for x in live.labels if x not in nodes), other_kind(live))
    c = rng.randrange(19)
    if c == 0 and e and not weighted:
        return ["add_edge", e, {"w": rng.choice([2, 0.5, 0, -1]), **pick_md(rng)}]
    if c == 1 and e:
        return ["add_edge", e[:-1] + [other_kind(live)], pick_md(rng)]
    if c == 2 and e:
        return ["add_edge", e[:-1] + [[e[-1]]], pick_md(rng)]
    if c == 3 and e:
        good = [e]
        f = new_edge_over(rng, live)
        tail = [f] if f and sorted(f) != sorted(e) else []
        return ["add_edges", good + [[nodes[0] if nodes else live.labels[0], other_kind(live)]] + tail, {}]
    if c == 4 and e:
        f = new_edge_over(rng, live)
        if f and sorted(f) != sorted(e):
            return ["add_edges", [e, f], {"md": [rng.choice(MAPPINGS + NON_MAPPING)]}]
    if c == 5 and e:
        f = new_edge_over(rng, live)
        if f and sorted(f) != sorted(e):
            return ["add_edges", [e, f], {"w": [1]}]
    if c == 6 and absent_e:
        return ["rm_edge", absent_e]
    if c == 7 and absent_e and edges:
        return ["rm_edges", [list(rng.choice(edges)), absent_e]]
    if c == 8:
        return ["rm_node", absent_n, {"keep": rng.random() < 0.5}]
    if c == 9 and nodes:
        return ["rm_nodes", [rng.choice(nodes), absent_n], {"keep": rng.random() < 0.5}]
    if c == 10 and edges and not weighted:
        return ["set_weight", list(rng.choice(edges)), {"w": rng.choice([2, 0.5, 3.5])}]
    if c == 11 and absent_e:
        return ["set_weight", absent_e, {"w": 1}]
    if c == 12 and absent_e:
        return ["set_edge_md", absent_e, {"md": rng.choice(MAPPINGS + NON_MAPPING)}]
    if c == 13 and absent_e:
        return ["set_inc_md", absent_e, absent_e[0], {"md": {"role": "x"}}]
    if c == 14:
        new = [x for x in live.labels if x not in nodes][:2]
        if len(new) < 2:
            new = new + [other_kind(live)] + ([nodes[0]] if nodes and not new else [])
        return ["add_nodes", new, {"md": [[new[0], {"k": "a"}]]}]
    if c == 15 and edges:
        return ["set_attr_edge", list(rng.choice(edges)), {"field": "k", "value": 1, "_needs": "non-mapping"}]
    if c == 16 and nodes:
        return ["sub", [rng.choice(nodes), absent_n]]
    if c == 17:
        return ["by_orders", {}]
    if c == 18 and edges:
        return ["edges_sub", {"size": len(rng.choice(edges)), "order": 1}]
    return ["rm_edge", absent_e or [other_kind(live)]]


def good_static(rng, live, weighted, uniform=None):
    nodes, edges = live.nodes(), live.edges()
    r = rng.random()
    if r < 0.42 or not edges:
        e = new_edge_over(rng, live, uniform=uniform)
        if uniform is None and rng.random() < 0.1:
            # the hyperedge without members / a singleton (whose node may leave later with keep_edges=True)
            e = [] if rng.random() < 0.5 and () not in edges else [rng.choice(live.labels)]
        if e is not None and (e or uniform is None):
            o = pick_md(rng)
            if weighted:
                o["w"] = rng.choice([1, 2, 0.5, 3.25, 7, 0.125, 10])
            elif rng.random() < 0.2:
                o["w"] = rng.choice([1, 1.0])
            return ["add_edge", e, o]
    if r < 0.52:
        es = [e for e in (new_edge_over(rng, live, uniform=uniform) for _ in range(rng.randint(1, 3))) if e]
        es = [list(t) for t in dict.fromkeys(tuple(sorted(e)) for e in es)]
        if es:
            o = {}
            if rng.random() < 0.6:
                o["md"] = [rng.choice(MAPPINGS + NON_MAPPING) for _ in es] + ([{}] if rng.random() < 0.3 else [])
            if weighted or rng.random() < 0.15:
                o["w"] = [rng.choice([1, 2, 0.5, 5, 0.25]) for _ in es]
            return ["add_edges", es, o]
    if r < 0.60 and edges and uniform is None:
        return ["rm_edge", list(rng.choice(edges))]
    if r < 0.66 and nodes and uniform is None:
        x = rng.choice(nodes)
        # (keep_edges=True on the only member of a hyperedge leaves the hyperedge without members behind)
        single = [e[0] for e in edges if len(e) == 1]
        if single and rng.random() < 0.5:
            return ["rm_node", rng.choice(single), {"keep": True}]
        return ["rm_node", x, {"keep": rng.random() < 0.5}]
    if r < 0.72 and uniform is None:
        return ["add_node", rng.choice(live.labels), pick_md(rng, 0.3, 0.3)]
    if r < 0.80 and edges:
        return ["set_edge_md", list(rng.choice(edges)), {"md": rng.choice(MAPPINGS + NON_MAPPING)}]
    if r < 0.84 and nodes:
        return ["set_node_md", rng.choice(nodes), {"md": rng.choice(MAPPINGS + NON_MAPPING)}]
    if r < 0.90 and edges:
        e = list(rng.choice(edges))
        return ["set_inc_md", e, rng.choice(e), {"md": rng.choice(MAPPINGS + NON_MAPPING)}]
    if r < 0.97:
        return ["add_empty", rng.choice(["ph", "e9", 0, 41, "placeholder"]), {"md": rng.choice(MAPPINGS + NON_MAPPING)}]
    if edges and weighted:
        return ["set_weight", list(rng.choice(edges)), {"w": rng.choice([1, 2.5, 4, 0, 9])}]
    return ["add_node", rng.choice(live.labels), {}]


def derive_static(rng, live, uniform=None, kind=None):
    nodes, edges = live.nodes(), live.edges()
    sizes = sorted({len(e) for e in edges})
    pool = ["copy", "deepcopy", "pickle", "saveload", "saveload"]
    if uniform is None:
        pool += ["sub", "sub", "by_orders", "by_orders", "lcc", "edges_sub", "edges_sub", "filter", "add_random", "shuffle", "config"]
    k = kind or rng.choice(pool)
    if k in ("copy", "deepcopy", "pickle", "lcc"):
        return [k]
    if k == "saveload":
        return ["saveload", {"fmt": rng.choice(["json", "hgx"])}]
    if k == "sub" and nodes:
        keep = [x for x in nodes if rng.random() < 0.75] or nodes[:1]
        rng.shuffle(keep)
        return ["sub", keep]
    if k == "by_orders" and sizes:
        sel = rng.sample(sizes, rng.randint(1, len(sizes)))
        if rng.random() < 0.5:
            return ["by_orders", {"sizes": sel + ([sel[0]] if rng.random() < 0.2 else []), "keep_nodes": rng.random() < 0.5}]
        return ["by_orders", {"orders": [s - 1 for s in sel], "keep_nodes": rng.random() < 0.5}]
    if k == "edges_sub" and sizes:
        o = {"keep_isolated_nodes": rng.random() < 0.5}
        if rng.random() < 0.8:
            s = rng.choice(sizes)
            o.update({"size": s} if rng.random() < 0.5 else {"order": s - 1})
            if rng.random() < 0.4:
                o["up_to"] = True
        return ["edges_sub", o]
    if k == "filter":
        o = {"mode": rng.choice(["keep", "remove"])}
        if rng.random() < 0.6:
            o["edge_criteria"] = {"k": rng.choice([["a"], ["a", "b"], [None]])}
        if rng.random() < 0.5 or "edge_criteria" not in o:
            o["node_criteria"] = {"k": rng.choice([["a"], [None], ["a", None]])}
            o["keep_edges"] = False
        return ["filter", o]
    if k == "add_random" and len(nodes) >= 4:
        # (size < number of nodes: add_random_edges of the unchanged code loops until it has `num` DIFFERENT hyperedges)
        o = {"size": rng.randint(2, min(4, len(nodes) - 1))} if rng.random() < 0.5 else {"order": rng.randint(1, min(3, len(nodes) - 2))}
        o.update({"inplace": rng.random() < 0.5, "seed": rng.randint(0, 999)})
        if rng.random() < 0.5:
            o["num"] = rng.randint(1, 2)
        return ["add_random", o]
    if k == "shuffle" and sizes and max(sizes) >= 2 and len(nodes) >= max(sizes):
        s = rng.choice([z for z in sizes if z >= 2])
        return ["shuffle", {"size": s, "inplace": False, "p": rng.choice([1.0, 0.5]), "seed": rng.randint(0, 999)}]
    if k == "config" and edges and all(len(e) >= 2 for e in edges) and all(isinstance(x, int) for x in nodes):
        return ["config", {"n_steps": rng.randint(5, 30), "seed": rng.randint(0, 999)}]
    return ["copy"]


def grow_static(rng, live, n_steps, weighted, uniform=None, p_derive=0.18):
    # 1-3 calls that raise per session, at random places
    bad_at = set(rng.sample(range(n_steps), min(n_steps, rng.randint(1, 3))))
    for i in range(n_steps):
        r = rng.random()
        if i in bad_at:
            st = bad_static(rng, live, weighted)
            if isinstance(st[-1], dict) and st[-1].pop("_needs", None):
                # item assignment on a stored non-mapping metadata object
                live.do(["set_edge_md", st[1], {"md": rng.choice(["contact", 7, ["a"]])}])
            if uniform is not None and st[0] in ("sub", "by_orders", "edges_sub"):
                continue
        elif r < p_derive:
            st = derive_static(rng, live, uniform)
        else:
            st = good_static(rng, live, weighted, uniform)
        live.do(st)
        if st[0] in DERIVE and rng.random() < 0.5:
            live.do(["ask"])
        elif rng.random() < 0.08:
            live.do(["ask"])


def gen_hif_doc(rng, uniform=None):
    """a HIF document: node / edge records with and without incidences, incidences of unrecorded nodes / edges, two edge names with the
    same members, attributes on every kind of record, records in any order; node ids become 0..n-1 in order of first appearance"""
    str_names = rng.random() < 0.5
    n = rng.randint(4, 9)
    nn = [("v%d" % i if str_names else 100 + 7 * i) for i in range(n)]
    m = rng.randint(2, 7)
    mem = {}
    for j in range(m):
        k = uniform or rng.choice([1, 2, 2, 3, 3, 4])
        if mem and rng.random() < 0.7:
            base = list(rng.choice(list(mem.values())))
            keep = rng.sample(base, min(len(base), k - 1, rng.randint(1, 3))) if k > 1 else []
        else:
            keep = []
        rest = [x for x in nn if x not in keep]
        e = keep + rng.sample(rest, min(len(rest), k - len(keep)))
        mem["e%d" % j if rng.random() < 0.7 else 500 + j] = e
    if uniform is None and rng.random() < 0.25 and mem:
        a = rng.choice(list(mem))
        mem["dup"] = list(mem[a])
    names = list(mem)
    inc = [{"edge": a, "node": x, **({"weight": rng.choice([1, 2.5])} if rng.random() < 0.3 else {}),
            **({"attrs": {"role": rng.choice(["in", "out"])}} if rng.random() < 0.3 else {})} for a in names for x in mem[a]]
    if rng.random() < 0.7:
        rng.shuffle(inc)
    empties = [rng.choice(["lonely", "e99", 77, "E0", "placeholder"]) for _ in range(rng.choice([0, 0, 1, 1, 2]))]
    empties = [a for a in dict.fromkeys(empties) if a not in mem]
    erecs = [{"edge": a, **({"weight": 2} if rng.random() < 0.3 else {}), **({"attrs": {"k": rng.choice(["a", "b"])}} if rng.random() < 0.4 else {})}
             for a in names if rng.random() < 0.8] + [{"edge": a, "attrs": {"note": "no members"}} for a in empties]
    rng.shuffle(erecs)
    used = {x for e in mem.values() for x in e}
    nrecs = [{"node": x, **({"attrs": {"k": rng.choice(["a", "b"])}} if rng.random() < 0.4 else {})} for x in nn
             if (x in used and rng.random() < 0.8) or (x not in used and uniform is None and rng.random() < 0.5)]
    rng.shuffle(nrecs)
    doc = {"nodes": nrecs, "edges": erecs, "incidences": inc}
    r = rng.random()
    if r < 0.6:
        doc["type"] = "undirected"
    elif r < 0.8:
        doc["type"] = "asc"
    if rng.random() < 0.4:
        doc["metadata"] = {"name": "doc", "k": 1}
    return doc


def gen_uniform_edges(rng, n, k):
    order = list(range(n))
    rng.shuffle(order)
    edges, seen = [tuple(order[:k])], set(order[:k])
    for x in order[k:]:
        edges.append(tuple(rng.sample(sorted(seen), k - 1) + [x]))
        seen.add(x)
    for _ in range(rng.randint(0, 3)):
        edges.append(tuple(rng.sample(range(n), k)))
    return [list(e) for e in dict.fromkeys(tuple(sorted(e)) for e in edges)]


def gen_temporal_source(rng, tmp):
    from hypergraphx import TemporalHypergraph
    ints = rng.random() < 0.55
    labels = rng.sample(SESSION_INT if ints else SESSION_STR, rng.randint(4, 7))
    weighted = rng.random() < 0.35
    g = guard(lambda: TemporalHypergraph(weighted=weighted))
    if g[0] != "ok":
        return {"t": "temporal", "weighted": weighted, "tsteps": [], "pick": None}, None, labels, weighted
    live = Live(rng, g[1], labels, step_temporal, tmp)
    tmax = rng.randint(1, 5)

    def recs():
        r = guard(lambda: [(t, tuple(e)) for t, e in live.obj.get_edges()])
        return r[1] if r[0] == "ok" else []

    def new_rec():
        rs = recs()
        for _ in range(20):
            k = rng.choice([2, 2, 3, 3, 4])
            if rs and rng.random() < 0.7:
                base = list(rng.choice(rs)[1])
                keep = rng.sample(base, min(len(base), k - 1, rng.randint(1, 3)))
            else:
                keep = []
            rest = [x for x in labels if x not in keep]
            if len(rest) < k - len(keep):
                continue
            e = keep + rng.sample(rest, k - len(keep))
            rng.shuffle(e)
            t = rng.randint(0, tmax)
            if (t, tuple(sorted(e))) not in rs:
                return e, t
        return None, None
    n_steps = rng.randint(5, 11)
    bad_at = set(rng.sample(range(2, n_steps), min(n_steps - 2, rng.randint(2, 4))))
    for i in range(n_steps):
        r = 0.9 if i in bad_at else 0.77 * rng.random()
        rs = recs()
        if r < 0.5 or not rs:
            e, t = new_rec()
            if e is None:
                continue
            o = pick_md(rng)
            if rs and rng.random() < 0.08:
                # the hyperedge without members, at a time that has records
                e, t = [], rng.choice(rs)[0]
            if weighted:
                o["w"] = rng.choice([1, 2, 0.5, 7, 0.125])
            live.do(["add", e, t, o])
        elif r < 0.54:
            x = rng.choice(sorted({y for _, f in rs for y in f}) or labels)
            live.do(["rm_node", x, {"keep": rng.random() < 0.7}])
        elif r < 0.58:
            t, e = rng.choice(rs)
            live.do(["rm" if rng.random() < 0.6 else "rm_rec", list(e), t])
        elif r < 0.64:
            t, e = rng.choice(rs)
            live.do(["set_md", list(e), t, {"md": rng.choice(MAPPINGS + NON_MAPPING)}])
        elif r < 0.70:
            live.do([rng.choice(["copy", "deepcopy", "pickle"])])
        elif r < 0.77:
            live.do(["saveload", {"fmt": rng.choice(["json", "hgx"])}])
        else:
            # calls that the unchanged code refuses
            e, t = new_rec()
            c = rng.randrange(8)
            if e is None:
                continue
            if c == 0:
                live.do(["add", e, rng.choice([1.5, "3", None]), pick_md(rng)])
            elif c == 1:
                live.do(["add", e, -1 - t, pick_md(rng)])
            elif c == 2 and not weighted:
                live.do(["add", e, t, {"w": rng.choice([2, 0.5]), **pick_md(rng)}])
            elif c == 3:
                live.do(["add", e[:-1] + ["zz" if ints else 10 ** 6], t, pick_md(rng)])
            elif c == 4:
                live.do(["rm", e, t])
            elif c == 5 and rs:
                t2, e2 = rng.choice(rs)
                live.do(["rms", [[list(e2), t2], [e, t]]])
            elif c == 6:
                live.do(["adds", [e, list(rs[0][1]) if rs else e[:2]], [t]])
            else:
                live.do(["set_md", e, t, {"md": {}}])
        if rng.random() < 0.1:
            live.do(["ask"])
    r = rng.random()
    if r < 0.45:
        pick = ["aggregate", rng.randint(1, 3), rng.randint(0, 5)]
    elif r < 0.9:
        tw = None if rng.random() < 0.4 else [rng.randint(0, 2), rng.randint(2, tmax + 2)]
        pick = ["snapshot", tw, rng.random() < 0.5, rng.randint(0, 5)]
    else:
        pick = None
    src = {"t": "temporal", "weighted": weighted, "tsteps": live.steps, "pick": pick}
    obj = None
    if pick and live.obj is not None:
        d = guard(live.obj.aggregate, pick[1]) if pick[0] == "aggregate" else \
            guard(live.obj.subhypergraph, tuple(pick[1]) if pick[1] is not None else None, bool(pick[2]))
        if d[0] == "ok" and isinstance(d[1], dict) and d[1]:
            objs = list(d[1].values())
            obj = objs[pick[-1] % len(objs)]
        else:
            src["pick"] = None
    return src, obj, labels, weighted


def gen_session(rng):
    import tempfile
    import shutil
    import warnings
    tmp = tempfile.mkdtemp(prefix="c20g")
    try:
        with warnings.catch_warnings():
            warnings.simplefilter("ignore")
            return gen_session_(rng, tmp)
    except Exception:  # noqa: BLE001  (a changed implementation may hand the generator objects it cannot read)
        return SESSION_FIXED[rng.randrange(len(SESSION_FIXED))]
    finally:
        shutil.rmtree(tmp, ignore_errors=True)


def gen_session_(rng, tmp):
    r = rng.random()
    flavour = "api" if r < 0.27 else "hif" if r < 0.44 else "gen" if r < 0.56 else "temporal" if r < 0.82 else "uniform"
    seed = rng.randint(0, 10 ** 6)
    weighted, uniform = False, None
    if flavour == "temporal":
        src, obj, labels, weighted = gen_temporal_source(rng, tmp)
        if obj is None:
            return {"kind": "session", "src": src, "steps": [], "seed": seed}
    else:
        ints = rng.random() < 0.55
        labels = rng.sample(SESSION_INT if ints else SESSION_STR, rng.randint(4, 8))
        if flavour == "api":
            weighted = rng.random() < 0.25
            if rng.random() < 0.5:
                src = {"t": "new", "weighted": weighted}
            else:
                es = [list(e) for e in dict.fromkeys(tuple(sorted(e)) for e in gen_edges(rng, labels, 1, 5))]
                if rng.random() < 0.15:
                    es.insert(rng.randint(0, len(es)), [])
                src = {"t": "ctor", "edges": es, "weighted": weighted}
                if weighted:
                    src["weights"] = [rng.choice([1, 2, 0.5, 6, 0.25]) for _ in es]
                if rng.random() < 0.5:
                    src["edge_md"] = [rng.choice(MAPPINGS + NON_MAPPING) for _ in es]
                if rng.random() < 0.4:
                    src["node_md"] = [[x, rng.choice(MAPPINGS + NON_MAPPING[:3])] for x in rng.sample(labels, 2)]
        elif flavour == "hif":
            uniform = rng.choice([3, 4]) if rng.random() < 0.2 else None
            src = {"t": "hif", "doc": gen_hif_doc(rng, uniform)}
            labels = list(range(12))
        elif flavour == "gen":
            c = rng.randrange(5)
            n = rng.randint(5, 9)
            labels = list(range(n))
            if c == 0:
                src = {"t": "gen", "fn": "random_hypergraph", "args": {"n": n, "by_size": [[k, rng.randint(1, 4)] for k in rng.sample([2, 3, 4], rng.randint(1, 3))], "seed": seed}}
            elif c in (1, 2):
                k = rng.choice([3, 4])
                src = {"t": "gen", "fn": "random_uniform_hypergraph", "args": {"n": n, "size": k, "m": rng.randint(n - 1, n + 4), "seed": seed}}
            elif c == 3:
                ks = rng.sample([2, 3, 4], rng.randint(1, 2))
                src = {"t": "gen", "fn": "scale_free_hypergraph", "args": {"n": n, "by_size": [[k, rng.randint(2, 4)] for k in ks],
                                                                            "scale": [[k, rng.choice([0.5, 1.0, 2.0])] for k in ks],
                                                                            "correlated": rng.random() < 0.7, "seed": seed}}
            else:
                wm = rng.random() < 0.4
                es = [list(e) for e in dict.fromkeys(tuple(sorted(e)) for e in gen_edges(rng, list(range(1, n + 1)), 2, 6))]
                text = "%% hmetis\n%d %d%s\n" % (len(es), n, " 1" if wm else "") + "".join(
                    (("%d " % rng.randint(1, 5)) if wm else "") + " ".join(str(x) for x in e) + "\n" for e in es)
                src = {"t": "gen", "fn": "hgr", "args": {"text": text}}
                labels = list(range(1, n + 1))
                weighted = wm
        else:
            k = rng.choice([3, 4])
            n = rng.randint(k + 1, 9)
            labels = list(range(n))
            uniform = k
            es = gen_uniform_edges(rng, n, k)
            weighted = rng.random() < 0.5
            src = {"t": "ctor", "edges": es, "weighted": weighted}
            if weighted:
                src["weights"] = [rng.choice([2, 0.5, 7, 3.25, 1, 4, 0.125]) for _ in es]
            if rng.random() < 0.5:
                src["edge_md"] = [rng.choice(MAPPINGS + NON_MAPPING) for _ in es]
        g = guard(source_static, src, tmp)
        obj = g[1] if g[0] == "ok" else None
        if obj is None:
            return {"kind": "session", "src": src, "steps": [], "seed": seed}
    live = Live(rng, obj, labels, step_static, tmp)
    if src["t"] != "new" and rng.random() < 0.5:
        live.do(["ask"])
    grow_static(rng, live, rng.randint(2, 9), weighted, uniform)
    if rng.random() < 0.6:
        # every way of deriving another object from this one, a few per session
        kinds = ["copy", "pickle", "saveload", "saveload"] if uniform is not None else \
            ["copy", "deepcopy", "pickle", "sub", "by_orders", "lcc", "edges_sub", "saveload", "saveload", "filter", "add_random", "shuffle", "config"]
        for k in rng.sample(kinds, min(len(kinds), rng.randint(3, 5))):
            st = derive_static(rng, live, uniform, kind=k)
            if st[0] == "filter":
                # (works in place)
                live.do(["probe", ["copy"]])
            else:
                live.do(["probe", st])
    return {"kind": "session", "src": src, "steps": live.steps, "seed": seed}


SESSION_FIXED = [
    # a hyperedge added with a non-mapping metadata object (a tag), then a call that raises, copies
    {"kind": "session", "src": {"t": "ctor", "edges": [[0, 1, 2], [2, 3, 4], [4, 5, 6]], "weighted": False}, "seed": 1,
     "steps": [["add_edge", [0, 6, 7], {"md": "contact"}], ["ask"], ["add_edge", [1, 3], {"md": 7}], ["rm_edge", [8, 9]], ["copy"],
               ["add_edges", [[1, 5], [2, 6, 7]], {"md": [["a", "b"], ""]}]]},
    # an edge record without incidences, an unrecorded node, an isolated node record
    {"kind": "session", "src": {"t": "hif", "doc": {"type": "undirected", "nodes": [{"node": n} for n in "abcdefg"],
                                                      "edges": [{"edge": e} for e in ["e1", "e2", "e3", "e4", "e5"]],
                                                      "incidences": [{"edge": e, "node": n} for e, ns in
                                                                     (("e1", "abc"), ("e2", "bcd"), ("e3", "de"), ("e4", "efa")) for n in ns]}},
     "seed": 2, "steps": [["ask"], ["add_empty", "ph", {"md": {"note": "no members yet"}}], ["pickle"]]},
    # a 3-uniform connected hypergraph on 0..5 that carries an empty edge and tags: CEC / HEC apply
    {"kind": "session", "src": {"t": "ctor", "edges": [[0, 1, 2], [1, 2, 3], [3, 4, 5], [0, 4, 5]], "weighted": False, "edge_md": ["t", 1, {}, []]},
     "seed": 3, "steps": [["add_empty", 0, {"md": "x"}], ["add_edge", [2, 3, 5], {"md": "tag"}], ["set_weight", [0, 1, 2], {"w": 2}]]},
    # windows of a temporal hypergraph whose records carry tags
    {"kind": "session", "src": {"t": "temporal", "weighted": False, "pick": ["aggregate", 2, 0],
                                "tsteps": [["add", [1, 2, 3], 0, {"md": "tag"}], ["add", [2, 4], 1, {"md": 5}], ["add", [1, 4], 2, {}],
                                           ["add", [3, 4, 5], 1.5, {}], ["add", [2, 3], 3, {"md": ["x"]}], ["saveload", {"fmt": "hgx"}]]},
     "seed": 4, "steps": [["add_edge", [1, 2], {"md": "late"}]]},
]


# ------------------------------------------------------------------------------------------

def check_case(ctx, drv, case):
    """a result of an unexpected shape (a changed implementation) must not stop the run: it is reported, the run goes on"""
    try:
        check_case_(ctx, drv, case)
    except Exception as e:  # noqa: BLE001
        import traceback
        where = traceback.extract_tb(e.__traceback__)[-1]
        ctx.disagree(case, f"the check of this case could not be completed: {type(e).__name__}: {e} (harness line {where.lineno}); "
                           f"some result of the implementation has an unexpected shape")


def check_case_(ctx, drv, case):
    kind = case.get("kind")
    if kind == "static":
        check_static(ctx, drv, case)
    elif kind == "temporal":
        check_temporal(ctx, drv, case)
    elif kind == "dense":
        check_dense(ctx, drv, case)
    elif kind == "session":
        check_session(ctx, drv, case)
    else:
        check_uniform(ctx, drv, case)


def _chain(k, L, ov=1):
    return [tuple(range(i * (k - ov), i * (k - ov) + k)) for i in range(L)]


FIXED = [
    # D33: integer labels / a label containing 'E' in the averaged node versions
    {"kind": "temporal", "labels": [1, 2, 3, 4], "edges": [(1, 2, 3), (2, 4), (1, 4)], "times": [1, 1, 2]},
    {"kind": "temporal", "labels": ["ANNE", "BOB", "c", "d"], "edges": [("ANNE", "BOB", "c"), ("BOB", "d"), ("ANNE", "d")], "times": [1, 1, 2]},
    {"kind": "static", "labels": ["ANNE", "E1", "N0", "x"], "edges": [("ANNE", "E1"), ("E1", "N0", "x"), ("x",)], "isolated": ["N0"], "iso_first": True},
    # one hyperedge with more than 710 members (+ pendant hyperedges, a second component, an isolated node): radius ~ 760
    {"kind": "dense", "core": 0, "sizes": [], "keep": 1.0, "bigs": [[0, 760]], "sel": 1, "lab": "int", "iso": [770],
     "extra": [[0, 760], [760, 761, 762], [5, 762], [765, 766]]},
    # all hyperedges of sizes 2..5 on 11 nodes: radius 1300
    {"kind": "dense", "core": 11, "sizes": [2, 3, 4, 5], "keep": 1.0, "bigs": [], "sel": 2, "lab": "str", "iso": [], "extra": [[3, 11], [11, 12]]},
    # slow mixing: a 3-uniform chain of 20 hyperedges, a 4-uniform chain with overlap 2
    {"kind": "uniform", "family": "chain", "n": 41, "k": 3, "edges": _chain(3, 20), "seed": 5},
    {"kind": "uniform", "family": "chain", "n": 18, "k": 4, "edges": _chain(4, 8, 2), "seed": 6},
]


def run(ctx):
    drv = ctx.driver() if ctx.model_available else None
    ill_conditioned_witness(ctx)
    for case in (FIXED if not os.environ.get("C20_NO_FIXED") else []) + (SESSION_FIXED if not os.environ.get("C20_NO_ZOO") else []):
        check_case(ctx, drv, case)
    n = ctx.scale(300, 12000)
    cap = ctx.scale(450, 1500)
    spent = {}
    for i in range(n):
        r = i % 12
        if r in (0, 1, 2):
            case = gen_static(ctx.rng)
        elif r in (3, 4, 5):
            case = gen_temporal(ctx.rng)
        elif r in (6, 7):
            case = gen_uniform(ctx.rng)
        elif r in (8, 9):
            case = gen_dense(ctx.rng, cap)
        else:
            t0 = time.time()
            case = gen_session(ctx.rng)
            spent["session_generation"] = spent.get("session_generation", 0.0) + time.time() - t0
        t0 = time.time()
        check_case(ctx, drv, case)
        spent[case.get("kind")] = spent.get(case.get("kind"), 0.0) + time.time() - t0
        if ctx.too_many() or (ctx.time_left() is not None and ctx.time_left() < ctx.scale(15, 8)):
            ctx.count("stopped_by_budget")
            break
    for k, v in spent.items():
        ctx.count(f"seconds_{k}", round(v, 1))


def _tuplify(case):
    case = dict(case)
    if "edges" in case:
        case["edges"] = [tuple(e) for e in case["edges"]]
    if case.get("kind") == "session":
        for k in ("instance", "s", "start", "line", "n", "k"):
            case.pop(k, None)
        return case
    for k in ("instance", "s", "start", "line", "relabelled"):
        case.pop(k, None)
    return case


def replay(ctx, case):
    drv = ctx.driver() if ctx.model_available else None
    check_case(ctx, drv, _tuplify(case))
