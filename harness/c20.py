"""C20 - centralities are the advertised functionals of the hypergraph's projections.

Correspondence of lean/Hgxv/Model/C20.lean (+ C20Cent.lean) with hypergraphx.representations.projections,
hypergraphx.measures.s_centralities, TemporalHypergraph.subhypergraph and hypergraphx.measures.eigen_centralities,
and independent property oracles on the implementation (own projections, own Brandes / BFS in exact rationals,
networkx on the own projection, scipy.linalg.expm, eigen-equation residuals, relabelling)."""
import contextlib
import io
import math
import signal
from collections import deque
from fractions import Fraction

import hgxv

RULE = ("three streams from one PRNG. (1) static: random Hypergraph, 3-8 nodes from a sparse integer universe or a string "
        "universe that contains 'E'/'N' labels ('ANNE', 'E1', 'N0', ...), 1-7 hyperedges of size 1-4 with repeated overlaps, "
        "isolated nodes; s in {1,2,3}; s_betweenness/s_closeness/s_*_nodes, subhypergraph_centrality, an injective "
        "non-monotone relabelling. (2) temporal: the same universes, 2-9 (time, hyperedge) records over 1-4 times; the four "
        "averaged functions. (3) eigen: connected k-uniform hypergraphs, k in {3,4}, 4-9 nodes 0..N-1; CEC/HEC from 3 (quick) "
        "or 6 (thorough) seeded random starts, one-step runs from a dyadic start, a permutation of the labels. A case is "
        "distinct by its canonical input; non-trivial when the centralities it produced take >= 2 distinct values")
ASSUMPTIONS = ["labels of one hypergraph are mutually comparable (all int or all str) and are mapped to their rank before they reach the model",
               "node labels are not tuples (a node never equals a hyperedge as a dict key)",
               "CEC/HEC: connected k-uniform hypergraphs with k in {3,4} on nodes 0..N-1 (as the routines demand)",
               "sub-hypergraph centrality: index i of the returned array is the i-th smallest label (LabelEncoder = rank)"]
TRUSTED = ["networkx betweenness_centrality / closeness_centrality (parameter `cent` of the theorems; compared on every case with "
           "an own Brandes / BFS computation in exact rationals)",
           "numpy.linalg.eigh, scipy.special.logsumexp (compared with log diag scipy.linalg.expm within 1e-8)",
           "convergence of the power iterations to a positive vector (Perron-Frobenius; checked per run: positivity, "
           "normalisation, eigen-equation residual <= 1e-5)",
           "float arithmetic vs exact rationals: tolerance 1e-9 on centrality values; dyadic inputs where equality is exact"]
BUDGET_S = {"quick": 50, "thorough": 800}

TOL = 1e-9


class Timeout(Exception):
    pass


def _alarm(signum, frame):
    raise Timeout()


LAST_OUT = [""]


def guard(fn, *a, **k):
    """run an implementation call; exceptions and hangs become observations; what it prints goes to LAST_OUT"""
    old = signal.signal(signal.SIGALRM, _alarm)
    signal.alarm(20)
    buf = io.StringIO()
    LAST_OUT[0] = ""
    try:
        with contextlib.redirect_stdout(buf):
            r = fn(*a, **k)
        LAST_OUT[0] = buf.getvalue()
        return ("ok", r)
    except Timeout:
        return ("exc", "timeout after 20 s")
    except Exception as e:  # noqa: BLE001
        return ("exc", f"{type(e).__name__}: {e}")
    finally:
        signal.alarm(0)
        signal.signal(signal.SIGALRM, old)


# ------------------------------------------------------------------------------------------
# independent reference computations

def own_line(edges, s):
    m = len(edges)
    adj = {i: set() for i in range(m)}
    for i in range(m):
        for j in range(i + 1, m):
            if len(set(edges[i]) & set(edges[j])) >= s:
                adj[i].add(j)
                adj[j].add(i)
    return adj


def own_bip(nodes, edges):
    adj = {("n", x): set() for x in nodes}
    for e in edges:
        adj[("e", e)] = set()
    for e in edges:
        for x in e:
            adj[("e", e)].add(("n", x))
            adj[("n", x)].add(("e", e))
    return adj


def exact_closeness(adj):
    n = len(adj)
    out = {}
    for v in adj:
        dist = {v: 0}
        dq = deque([v])
        while dq:
            u = dq.popleft()
            for w in adj[u]:
                if w not in dist:
                    dist[w] = dist[u] + 1
                    dq.append(w)
        tot = sum(dist.values())
        r = len(dist) - 1
        out[v] = Fraction(r, tot) * Fraction(r, n - 1) if tot > 0 and n > 1 else Fraction(0)
    return out


def exact_betweenness(adj):
    """Brandes, accumulation over all sources, networkx's normalisation 1/((n-1)(n-2)) for n >= 3"""
    n = len(adj)
    bc = {v: Fraction(0) for v in adj}
    for s in adj:
        stack, pred = [], {v: [] for v in adj}
        sigma = {v: 0 for v in adj}
        dist = {}
        sigma[s], dist[s] = 1, 0
        dq = deque([s])
        while dq:
            v = dq.popleft()
            stack.append(v)
            for w in adj[v]:
                if w not in dist:
                    dist[w] = dist[v] + 1
                    dq.append(w)
                if dist[w] == dist[v] + 1:
                    sigma[w] += sigma[v]
                    pred[w].append(v)
        delta = {v: Fraction(0) for v in adj}
        while stack:
            w = stack.pop()
            for v in pred[w]:
                delta[v] += Fraction(sigma[v], sigma[w]) * (1 + delta[w])
            if w != s:
                bc[w] += delta[w]
    if n >= 3:
        for v in bc:
            bc[v] /= (n - 1) * (n - 2)
    return bc


def nx_graph(adj):
    import networkx as nx
    g = nx.Graph()
    g.add_nodes_from(adj)
    for u in adj:
        for w in adj[u]:
            g.add_edge(u, w)
    return g


def stub_cent(G, *a, **k):
    """the arbitrary `cent` also implemented in lean/Hgxv/Model/C20Cent.lean (`stubCent`)"""
    m = G.number_of_edges()
    return {v: ((3 * G.degree(v) + 7 * i + 11 * m + 5) % 64) / 8 for i, v in enumerate(list(G.nodes))}


class StubNx:
    """installs `stub_cent` in place of the two networkx routines (the module attribute the code looks up)"""

    def __enter__(self):
        import networkx as nx
        self.nx = nx
        self.old = (nx.betweenness_centrality, nx.closeness_centrality)
        nx.betweenness_centrality = stub_cent
        nx.closeness_centrality = stub_cent
        return self

    def __exit__(self, *a):
        self.nx.betweenness_centrality, self.nx.closeness_centrality = self.old


# ------------------------------------------------------------------------------------------
# generators

STR_POOL = ["ANNE", "E1", "N0", "E", "N", "NE", "EVE", "bob", "c", "d", "x1", "zed", "Ed", "e", "n", "al"]


def gen_labels(rng, n):
    if rng.random() < 0.45:
        return rng.sample(STR_POOL, n)
    return rng.sample(range(0, 30), n)


def gen_edges(rng, labels, lo=1, hi=7, sizes=(1, 2, 2, 2, 3, 3, 3, 4)):
    edges = []
    for _ in range(rng.randint(lo, hi)):
        k = min(len(labels), rng.choice(sizes))
        if edges and rng.random() < 0.5:
            # overlap an earlier hyperedge in 1..3 nodes so that s = 2, 3 are exercised
            base = list(rng.choice(edges))
            keep = rng.sample(base, min(len(base), rng.randint(1, 3)))
            rest = [x for x in labels if x not in keep]
            e = keep + rng.sample(rest, max(0, min(len(rest), k - len(keep))))
        else:
            e = rng.sample(labels, k)
        rng.shuffle(e)
        edges.append(tuple(e))
    return edges


def gen_static(rng):
    n = rng.randint(3, 8)
    labels = gen_labels(rng, n)
    edges = gen_edges(rng, labels)
    iso = [x for x in labels if rng.random() < 0.2]
    first = rng.random() < 0.5
    return {"kind": "static", "labels": labels, "edges": edges, "isolated": iso, "iso_first": first}


def gen_temporal(rng):
    n = rng.randint(3, 7)
    labels = gen_labels(rng, n)
    edges = gen_edges(rng, labels, 2, 9)
    tmax = rng.randint(1, 4)
    times = [rng.randint(1, tmax) for _ in edges]
    if rng.random() < 0.5 and len(edges) >= 2:
        # the same hyperedge at two times
        edges.append(edges[0])
        times.append(times[0] % tmax + 1 if tmax > 1 else times[0] + 1)
    return {"kind": "temporal", "labels": labels, "edges": edges, "times": times}


def gen_uniform(rng):
    k = rng.choice([3, 4])
    n = rng.randint(k + 1, 9)
    order = list(range(n))
    rng.shuffle(order)
    edges, seen = [], set(order[:k])
    edges.append(tuple(order[:k]))
    for x in order[k:]:
        others = rng.sample(sorted(seen), k - 1)
        edges.append(tuple(others + [x]))
        seen.add(x)
    for _ in range(rng.randint(0, 4)):
        edges.append(tuple(rng.sample(range(n), k)))
    es = []
    for e in edges:
        e = list(e)
        rng.shuffle(e)
        if tuple(sorted(e)) not in [tuple(sorted(f)) for f in es]:
            es.append(tuple(e))
    return {"kind": "uniform", "n": n, "k": k, "edges": es, "seed": rng.randint(0, 10 ** 6)}


# ------------------------------------------------------------------------------------------
# helpers

def close(a, b, tol=TOL):
    try:
        return abs(float(a) - float(b)) <= tol
    except Exception:  # noqa: BLE001
        return False


def parse_items(ans):
    """`key=value,...` -> dict key-string -> Fraction; 'rej' -> None"""
    if ans == "rej":
        return None
    if ans == "-":
        return {}
    out = {}
    for it in ans.split(","):
        k, v = it.split("=")
        if k in out:
            return {"dup": k}
        out[k] = Fraction(hgxv.dec_num(v))
    return out


def ekey(rank, e):
    return ".".join(str(r) for r in sorted(rank[x] for x in e))


class Values:
    """collects the centrality values of a case for the non-triviality rule"""

    def __init__(self):
        self.vals = set()

    def add(self, d):
        for v in d:
            try:
                self.vals.add(round(float(v), 9))
            except Exception:  # noqa: BLE001
                pass

    def nontrivial(self):
        return len(self.vals) >= 2


def build_static(case, relabel=None):
    from hypergraphx import Hypergraph
    f = (lambda x: x) if relabel is None else (lambda x: relabel[x])
    h = Hypergraph()
    if case.get("iso_first"):
        for x in case["isolated"]:
            h.add_node(f(x))
    for e in case["edges"]:
        h.add_edge(tuple(f(x) for x in e))
    if not case.get("iso_first"):
        for x in case["isolated"]:
            h.add_node(f(x))
    return h


def check_dict(ctx, case, name, got, want_keys, ref_exact, ref_nx, vals, what_keys):
    """`got` = guarded implementation result; it must be a dict with exactly the keys `want_keys` (each once) and the
    reference values (exact rationals; the networkx value on the own projection as a second witness)"""
    if got[0] != "ok":
        ctx.violation(case, f"{name} raised {got[1]}")
        return None
    d = got[1]
    if not isinstance(d, dict):
        ctx.violation(case, f"{name} returned {type(d).__name__}, not a dict")
        return None
    if len(d) != len(want_keys) or set(d) != set(want_keys):
        missing = [k for k in want_keys if k not in d]
        extra = [k for k in d if k not in set(want_keys)]
        ctx.violation(case, f"{name}: not exactly one value per {what_keys}: missing {missing!r}, unexpected {extra!r}")
        return None
    for k in want_keys:
        if not close(d[k], ref_exact[k]):
            ctx.violation(case, f"{name}[{k!r}] = {d[k]!r}, own exact computation on the projection gives {ref_exact[k]} "
                                f"= {float(ref_exact[k])!r}")
            return None
        if ref_nx is not None and not close(d[k], ref_nx[k]):
            ctx.violation(case, f"{name}[{k!r}] = {d[k]!r}, networkx on the own projection gives {ref_nx[k]!r}")
            return None
    vals.add(d.values())
    return d


def compare_items(ctx, case, line, ans, impl, keyf, exact):
    """model answer `ans` to `line` vs implementation dict `impl` (key -> float)"""
    m = parse_items(ans)
    if impl is None:
        return
    if m is None or "dup" in m:
        ctx.disagree({**case, "line": line}, f"model answers {ans!r} to {line!r}, implementation returned a dict")
        return
    try:
        want = {keyf(k): v for k, v in impl.items()}
    except Exception:  # noqa: BLE001  (a key that is neither a node nor a hyperedge of the input)
        ctx.disagree({**case, "line": line}, f"{line!r}: implementation keys {list(impl)!r} are not all nodes / hyperedges of the input")
        return
    if set(m) != set(want) or len(want) != len(impl):
        ctx.disagree({**case, "line": line}, f"model keys {sorted(m)} != implementation keys {sorted(want)} for {line!r}")
        return
    for k in want:
        ok = (float(m[k]) == float(want[k])) if exact else close(m[k], want[k])
        if not ok:
            ctx.disagree({**case, "line": line}, f"{line!r}: model {k} = {m[k]} = {float(m[k])!r}, implementation {want[k]!r}")
            return


# ------------------------------------------------------------------------------------------
# stream 1: static hypergraphs

def check_static(ctx, drv, case):
    import networkx as nx
    import numpy as np
    from hypergraphx.representations.projections import line_graph, bipartite_projection
    from hypergraphx.measures import s_centralities as sc
    from hypergraphx.measures.sub_hypergraph_centrality import subhypergraph_centrality
    vals = Values()
    got = guard(build_static, case)
    if got[0] != "ok":
        ctx.violation(case, f"building the hypergraph raised {got[1]}")
        return
    h = got[1]
    nodes = list(h.get_nodes())
    edges = [tuple(sorted(e)) for e in h.get_edges()]
    rank = {x: i for i, x in enumerate(sorted(set(case["labels"])))}
    key = repr(("static", [rank[x] for x in nodes], [sorted(rank[x] for x in e) for e in edges]))
    lines = ["load " + hgxv.enc_list([rank[x] for x in nodes]) + " " + hgxv.enc_lists([[rank[x] for x in e] for e in edges])]
    checks = [lambda a: a == "ok" or f"load answered {a!r}"]
    impl = {}

    # --- projections (correspondence) and s-centralities of hyperedges
    for s in (1, 2, 3):
        adj = own_line(edges, s)
        g_own = nx_graph(adj)
        for name, fn, exact_fn, nxf, cname in (("s_betweenness", sc.s_betweenness, exact_betweenness, nx.betweenness_centrality, "btw"),
                                               ("s_closeness", sc.s_closeness, exact_closeness, nx.closeness_centrality, "clo")):
            ref = exact_fn(adj)
            refnx = nxf(g_own)
            d = check_dict(ctx, {**case, "s": s}, f"{name}(H, s={s})", guard(fn, h, s), edges,
                           {e: ref[i] for i, e in enumerate(edges)}, {e: refnx[i] for i, e in enumerate(edges)}, vals, "hyperedge")
            for i in range(len(edges)):
                if not close(ref[i], refnx[i]):
                    ctx.disagree({**case, "s": s}, f"reference drift: own {name} {ref[i]} vs networkx {refnx[i]} on the own line graph")
            impl[(cname, s)] = d
            lines.append(f"se {cname} {s}")
            checks.append(("items", (cname, s), lambda k: ekey(rank, k), False))
        lg = guard(line_graph, h, s=s)
        if lg[0] == "ok":
            g, tab = lg[1]
            want = (hgxv.enc_lists(sorted(sorted(e) for e in g.edges())) + " "
                    + hgxv.enc_lists([[rank[x] for x in tab[i]] for i in range(len(tab))]))
            lines.append(f"line {s}")
            checks.append(("line", want))
            if sorted(g.nodes) != list(range(len(edges))):
                ctx.violation({**case, "s": s}, f"line_graph vertices {sorted(g.nodes)} are not one per hyperedge")
        with StubNx():
            for name, fn in (("s_betweenness", sc.s_betweenness), ("s_closeness", sc.s_closeness)):
                r = guard(fn, h, s)
                impl[("stub" + name, s)] = r[1] if r[0] == "ok" and isinstance(r[1], dict) else None
                lines.append(f"se stub {s}")
                checks.append(("items", ("stub" + name, s), lambda k: ekey(rank, k), True))

    # --- node versions on the bipartite projection
    adj = own_bip(nodes, edges)
    g_own = nx_graph(adj)
    for name, fn, exact_fn, nxf, cname in (("s_betweenness_nodes", sc.s_betweenness_nodes, exact_betweenness, nx.betweenness_centrality, "btw"),
                                           ("s_closeness_nodes", sc.s_closeness_nodes, exact_closeness, nx.closeness_centrality, "clo")):
        ref = exact_fn(adj)
        refnx = nxf(g_own)
        d = check_dict(ctx, case, f"{name}(H)", guard(fn, h), nodes, {x: ref[("n", x)] for x in nodes},
                       {x: refnx[("n", x)] for x in nodes}, vals, "node")
        impl[(cname, "n")] = d
        lines.append(f"sn {cname}")
        checks.append(("items", (cname, "n"), lambda k: "n" + str(rank[k]), False))
    with StubNx():
        for name, fn in (("s_betweenness_nodes", sc.s_betweenness_nodes), ("s_closeness_nodes", sc.s_closeness_nodes)):
            r = guard(fn, h)
            impl[("stub" + name, "n")] = r[1] if r[0] == "ok" and isinstance(r[1], dict) else None
            lines.append("sn stub")
            checks.append(("items", ("stub" + name, "n"), lambda k: "n" + str(rank[k]), True))
    bp = guard(bipartite_projection, h)
    if bp[0] == "ok":
        g, tab = bp[1]

        def obj(o):
            return "e" + ekey(rank, o) if isinstance(o, tuple) else "n" + str(rank[o])
        want = (",".join(str(v) for v in g.nodes) or "-") + " " + (",".join(sorted("~".join(sorted(map(str, e))) for e in g.edges())) or "-") \
            + " " + (",".join(sorted(f"{k}={obj(o)}" for k, o in tab.items())) or "-")
        lines.append("bip")
        checks.append(("bip", want))

    # --- sub-hypergraph centrality = log diag expm(A)
    if edges:
        from scipy.linalg import expm
        srt = sorted(nodes)
        idx = {x: i for i, x in enumerate(srt)}
        A = np.zeros((len(srt), len(srt)))
        for e in edges:
            for a in e:
                for b in e:
                    if a != b:
                        A[idx[a], idx[b]] += 1
        want = np.log(np.diag(expm(A)))
        r = guard(subhypergraph_centrality, h)
        if r[0] != "ok":
            ctx.violation(case, f"subhypergraph_centrality raised {r[1]}")
        else:
            got_v = np.asarray(r[1]).reshape(-1)
            if got_v.shape != want.shape or not np.all(np.abs(got_v - want) <= 1e-8 * np.maximum(1, np.abs(want))):
                ctx.violation(case, f"subhypergraph_centrality = {got_v.tolist()}, log diag expm(A) = {want.tolist()} (nodes {srt})")
            else:
                vals.add(got_v.tolist())
                impl["subhg"] = {x: got_v[idx[x]] for x in srt}

    # --- relabelling: injective, not monotone, into the other kind of labels
    labels = sorted(set(case["labels"]))
    perm = list(range(len(labels)))
    ctx.rng.shuffle(perm)
    if "relabel" in case:
        relabel = {a: b for a, b in case["relabel"]}
    elif isinstance(labels[0], str):
        relabel = {x: 100 + 3 * perm[i] for i, x in enumerate(labels)}
    else:
        relabel = {x: "NE" + chr(65 + perm[i]) for i, x in enumerate(labels)}
    rcase = {**case, "relabel": [[x, relabel[x]] for x in labels]}
    g2 = guard(build_static, case, relabel)
    if g2[0] != "ok":
        ctx.violation(rcase, f"building the relabelled hypergraph raised {g2[1]}")
    else:
        h2 = g2[1]

        def fe(e):
            return tuple(sorted(relabel[x] for x in e))
        todo = [((c, s), fn, (s,), fe) for s in (1, 2, 3) for c, fn in (("btw", sc.s_betweenness), ("clo", sc.s_closeness))]
        todo += [((c, "n"), fn, (), lambda x: relabel[x]) for c, fn in (("btw", sc.s_betweenness_nodes), ("clo", sc.s_closeness_nodes))]
        for k, fn, args, fk in todo:
            base = impl.get(k)
            if base is None:
                continue
            r = guard(fn, h2, *args)
            if r[0] != "ok" or not isinstance(r[1], dict):
                ctx.violation(rcase, f"{fn.__name__} on the relabelled hypergraph raised / returned {r[1]!r}")
                continue
            d2 = r[1]
            if set(d2) != {fk(x) for x in base} or any(not close(d2[fk(x)], base[x]) for x in base):
                ctx.violation(rcase, f"{fn.__name__}{args}: values are not carried along by the relabelling: {base!r} vs {d2!r}")
        if "subhg" in impl:
            r = guard(subhypergraph_centrality, h2)
            if r[0] != "ok":
                ctx.violation(rcase, f"subhypergraph_centrality on the relabelled hypergraph raised {r[1]}")
            else:
                v2 = np.asarray(r[1]).reshape(-1)
                srt2 = sorted(relabel[x] for x in nodes)
                d2 = {y: v2[i] for i, y in enumerate(srt2)} if len(v2) == len(srt2) else {}
                if any(not close(d2.get(relabel[x], math.nan), v, 1e-8) for x, v in impl["subhg"].items()):
                    ctx.violation(rcase, "subhypergraph_centrality: values are not carried along by the relabelling")

    ctx.case(key, vals.nontrivial(), sample=case)
    ctx.count("static_str_labels" if isinstance(labels[0], str) else "static_int_labels")
    run_model(ctx, drv, case, lines, checks, impl)


def run_model(ctx, drv, case, lines, checks, impl):
    if drv is None:
        return
    ans = drv.batch(lines)
    for ln, a, ck in zip(lines, ans, checks):
        if callable(ck):
            r = ck(a)
            if r is not True:
                ctx.disagree({**case, "line": ln}, str(r))
        elif ck[0] == "items":
            compare_items(ctx, case, ln, a, impl.get(ck[1]), ck[2], ck[3])
        else:
            if ck[0] == "bip":
                parts = a.split(" ")
                if len(parts) == 3:
                    a = parts[0] + " " + ",".join(sorted(parts[1].split(","))) + " " + ",".join(sorted(parts[2].split(",")))
            elif ck[0] == "line":
                parts = a.split(" ")
                if len(parts) == 2 and parts[0] != "-":
                    a = ";".join(sorted(parts[0].split(";"), key=lambda t: [int(z) for z in t.split(",")])) + " " + parts[1]
            if a != ck[1]:
                ctx.disagree({**case, "line": ln}, f"model answers {a!r} to {ln!r}, implementation gives {ck[1]!r}")


# ------------------------------------------------------------------------------------------
# stream 2: temporal hypergraphs

def check_temporal(ctx, drv, case):
    from hypergraphx import TemporalHypergraph
    from hypergraphx.measures import s_centralities as sc
    vals = Values()

    def build():
        t = TemporalHypergraph()
        for e, tm in zip(case["edges"], case["times"]):
            t.add_edge(tuple(e), tm)
        return t
    got = guard(build)
    if got[0] != "ok":
        ctx.violation(case, f"building the temporal hypergraph raised {got[1]}")
        return
    T = got[1]
    recs = [(t, tuple(sorted(e))) for t, e in T.get_edges()]
    rank = {x: i for i, x in enumerate(sorted(set(case["labels"])))}
    key = repr(("temporal", [(t, sorted(rank[x] for x in e)) for t, e in recs]))
    lines = ["tload " + hgxv.enc_list([t for t, _ in recs]) + " " + hgxv.enc_lists([[rank[x] for x in e] for _, e in recs])]
    checks = [lambda a: a == "ok" or f"tload answered {a!r}"]
    impl = {}
    # own snapshots: hyperedges per time; nodes = members
    tms = sorted({t for t, _ in recs})
    snap_edges = {t: [e for (u, e) in recs if u == t] for t in tms}
    snap_nodes = {t: sorted({x for e in snap_edges[t] for x in e}) for t in tms}
    all_edges = sorted({e for _, e in recs})
    all_nodes = sorted({x for e in all_edges for x in e})
    nT = len(tms)
    sub = guard(T.subhypergraph)
    if sub[0] == "ok":
        d = sub[1]
        want = (hgxv.enc_list(list(d.keys())) + " " + hgxv.enc_lists([[rank[x] for x in hh.get_nodes()] for hh in d.values()]) + " "
                + "|".join(";".join(",".join(str(rank[x]) for x in e) for e in hh.get_edges()) for hh in d.values()))
        lines.append("snaps")
        checks.append(("plain", want))
    for s in (1, 2, 3):
        for name, fn, exact_fn, cname in (("s_betweenness_averaged", sc.s_betweenness_averaged, exact_betweenness, "btw"),
                                          ("s_closeness_averaged", sc.s_closeness_averaged, exact_closeness, "clo")):
            tot = {e: Fraction(0) for e in all_edges}
            for t in tms:
                ref = exact_fn(own_line(snap_edges[t], s))
                for i, e in enumerate(snap_edges[t]):
                    tot[e] += ref[i]
            ref = {e: v / nT for e, v in tot.items()}
            dd = check_dict(ctx, {**case, "s": s}, f"{name}(T, s={s})", guard(fn, T, s), all_edges, ref, None, vals, "hyperedge")
            impl[(cname, s)] = dd
            lines.append(f"tse {cname} {s}")
            checks.append(("items", (cname, s), lambda k: ekey(rank, k), False))
        with StubNx():
            for name, fn in (("b", sc.s_betweenness_averaged), ("c", sc.s_closeness_averaged)):
                r = guard(fn, T, s)
                impl[("stub" + name, s)] = r[1] if r[0] == "ok" and isinstance(r[1], dict) else None
                lines.append(f"tse stub {s}")
                checks.append(("items", ("stub" + name, s), lambda k: ekey(rank, k), True))
    for name, fn, exact_fn, cname in (("s_betweenness_nodes_averaged", sc.s_betweenness_nodes_averaged, exact_betweenness, "btw"),
                                      ("s_closenness_nodes_averaged", sc.s_closenness_nodes_averaged, exact_closeness, "clo")):
        tot = {x: Fraction(0) for x in all_nodes}
        for t in tms:
            ref = exact_fn(own_bip(snap_nodes[t], snap_edges[t]))
            for x in snap_nodes[t]:
                tot[x] += ref[("n", x)]
        ref = {x: v / nT for x, v in tot.items()}
        dd = check_dict(ctx, case, f"{name}(T)", guard(fn, T), all_nodes, ref, None, vals, "node")
        impl[(cname, "n")] = dd
        lines.append(f"tsn {cname}")
        checks.append(("items", (cname, "n"), lambda k: "n" + str(rank[k]), False))
    with StubNx():
        for name, fn in (("b", sc.s_betweenness_nodes_averaged), ("c", sc.s_closenness_nodes_averaged)):
            r = guard(fn, T)
            impl[("stub" + name, "n")] = r[1] if r[0] == "ok" and isinstance(r[1], dict) else None
            lines.append("tsn stub")
            checks.append(("items", ("stub" + name, "n"), lambda k: "n" + str(rank[k]), True))
    # relabelling (injective, not monotone, into the other kind of labels)
    labels = sorted(set(case["labels"]))
    perm = list(range(len(labels)))
    ctx.rng.shuffle(perm)
    if "relabel" in case:
        relabel = {a: b for a, b in case["relabel"]}
    elif isinstance(labels[0], str):
        relabel = {x: 100 + 3 * perm[i] for i, x in enumerate(labels)}
    else:
        relabel = {x: "EN" + chr(65 + perm[i]) for i, x in enumerate(labels)}
    rcase = {**case, "relabel": [[x, relabel[x]] for x in labels]}

    def build2():
        t = TemporalHypergraph()
        for e, tm in zip(case["edges"], case["times"]):
            t.add_edge(tuple(relabel[x] for x in e), tm)
        return t
    g2 = guard(build2)
    if g2[0] != "ok":
        ctx.violation(rcase, f"building the relabelled temporal hypergraph raised {g2[1]}")
    else:
        def fe(e):
            return tuple(sorted(relabel[x] for x in e))
        todo = [((c, s), fn, (s,), fe) for s in (1, 2) for c, fn in (("btw", sc.s_betweenness_averaged), ("clo", sc.s_closeness_averaged))]
        todo += [((c, "n"), fn, (), lambda x: relabel[x]) for c, fn in (("btw", sc.s_betweenness_nodes_averaged), ("clo", sc.s_closenness_nodes_averaged))]
        for k, fn, args, fk in todo:
            base = impl.get(k)
            if base is None:
                continue
            r = guard(fn, g2[1], *args)
            if r[0] != "ok" or not isinstance(r[1], dict):
                ctx.violation(rcase, f"{fn.__name__} on the relabelled temporal hypergraph raised / returned {r[1]!r}")
                continue
            d2 = r[1]
            if set(d2) != {fk(x) for x in base} or any(not close(d2[fk(x)], base[x]) for x in base):
                ctx.violation(rcase, f"{fn.__name__}{args}: values are not carried along by the relabelling: {base!r} vs {d2!r}")
    ctx.case(key, vals.nontrivial(), sample=case)
    ctx.count("temporal_str_labels" if isinstance(case["labels"][0], str) else "temporal_int_labels")
    ctx.count(f"temporal_snapshots_{nT}")
    run_model(ctx, drv, case, lines, checks, impl)


# ------------------------------------------------------------------------------------------
# stream 3: CEC / HEC on connected uniform hypergraphs

class FixedStart:
    """np.random.rand / np.random.uniform return the given vector (the code's random start)"""

    def __init__(self, x0):
        self.x0 = x0

    def __enter__(self):
        import numpy as np
        self.np = np
        self.old = (np.random.rand, np.random.uniform)
        x0 = self.x0
        np.random.rand = lambda *a, **k: np.array(x0, dtype=float)
        np.random.uniform = lambda *a, **k: np.array(x0, dtype=float)
        return self

    def __exit__(self, *a):
        self.np.random.rand, self.np.random.uniform = self.old


def as_vec(ctx, case, name, r, n):
    import numpy as np
    if r[0] != "ok":
        ctx.violation(case, f"{name} raised {r[1]}")
        return None
    d = r[1]
    try:
        ok = isinstance(d, dict) and len(d) == n and all(i in d for i in range(n))
        v = np.array([float(d[i]) for i in range(n)]) if ok else None
    except Exception:  # noqa: BLE001
        ok, v = False, None
    if not ok:
        ctx.violation(case, f"{name}: result {d!r} does not give one number to each node 0..{n - 1}")
        return None
    return v


def check_uniform(ctx, drv, case):
    import numpy as np
    from hypergraphx import Hypergraph
    from hypergraphx.measures import eigen_centralities as ec
    n, k, edges = case["n"], case["k"], [tuple(e) for e in case["edges"]]
    vals = Values()
    got = guard(lambda: Hypergraph(edges))
    if got[0] != "ok":
        ctx.violation(case, f"building the hypergraph raised {got[1]}")
        return
    h = got[1]
    E = [tuple(e) for e in h.get_edges()]
    key = repr(("uniform", n, sorted(E)))
    W = np.zeros((n, n))
    for e in E:
        for a in e:
            for b in e:
                if a != b:
                    W[a, b] += 1
    lam_max = float(np.max(np.linalg.eigvalsh(W)))

    def applied(x):
        y = np.zeros(n)
        for e in E:
            for a in e:
                y[a] += np.prod([x[b] for b in e if b != a])
        return y
    starts = ctx.scale(3, 6)
    np.random.seed(case["seed"])
    cec_runs, hec_runs = [], []
    for st in range(starts):
        c = as_vec(ctx, {**case, "start": st}, "CEC_centrality", guard(ec.CEC_centrality, h), n)
        if c is not None:
            cec_runs.append(c)
            lam = float(c @ W @ c)
            res = float(np.linalg.norm(W @ c - lam * c))
            if not (np.all(c > 0) and abs(np.linalg.norm(c) - 1) <= 1e-9):
                ctx.violation({**case, "start": st}, f"CEC is not a positive unit vector: {c.tolist()}")
            elif res > 1e-5 * max(1.0, lam) or abs(lam - lam_max) > 1e-5 * max(1.0, lam_max):
                ctx.violation({**case, "start": st}, f"CEC: |W c - lambda c| = {res:.3g}, lambda = {lam!r}, lambda_max = {lam_max!r}")
            vals.add(c.tolist())
        x = as_vec(ctx, {**case, "start": st}, "HEC_centrality", guard(ec.HEC_centrality, h), n)
        converged = "not converge" not in LAST_OUT[0]
        if not converged:
            ctx.count("hec_not_converged")
        if x is not None:
            hec_runs.append(x)
            if not (np.all(x > 0) and abs(np.sum(x) - 1) <= 1e-9):
                ctx.violation({**case, "start": st}, f"HEC is not a positive vector of sum 1: {x.tolist()}")
            else:
                m = k - 1
                y = applied(x)
                xm = x ** m
                cst = float(np.sum(y ** (1.0 / m)) ** m)      # the constant of C20_hec_fixed_point
                cls = float(np.sum(y) / np.sum(xm))           # the best common multiple
                res = min(float(np.max(np.abs(y - cst * xm))), float(np.max(np.abs(y - cls * xm))))
                if res > 1e-5:
                    ctx.violation({**case, "start": st}, f"HEC: max_i |sum_e prod_others - c x_i^{m}| = {res:.3g} (c = {cst!r})")
                # C20_hec_residual: at a stop with |x - x_new|_2 <= tol every residual is <= c m tol
                bound = cst * m * 1e-6
                if converged and float(np.max(np.abs(y - cst * xm))) > 1.01 * bound + 1e-13:
                    ctx.disagree({**case, "start": st}, f"HEC stop rule: residual {float(np.max(np.abs(y - cst * xm))):.3g} exceeds the "
                                                        f"bound c m tol = {bound:.3g} proved for the model (C20_hec_residual)")
            vals.add(x.tolist())
    for nm, runs in (("CEC", cec_runs), ("HEC", hec_runs)):
        for r in runs[1:]:
            if np.max(np.abs(r - runs[0])) > 1e-3:
                ctx.violation(case, f"{nm}: two random starts give different vectors {runs[0].tolist()} / {r.tolist()}")

    # relabelling by a permutation, the random start carried along
    perm = list(range(n))
    ctx.rng.shuffle(perm)
    x0 = [ctx.rng.randint(1, 15) / 16 for _ in range(n)]
    if "perm" in case and "x0" in case:
        perm, x0 = list(case["perm"]), list(case["x0"])
    x0p = [0.0] * n
    for i in range(n):
        x0p[perm[i]] = x0[i]
    pcase = {**case, "perm": perm, "x0": x0}
    hp = guard(lambda: Hypergraph([tuple(perm[a] for a in e) for e in edges]))
    if hp[0] != "ok":
        ctx.violation(pcase, f"building the relabelled hypergraph raised {hp[1]}")
    else:
        for nm, fn in (("CEC_centrality", ec.CEC_centrality), ("HEC_centrality", ec.HEC_centrality)):
            with FixedStart(x0):
                a = as_vec(ctx, pcase, nm, guard(fn, h), n)
            with FixedStart(x0p):
                b = as_vec(ctx, pcase, nm + " (relabelled)", guard(fn, hp[1]), n)
            if a is not None and b is not None:
                if any(abs(b[perm[i]] - a[i]) > 1e-9 for i in range(n)):
                    ctx.violation(pcase, f"{nm}: values are not carried along by the permutation (same start carried along): "
                                         f"{a.tolist()} vs {b.tolist()}")
    ctx.case(key, vals.nontrivial(), sample=case)
    ctx.count(f"uniform_k{k}")

    # --- correspondence: apply, W, one step of each iteration from a dyadic start
    if drv is None:
        return
    lines = [f"eload {n} " + hgxv.enc_lists(E), "apply " + hgxv.enc_list([Fraction(v) for v in x0]), "W"]
    ans = drv.batch(lines)
    g = lambda v, e: np.prod(v[list(e)])  # noqa: E731  (the g of HEC_centrality)
    ra = guard(ec.apply, h, np.array(x0), g)
    if ans[0] != "ok":
        ctx.disagree(pcase, f"eload answered {ans[0]!r}")
        return
    y_model = [Fraction(v) for v in hgxv.dec_list(ans[1])]
    if ra[0] != "ok":
        ctx.violation(pcase, f"apply raised {ra[1]}")
    elif [float(v) for v in y_model] != [float(v) for v in ra[1]]:
        ctx.disagree(pcase, f"apply(x0): model {[float(v) for v in y_model]}, implementation {list(ra[1])}")
    captured = {}

    def fake_pm(Wm, *a, **kw):
        captured["W"] = np.array(Wm)
        return np.ones(len(Wm))
    old = ec.power_method
    ec.power_method = fake_pm
    try:
        guard(ec.CEC_centrality, h)
    finally:
        ec.power_method = old
    w_model = [[float(Fraction(v)) for v in row] for row in hgxv.dec_lists(ans[2])]
    if "W" in captured and captured["W"].tolist() != w_model:
        ctx.disagree(pcase, f"W of CEC_centrality: model {w_model}, implementation {captured['W'].tolist()}")
    if "W" not in captured:
        ctx.disagree(pcase, "CEC_centrality did not hand a matrix to power_method")
    # one step of power_method / HEC from x0 (max_iter=1)
    xs = np.array(x0) / np.linalg.norm(np.array(x0))
    Wm = np.array(w_model)
    yy = Wm @ xs
    with FixedStart(x0):
        r1 = as_vec(ctx, pcase, "CEC_centrality(max_iter=1)", guard(ec.CEC_centrality, h, max_iter=1), n)
    if r1 is not None and np.max(np.abs(r1 - yy / np.linalg.norm(yy))) > 1e-12:
        ctx.disagree(pcase, f"one power step: W x/|W x| from the model's W = {(yy / np.linalg.norm(yy)).tolist()}, implementation {r1.tolist()}")
    x1 = np.array(x0) / np.sum(x0)
    a2 = drv.batch(["apply " + hgxv.enc_list([Fraction(float(v)) for v in x1])])[0]
    ym = np.array([float(Fraction(v)) for v in hgxv.dec_list(a2)])
    rr = ym ** (1.0 / (k - 1))
    a3 = drv.batch(["hecnorm " + hgxv.enc_list([Fraction(float(v)) for v in rr])])[0]
    with FixedStart(x0):
        r2 = as_vec(ctx, pcase, "HEC_centrality(max_iter=1)", guard(ec.HEC_centrality, h, max_iter=1), n)
    if r2 is not None:
        if a3 == "rej":
            ctx.disagree(pcase, "hecnorm rejected")
        else:
            hm = np.array([float(Fraction(v)) for v in hgxv.dec_list(a3)])
            if np.max(np.abs(r2 - hm)) > 1e-12:
                ctx.disagree(pcase, f"one HEC step: model {hm.tolist()}, implementation {r2.tolist()}")


# ------------------------------------------------------------------------------------------

def check_case(ctx, drv, case):
    kind = case.get("kind")
    if kind == "static":
        check_static(ctx, drv, case)
    elif kind == "temporal":
        check_temporal(ctx, drv, case)
    else:
        check_uniform(ctx, drv, case)


FIXED = [
    # D33: integer labels / a label containing 'E' in the averaged node versions
    {"kind": "temporal", "labels": [1, 2, 3, 4], "edges": [(1, 2, 3), (2, 4), (1, 4)], "times": [1, 1, 2]},
    {"kind": "temporal", "labels": ["ANNE", "BOB", "c", "d"], "edges": [("ANNE", "BOB", "c"), ("BOB", "d"), ("ANNE", "d")], "times": [1, 1, 2]},
    {"kind": "static", "labels": ["ANNE", "E1", "N0", "x"], "edges": [("ANNE", "E1"), ("E1", "N0", "x"), ("x",)], "isolated": ["N0"], "iso_first": True},
]


def run(ctx):
    drv = ctx.driver() if ctx.model_available else None
    for case in FIXED:
        check_case(ctx, drv, case)
    n = ctx.scale(300, 15000)
    for i in range(n):
        r = i % 5
        case = gen_static(ctx.rng) if r in (0, 1) else gen_temporal(ctx.rng) if r in (2, 3) else gen_uniform(ctx.rng)
        check_case(ctx, drv, case)
        if ctx.too_many() or (ctx.time_left() is not None and ctx.time_left() < 8):
            ctx.count("stopped_by_budget")
            break


def _tuplify(case):
    case = dict(case)
    case["edges"] = [tuple(e) for e in case["edges"]]
    return case


def replay(ctx, case):
    drv = ctx.driver() if ctx.model_available else None
    check_case(ctx, drv, _tuplify(case))
